import BearVerif.Core.Claw
/-! Helper lemmas for C06 (registry tries). Core Lean only. -/
namespace BearVerif.Claw

/-! ### association lists -/

theorem alGet_upsert_same {α} (l : List (String × α)) (n : String) (f : Option α → α) :
    alGet (alUpsert l n f) n = some (f (alGet l n)) := by
  induction l with
  | nil => simp [alUpsert, alGet]
  | cons kv r ih =>
    obtain ⟨k, v⟩ := kv
    by_cases h : k = n
    · simp [alUpsert, alGet, h]
    · simp [alUpsert, alGet, h, ih]

theorem alGet_upsert_other {α} (l : List (String × α)) (n m : String) (f : Option α → α) (h : n ≠ m) :
    alGet (alUpsert l n f) m = alGet l m := by
  induction l with
  | nil => simp [alUpsert, alGet, h]
  | cons kv r ih =>
    obtain ⟨k, v⟩ := kv
    by_cases hk : k = n
    · subst hk; simp [alUpsert, alGet, h]
    · by_cases hm : k = m
      · subst hm; simp [alUpsert, alGet, hk]
      · simp [alUpsert, alGet, hk, hm, ih]

theorem alUpsert_ne_nil {α} (l : List (String × α)) (n : String) (f : Option α → α) :
    alUpsert l n f ≠ [] := by
  cases l with
  | nil => simp [alUpsert]
  | cons kv r => obtain ⟨k, v⟩ := kv; simp only [alUpsert]; split <;> simp

/-! ### whitelist trie -/

namespace WTrie

@[simp] theorem kids_node (c : Option Conf) (k : List (String × WTrie)) : (node c k).kids = k := rfl
@[simp] theorem conf_node (c : Option Conf) (k : List (String × WTrie)) : (node c k).conf = c := rfl

@[simp] theorem confAt_nil (t : WTrie) : t.confAt [] = t.conf := by simp [confAt, get?]

theorem confAt_cons (t : WTrie) (n : String) (p : Path) :
    t.confAt (n :: p) = match alGet t.kids n with | none => none | some c => c.confAt p := by
  simp only [confAt, get?]; split <;> simp_all

theorem empty_confAt (p : Path) : empty.confAt p = none := by
  cases p with
  | nil => simp [empty]
  | cons n p => simp [confAt_cons, empty, alGet]

theorem confAt_set (t : WTrie) (p q : Path) (v : Conf) :
    (t.set p v).confAt q = if q = p then some v else t.confAt q := by
  induction p generalizing t q with
  | nil =>
    cases q with
    | nil => simp [set]
    | cons m q => simp [set, confAt_cons]
  | cons n p ih =>
    cases q with
    | nil => simp [set]
    | cons m q =>
      by_cases hm : n = m
      · subst hm
        simp only [set, confAt_cons, kids_node, alGet_upsert_same, ih]
        cases hk : alGet t.kids n with
        | none => simp [empty_confAt]
        | some c => simp
      · have hm' : ¬ m = n := fun h => hm h.symm
        simp [set, confAt_cons, alGet_upsert_other _ _ _ _ hm, hm']

theorem conf_set_cons (t : WTrie) (n : String) (p : Path) (v : Conf) : (t.set (n :: p) v).conf = t.conf := by
  simp [set]

theorem kids_set_cons_ne_nil (t : WTrie) (n : String) (p : Path) (v : Conf) : (t.set (n :: p) v).kids ≠ [] := by
  simp [set, alUpsert_ne_nil]

theorem kids_set_ne_nil (t : WTrie) (p : Path) (v : Conf) (h : t.kids ≠ []) : (t.set p v).kids ≠ [] := by
  cases p with
  | nil => simpa [set] using h
  | cons n p => exact kids_set_cons_ne_nil t n p v

end WTrie

theorem nearestFrom_shift (reg : Path → Option Conf) (pre q : Path) :
    nearestFrom reg pre q = nearestFrom (fun p => reg (pre ++ p)) [] q := by
  induction q generalizing pre reg with
  | nil => simp [nearestFrom]
  | cons n q ih =>
    simp only [nearestFrom]
    rw [ih reg (pre ++ [n]), ih (fun p => reg (pre ++ p)) ([] ++ [n])]
    simp [List.append_assoc]

theorem nearestFrom_none (reg : Path → Option Conf) (pre q : Path) (h : ∀ p, reg (pre ++ p) = none) :
    nearestFrom reg pre q = none := by
  induction q generalizing pre with
  | nil => simp [nearestFrom]
  | cons n q ih =>
    simp only [nearestFrom]
    rw [ih (pre ++ [n]) (fun p => by simpa [List.append_assoc] using h ([n] ++ p))]
    simpa using h [n]

theorem nearestFrom_congr (r1 r2 : Path → Option Conf) (pre q : Path)
    (h : ∀ p, p ≠ [] → r1 (pre ++ p) = r2 (pre ++ p)) : nearestFrom r1 pre q = nearestFrom r2 pre q := by
  induction q generalizing pre with
  | nil => simp [nearestFrom]
  | cons n q ih =>
    simp only [nearestFrom]
    rw [ih (pre ++ [n]) (fun p hp => by simpa [List.append_assoc] using h ([n] ++ p) (by simp)), h [n] (by simp)]

/-- the loop of `get_package_conf_or_none` returns the configuration of the nearest
    registered ancestor, else the accumulator it started from -/
theorem WTrie.walk_eq (t : WTrie) (acc : Option Conf) (q : Path) :
    t.walk acc q = firstSome (nearestFrom t.confAt [] q) acc := by
  induction q generalizing t acc with
  | nil => simp [WTrie.walk, nearestFrom, firstSome]
  | cons n q ih =>
    simp only [WTrie.walk, nearestFrom, firstSome]
    cases hk : alGet t.kids n with
    | none =>
      have h0 : ∀ p, t.confAt ([] ++ [n] ++ p) = none := by
        intro p; simp [WTrie.confAt_cons, hk]
      rw [nearestFrom_none _ _ _ h0]
      simp [WTrie.confAt_cons, hk]
    | some c =>
      simp only []
      rw [ih c, nearestFrom_shift t.confAt ([] ++ [n]) q]
      simp only [firstSome]
      have hc : (fun p => t.confAt ([] ++ [n] ++ p)) = c.confAt := by
        funext p; simp [WTrie.confAt_cons, hk]
      rw [hc]
      have h1 : t.confAt ([] ++ [n]) = c.conf := by simp [WTrie.confAt_cons, hk]
      rw [h1]
      cases nearestFrom c.confAt [] q <;> cases c.conf <;> simp

end BearVerif.Claw

namespace BearVerif.Claw

/-! ### blacklist trie -/

/-- `p` is a nonempty prefix of `q` -/
def hit (p q : Path) : Bool := !p.isEmpty && p.isPrefixOf q

namespace BTrie

theorem listed_skip (p : Path) : listed.skip p = listed := by
  match p with
  | [] => rfl
  | [_] => rfl
  | _ :: _ :: _ => rfl

theorem node_skip_isNode (ks : List (String × BTrie)) (p : Path) : ∃ ks', (node ks).skip p = node ks' := by
  match p with
  | [] => exact ⟨ks, rfl⟩
  | [_] => exact ⟨_, rfl⟩
  | _ :: _ :: _ => exact ⟨_, rfl⟩

theorem isListed_nil (t : BTrie) : t.isListed [] = false := by cases t <;> rfl

theorem isListed_node_cons (ks : List (String × BTrie)) (n : String) (q : Path) :
    (node ks).isListed (n :: q) =
      match alGet ks n with
      | none => false
      | some listed => true
      | some (node k) => (node k).isListed q := by
  simp only [isListed, kids]
  split <;> simp_all
  rename_i c _ _
  cases c <;> simp_all

theorem isListed_empty (q : Path) : (node []).isListed q = false := by
  cases q <;> simp [isListed_nil, isListed_node_cons, alGet]

theorem isListed_skip (ks : List (String × BTrie)) (p q : Path) :
    ((node ks).skip p).isListed q = ((node ks).isListed q || hit p q) := by
  induction p generalizing ks q with
  | nil => simp [skip, hit]
  | cons n p ih =>
    cases q with
    | nil => simp [isListed_nil, hit]
    | cons m q =>
      cases p with
      | nil =>
        simp only [skip, isListed_node_cons]
        by_cases hm : n = m
        · subst hm; simp [alGet_upsert_same, hit]
        · simp [alGet_upsert_other _ _ _ _ hm, hit, hm]
      | cons p1 p2 =>
        simp only [skip, isListed_node_cons]
        by_cases hm : n = m
        · subst hm
          simp only [alGet_upsert_same]
          cases hk : alGet ks n with
          | none =>
            obtain ⟨ks', hks'⟩ := node_skip_isNode [] (p1 :: p2)
            simp only [Option.getD_none, hks']
            rw [← hks', ih]
            simp [hit, isListed_empty]
          | some c =>
            cases c with
            | listed => simp [listed_skip]
            | node k =>
              obtain ⟨ks', hks'⟩ := node_skip_isNode k (p1 :: p2)
              simp only [Option.getD_some, hks']
              rw [← hks', ih]
              simp [hit]
        · simp [alGet_upsert_other _ _ _ _ hm, hit, hm]

theorem foldl_skip_isNode (ks : List (String × BTrie)) (ps : List Path) :
    ∃ ks', ps.foldl BTrie.skip (node ks) = node ks' := by
  induction ps generalizing ks with
  | nil => exact ⟨ks, rfl⟩
  | cons p ps ih =>
    obtain ⟨k1, h1⟩ := node_skip_isNode ks p
    simp only [List.foldl_cons, h1]; exact ih k1

theorem isListed_foldl_skip (ks : List (String × BTrie)) (ps : List Path) (q : Path) :
    (ps.foldl BTrie.skip (node ks)).isListed q = ((node ks).isListed q || ps.any (fun p => hit p q)) := by
  induction ps generalizing ks with
  | nil => simp
  | cons p ps ih =>
    obtain ⟨k1, h1⟩ := node_skip_isNode ks p
    simp only [List.foldl_cons, h1, ih, List.any_cons]
    rw [← h1, isListed_skip, Bool.or_assoc]

end BTrie

theorem excludedBy_congr (f g : Path → Bool) (q : Path) (h : ∀ x, x ≠ [] → f x = g x) :
    excludedBy f q = excludedBy g q := by
  induction q generalizing f g with
  | nil => rfl
  | cons n q ih =>
    simp only [excludedBy]
    rw [h [n] (by simp), ih (fun p => f (n :: p)) (fun p => g (n :: p)) (fun x _ => h (n :: x) (by simp))]

theorem excludedBy_add1 (sk : Path → Bool) (p q : Path) :
    excludedBy (fun x => sk x || (!x.isEmpty && x == p)) q = (excludedBy sk q || hit p q) := by
  induction q generalizing sk p with
  | nil => cases p <;> simp [excludedBy, hit]
  | cons n q ih =>
    simp only [excludedBy]
    cases p with
    | nil =>
      have : (fun p => sk (n :: p) || (!(n :: p).isEmpty && (n :: p) == ([] : Path))) = fun p => sk (n :: p) := by
        funext x; simp
      simp [hit, this]
    | cons m p' =>
      by_cases hm : n = m
      · subst hm
        have hc : excludedBy (fun x => sk (n :: x) || (!(n :: x).isEmpty && (n :: x) == (n :: p'))) q
            = excludedBy (fun x => sk (n :: x) || (!x.isEmpty && x == p')) q := by
          apply excludedBy_congr
          intro x hx
          cases x with
          | nil => exact absurd rfl hx
          | cons a b => simp
        rw [hc, ih]
        cases p' with
        | nil => simp [hit]
        | cons a b =>
          simp [hit]
          cases sk [n] <;> simp
      · have hb : (n == m) = false := by simpa using hm
        have hc : (fun x => sk (n :: x) || (!(n :: x).isEmpty && (n :: x) == (m :: p'))) = fun x => sk (n :: x) := by
          funext x; simp [hm]
        have hm' : ¬ m = n := fun h => hm h.symm
        simp [hit, hc, hm, hm', hb]

theorem excludedBy_addSkips (sk : Path → Bool) (ps : List Path) (q : Path) :
    excludedBy (addSkips sk ps) q = (excludedBy sk q || ps.any (fun p => hit p q)) := by
  induction ps generalizing sk with
  | nil =>
    have : addSkips sk [] = sk := by funext x; simp [addSkips]
    simp [this]
  | cons p ps ih =>
    have hc : excludedBy (addSkips sk (p :: ps)) q
        = excludedBy (addSkips (fun x => sk x || (!x.isEmpty && x == p)) ps) q := by
      apply excludedBy_congr
      intro x _
      simp only [addSkips, List.contains_cons]
      cases sk x <;> cases x.isEmpty <;> cases (x == p) <;> simp
    rw [hc, ih, excludedBy_add1, List.any_cons, Bool.or_assoc]

end BearVerif.Claw

namespace BearVerif.Claw

/-! ### registering several names -/

theorem confAt_foldl_set (w : WTrie) (ns : List Path) (c : Conf) (q : Path) :
    (ns.foldl (fun w p => w.set p c) w).confAt q = if ns.contains q then some c else w.confAt q := by
  induction ns generalizing w with
  | nil => simp
  | cons p ns ih =>
    simp only [List.foldl_cons, ih, WTrie.confAt_set, List.contains_cons]
    by_cases h1 : q ∈ ns <;> by_cases h2 : q = p <;> simp [h1, h2]

theorem kids_foldl_set_ne_nil (w : WTrie) (ns : List Path) (c : Conf) (h : w.kids ≠ []) :
    (ns.foldl (fun w p => w.set p c) w).kids ≠ [] := by
  induction ns generalizing w with
  | nil => simpa using h
  | cons p ns ih => exact ih _ (WTrie.kids_set_ne_nil w p c h)

theorem validName_ne_nil {p : Path} (h : validName p = true) : p ≠ [] := by
  intro hp; subst hp; simp [validName] at h

theorem kids_foldl_set_ne_nil' (w : WTrie) (ns : List Path) (c : Conf)
    (hne : ns ≠ []) (hv : ns.all validName = true) :
    (ns.foldl (fun w p => w.set p c) w).kids ≠ [] := by
  cases ns with
  | nil => exact absurd rfl hne
  | cons p ns =>
    simp only [List.all_cons, Bool.and_eq_true] at hv
    have hp := validName_ne_nil hv.1
    cases p with
    | nil => exact absurd rfl hp
    | cons a b => exact kids_foldl_set_ne_nil _ ns c (WTrie.kids_set_cons_ne_nil w a b c)

/-! ### the refinement relation -/

/-- every open `beartyping()` block will find the root configuration it set -/
def StackOK : Option Conf → List (Option Conf × Conf) → Prop
  | _, [] => True
  | root, (old, c) :: rest => root = some c ∧ StackOK old rest

structure R (s : State) (sp : Spec) : Prop where
  root : s.w.conf = sp.allConf
  reg : ∀ p, p ≠ [] → s.w.confAt p = sp.reg p
  excl : ∀ q, s.b.isListed q = sp.excluded q
  bnode : ∃ ks, s.b = .node ks
  stack : s.stack.map Prod.fst = sp.stack
  stackOK : StackOK s.w.conf s.stack
  hook : s.hook = isPackagesTrie s.w

theorem skips_refine {s : State} {sp : Spec} (h : R s sp) (ps : List Path) :
    (∀ q, (ps.foldl BTrie.skip s.b).isListed q = excludedBy (addSkips sp.skipped ps) q) ∧
    (∃ ks, ps.foldl BTrie.skip s.b = .node ks) := by
  obtain ⟨ks, hks⟩ := h.bnode
  constructor
  · intro q
    rw [hks, BTrie.isListed_foldl_skip, excludedBy_addSkips, ← hks, h.excl q]; rfl
  · rw [hks]; exact BTrie.foldl_skip_isNode ks ps

theorem hookAll_refines {s : State} {sp : Spec} (h : R s sp) (c0 : Conf) :
    R (hookPackages s none c0).1 (sp.step (.all c0)).1 ∧ (hookPackages s none c0).2 = (sp.step (.all c0)).2 := by
  obtain ⟨hsk1, hsk2⟩ := skips_refine h c0.hookify.skip
  have hroot := h.root
  simp only [hookPackages, conflictAt, confConflict, WTrie.confAt_nil, Spec.step]
  cases hc : sp.allConf with
  | none =>
    rw [hc] at hroot
    simp only [hroot]
    refine ⟨⟨by simp, ?_, ?_, hsk2, h.stack, ?_, by simp [isPackagesTrie]⟩, by first | rfl | trivial⟩
    · intro p hp
      have := h.reg p hp
      cases p with
      | nil => exact absurd rfl hp
      | cons a b => simpa [WTrie.confAt_cons] using this
    · exact hsk1
    · have := h.stackOK
      cases hs : s.stack with
      | nil => simp [StackOK]
      | cons x r =>
        obtain ⟨o, c⟩ := x
        rw [hs] at this; simp [StackOK, hroot] at this
  | some c' =>
    rw [hc] at hroot
    simp only [hroot]
    by_cases heq : c' = c0.hookify
    · subst heq
      simp only [bne_self_eq_false, Bool.false_eq_true, ↓reduceIte]
      refine ⟨⟨by simp [hc], ?_, ?_, hsk2, h.stack, ?_, by simp [isPackagesTrie]⟩, by first | rfl | trivial⟩
      · intro p hp
        have := h.reg p hp
        cases p with
        | nil => exact absurd rfl hp
        | cons a b => simpa [WTrie.confAt_cons] using this
      · exact hsk1
      · have := h.stackOK; rw [hroot] at this; simpa using this
    · have : (c' != c0.hookify) = true := by simpa using heq
      simp only [this, ↓reduceIte, heq]
      exact ⟨h, by first | rfl | trivial⟩

end BearVerif.Claw

namespace BearVerif.Claw

theorem conflict_any_eq {s : State} {sp : Spec} (h : R s sp) (ns : List Path) (c : Conf)
    (hv : ns.all validName = true) :
    ns.any (fun p => conflictAt s.w p c) =
      ns.any (fun p => confConflict (sp.reg p) c) := by
  induction ns with
  | nil => rfl
  | cons p ns ih =>
    simp only [List.all_cons, Bool.and_eq_true] at hv
    simp only [List.any_cons, ← ih hv.2, conflictAt, h.reg p (validName_ne_nil hv.1)]

theorem hookSome_refines {s : State} {sp : Spec} (h : R s sp) (ns : List Path) (c0 : Conf) :
    R (hookPackages s (some ns) c0).1 (sp.step (.pkgs ns c0)).1 ∧
      (hookPackages s (some ns) c0).2 = (sp.step (.pkgs ns c0)).2 := by
  obtain ⟨hsk1, hsk2⟩ := skips_refine h c0.hookify.skip
  simp only [hookPackages, Spec.step]
  by_cases hbad : (ns.isEmpty || !ns.all validName) = true
  · simp only [hbad, ↓reduceIte]; exact ⟨h, by first | rfl | trivial⟩
  · simp only [hbad, Bool.false_eq_true, ↓reduceIte]
    have hne : ns ≠ [] := by
      intro h0; subst h0; simp at hbad
    have hv : ns.all validName = true := by
      cases hh : ns.all validName <;> simp_all
    rw [conflict_any_eq h ns c0.hookify hv]
    by_cases hcf : (ns.any (fun p => confConflict (sp.reg p) c0.hookify)) = true
    · simp only [hcf, ↓reduceIte]; exact ⟨h, by first | rfl | trivial⟩
    · simp only [hcf, Bool.false_eq_true, ↓reduceIte]
      have hnil : ([] : Path) ∉ ns := by
        intro hm
        have := List.all_eq_true.mp hv [] hm
        simp [validName] at this
      have hconf : (ns.foldl (fun w p => w.set p c0.hookify) s.w).conf = s.w.conf := by
        have := confAt_foldl_set s.w ns c0.hookify []
        simpa [hnil] using this
      refine ⟨⟨?_, ?_, hsk1, hsk2, h.stack, ?_, ?_⟩, by first | rfl | trivial⟩
      · simpa [hconf] using h.root
      · intro p hp
        simp only [confAt_foldl_set]
        split
        · rfl
        · exact h.reg p hp
      · simpa [hconf] using h.stackOK
      · have := kids_foldl_set_ne_nil' s.w ns c0.hookify hne hv
        simp only [isPackagesTrie]
        cases hk : (ns.foldl (fun w p => w.set p c0.hookify) s.w).kids with
        | nil => exact absurd hk this
        | cons a b => simp

theorem enter_refines {s : State} {sp : Spec} (h : R s sp) (c0 : Conf) :
    R (step s (.enter c0)).1 (sp.step (.enter c0)).1 ∧ (step s (.enter c0)).2 = (sp.step (.enter c0)).2 := by
  obtain ⟨hsk1, hsk2⟩ := skips_refine h c0.hookify.skip
  simp only [step, hookPackages, conflictAt, confConflict, WTrie.confAt_nil, WTrie.conf_node, Spec.step, WTrie.kids_node]
  refine ⟨⟨rfl, ?_, hsk1, hsk2, ?_, ?_, by simp [isPackagesTrie]⟩, rfl⟩
  · intro p hp
    have := h.reg p hp
    cases p with
    | nil => exact absurd rfl hp
    | cons a b => simpa [WTrie.confAt_cons] using this
  · simp [h.stack, h.root]
  · exact ⟨rfl, h.stackOK⟩

theorem exit_refines {s : State} {sp : Spec} (h : R s sp) :
    R (step s .exit).1 (sp.step .exit).1 ∧ (step s .exit).2 = (sp.step .exit).2 := by
  have hst := h.stack
  have hok := h.stackOK
  simp only [step, Spec.step]
  cases hs : s.stack with
  | nil =>
    rw [hs] at hst; simp only [List.map_nil] at hst
    simp only [← hst]; exact ⟨h, by first | rfl | trivial⟩
  | cons x rest =>
    obtain ⟨old, c⟩ := x
    rw [hs] at hst hok
    simp only [List.map_cons] at hst
    obtain ⟨hroot, hok'⟩ := hok
    simp only [← hst, hroot, ↓reduceIte]
    refine ⟨⟨rfl, ?_, h.excl, h.bnode, rfl, hok', ?_⟩, by first | rfl | trivial⟩
    · intro p hp
      have := h.reg p hp
      cases p with
      | nil => exact absurd rfl hp
      | cons a b => simpa [WTrie.confAt_cons] using this
    · have : s.hook = true := by rw [h.hook]; simp [isPackagesTrie, hroot]
      simp [this]

theorem step_refines {s : State} {sp : Spec} (h : R s sp) (op : Op) :
    R (step s op).1 (sp.step op).1 ∧ (step s op).2 = (sp.step op).2 := by
  cases op with
  | all c => exact hookAll_refines h c
  | pkgs ns c => exact hookSome_refines h ns c
  | enter c => exact enter_refines h c
  | exit => exact exit_refines h

theorem init_refines (builtin : List String) : R (State.init builtin) (Spec.init builtin) := by
  refine ⟨rfl, ?_, ?_, ⟨_, rfl⟩, rfl, trivial, rfl⟩
  · intro p hp
    cases p with
    | nil => exact absurd rfl hp
    | cons a b => simp [State.init, Spec.init, WTrie.confAt_cons, WTrie.empty, alGet]
  · intro q
    simp only [State.init, Spec.init, Spec.excluded]
    cases q with
    | nil => simp [BTrie.isListed_nil, excludedBy]
    | cons n q =>
      have hget : ∀ l : List String, alGet (l.map (fun n => (n, BTrie.listed))) n = if l.contains n then some BTrie.listed else none := by
        intro l
        induction l with
        | nil => simp [alGet]
        | cons a l ih =>
          by_cases ha : a = n
          · simp [alGet, ha]
          · have hna : ¬ n = a := fun h => ha h.symm
            simp [alGet, ha, ih, hna]
      have hrest : excludedBy (fun p => builtinSkipped builtin (n :: p)) q
          = excludedBy (fun _ => false) q := by
        apply excludedBy_congr
        intro x hx
        cases x with
        | nil => exact absurd rfl hx
        | cons a b => rfl
      have hfalse : ∀ q : Path, excludedBy (fun _ => false) q = false := by
        intro q
        induction q with
        | nil => rfl
        | cons a b ih => simpa [excludedBy] using ih
      simp only [BTrie.isListed_node_cons, hget, excludedBy]
      rw [hrest, hfalse]
      simp only [builtinSkipped]
      cases builtin.contains n <;> simp

theorem run_refines {s : State} {sp : Spec} (h : R s sp) (ops : List Op) :
    R (run s ops) (sp.run ops) ∧ outs s ops = sp.outs ops := by
  induction ops generalizing s sp with
  | nil => exact ⟨h, rfl⟩
  | cons op ops ih =>
    obtain ⟨h1, h2⟩ := step_refines h op
    obtain ⟨h3, h4⟩ := ih h1
    exact ⟨by simpa [run, Spec.run] using h3, by simp [outs, Spec.outs, h2, h4]⟩

theorem getConf_eq_lookup {s : State} {sp : Spec} (h : R s sp) (q : Path) :
    getConf s q = sp.lookup q := by
  simp only [getConf, Spec.lookup, h.excl q, WTrie.walk_eq, h.root]
  rw [nearestFrom_congr s.w.confAt sp.reg [] q (fun p hp => by simpa using h.reg p hp)]

end BearVerif.Claw

namespace BearVerif.Claw

theorem nearestFrom_eq_none_iff (reg : Path → Option Conf) (pre q : Path) :
    nearestFrom reg pre q = none ↔ ∀ k, 0 < k → k ≤ q.length → reg (pre ++ q.take k) = none := by
  induction q generalizing pre with
  | nil => simp [nearestFrom]; intro k hk hk0; omega
  | cons n q ih =>
    simp only [nearestFrom]
    constructor
    · intro h k hk0 hk1
      cases hrec : nearestFrom reg (pre ++ [n]) q with
      | some c => simp [hrec] at h
      | none =>
        simp only [hrec] at h
        cases k with
        | zero => omega
        | succ k0 =>
          cases k0 with
          | zero => simpa using h
          | succ k1 =>
            have := (ih (pre ++ [n])).mp hrec (k1 + 1) (by omega) (by simp at hk1; omega)
            simpa [List.append_assoc] using this
    · intro h
      have hrec : nearestFrom reg (pre ++ [n]) q = none := by
        apply (ih (pre ++ [n])).mpr
        intro k hk0 hk1
        have := h (k + 1) (by omega) (by simp; omega)
        simpa [List.append_assoc] using this
      simp only [hrec]
      simpa using h 1 (by omega) (by simp)

theorem nearestFrom_eq_some_iff (reg : Path → Option Conf) (pre q : Path) (c : Conf) :
    nearestFrom reg pre q = some c ↔
      ∃ k, 0 < k ∧ k ≤ q.length ∧ reg (pre ++ q.take k) = some c ∧
        ∀ j, k < j → j ≤ q.length → reg (pre ++ q.take j) = none := by
  induction q generalizing pre c with
  | nil => simp [nearestFrom]; intro k hk hk0; omega
  | cons n q ih =>
    simp only [nearestFrom]
    cases hrec : nearestFrom reg (pre ++ [n]) q with
    | some c' =>
      obtain ⟨k', hk0', hk1', hk2', hk3'⟩ := (ih (pre ++ [n]) c').mp hrec
      simp only [List.append_assoc, List.singleton_append] at hk2' hk3'
      constructor
      · intro hcc
        simp only [Option.some.injEq] at hcc; subst hcc
        refine ⟨k' + 1, by omega, by simp; omega, by simpa using hk2', ?_⟩
        intro j hj hj'
        cases j with
        | zero => omega
        | succ j =>
          have := hk3' j (by omega) (by simp at hj'; omega)
          simpa using this
      · rintro ⟨k, hk0, hk1, hk2, hk3⟩
        by_cases hlt : k < k' + 1
        · have := hk3 (k' + 1) hlt (by simp; omega)
          simp only [List.take_succ_cons] at this
          rw [hk2'] at this; simp at this
        · by_cases hgt : k' + 1 < k
          · cases k with
            | zero => omega
            | succ k0 =>
              have := hk3' k0 (by omega) (by simp at hk1; omega)
              simp only [List.take_succ_cons] at hk2
              rw [this] at hk2; simp at hk2
          · have : k = k' + 1 := by omega
            subst this
            simp only [List.take_succ_cons] at hk2
            rw [hk2'] at hk2; exact hk2
    | none =>
      simp only []
      have hall := (nearestFrom_eq_none_iff reg (pre ++ [n]) q).mp hrec
      simp only [List.append_assoc, List.singleton_append] at hall
      constructor
      · intro hreg
        refine ⟨1, by omega, by simp, by simpa using hreg, ?_⟩
        intro j hj hj'
        cases j with
        | zero => omega
        | succ j =>
          have := hall j (by omega) (by simp at hj'; omega)
          simpa using this
      · rintro ⟨k, hk0, hk1, hk2, _⟩
        cases k with
        | zero => omega
        | succ k0 =>
          cases k0 with
          | zero => simpa using hk2
          | succ k1 =>
            have := hall (k1 + 1) (by omega) (by simp at hk1; omega)
            simp only [List.take_succ_cons] at hk2
            rw [this] at hk2; simp at hk2

theorem excludedBy_iff (sk : Path → Bool) (q : Path) :
    excludedBy sk q = true ↔ ∃ k, 0 < k ∧ k ≤ q.length ∧ sk (q.take k) = true := by
  induction q generalizing sk with
  | nil => simp [excludedBy]; intro k hk hk0; omega
  | cons n q ih =>
    simp only [excludedBy, Bool.or_eq_true, ih]
    constructor
    · rintro (h | ⟨k, hk0, hk1, hk2⟩)
      · exact ⟨1, by omega, by simp, by simpa using h⟩
      · exact ⟨k + 1, by omega, by simp; omega, by simpa using hk2⟩
    · rintro ⟨k, hk0, hk1, hk2⟩
      cases k with
      | zero => omega
      | succ k0 =>
        cases k0 with
        | zero => left; simpa using hk2
        | succ k1 => right; exact ⟨k1 + 1, by omega, by simp at hk1; omega, by simpa using hk2⟩

end BearVerif.Claw
