import BearVerif.Core.Conf
/-!
  C17 — helper lemmas: Python equality on values, keyword binding, normal forms of
  `conf_kwargs`, the memo-table invariant and its preservation by every operation.
-/
namespace BearVerif.Conf

/-! ## `==` on values and tuples -/

theorem pyEqL_iff {a b : List Val} : pyEqL a b = true ↔ a.map canon = b.map canon := by
  simp [pyEqL]

theorem pyEqL_refl (a : List Val) : pyEqL a a = true := by simp [pyEqL]

theorem pyEqL_symm {a b : List Val} (h : pyEqL a b = true) : pyEqL b a = true := by
  rw [pyEqL_iff] at *; exact h.symm

theorem pyEqL_trans {a b c : List Val} (h1 : pyEqL a b = true) (h2 : pyEqL b c = true) : pyEqL a c = true := by
  rw [pyEqL_iff] at *; exact h1.trans h2

/-- **No look-alikes among valid values**: two values that both pass the validator of the same
    option and compare `==` are the same value (so `1`, `1.0`, `Decimal(1)` are never confused
    with `True` once validation precedes the memo lookup). -/
theorem valid_canon_inj {k : Kind} {a b : Val} (ha : validKind k a = true) (hb : validKind k b = true)
    (h : canon a = canon b) : a = b := by
  cases k <;> cases a <;> simp [validKind] at ha <;> cases b <;> simp [validKind] at hb <;>
    simp_all [canon]
  all_goals (try (rename_i x y; cases x <;> cases y <;> simp_all))


theorem validKind_fdict {k : Kind} {f c : Ov} {r : Nat} {h ki : Bool} (f' c' : Ov) (ki' : Bool)
    (hv : validKind k (.fdict f c r h ki) = true) (hk : k = .frozenDict) :
    validKind k (.fdict f' c' r h ki') = true := by
  subst hk; rfl

/-! ## keyword binding -/

theorem lookupKw_perm {kw kw' : RawKwargs} (hp : kw.Perm kw') (hnd : (kw.map (·.1)).Nodup) (n : String) :
    lookupKw kw n = lookupKw kw' n := by
  induction hp with
  | nil => rfl
  | cons x _ ih =>
    obtain ⟨m, v⟩ := x
    simp only [List.map_cons, List.nodup_cons] at hnd
    simp only [lookupKw]
    split
    · rfl
    · exact ih hnd.2
  | swap x y l =>
    obtain ⟨m, v⟩ := x
    obtain ⟨m', v'⟩ := y
    simp only [List.map_cons, List.nodup_cons, List.mem_cons, not_or] at hnd
    simp only [lookupKw]
    by_cases h1 : m' = n <;> by_cases h2 : m = n <;> simp [h1, h2]
    exact absurd (h1.trans h2.symm) hnd.1.1
  | trans h1 _ ih1 ih2 =>
    exact (ih1 hnd).trans (ih2 ((h1.map (·.1)).nodup_iff.mp hnd))

theorem bindArgs_perm (t : Table) {kw kw' : RawKwargs} (hp : kw.Perm kw') (hnd : (kw.map (·.1)).Nodup) :
    bindArgs t kw = bindArgs t kw' := by
  funext n
  simp only [bindArgs, aliasArg, rawArg, lookupKw_perm hp hnd]

theorem findOpt_some {t : Table} {n : String} {o : Opt} (h : findOpt t n = some o) : o ∈ t.opts ∧ o.name = n := by
  unfold findOpt at h
  exact ⟨List.mem_of_find?_eq_some h, by simpa using List.find?_some h⟩

theorem hasKind_iff {t : Table} {n : String} {k : Kind} :
    hasKind t n k = true ↔ ∃ o, findOpt t n = some o ∧ o.kind = k := by
  unfold hasKind
  cases findOpt t n with
  | none => simp
  | some o => simp

theorem validArgs_at {t : Table} {a : Args} (hv : validArgs t a = true) {o : Opt} (ho : o ∈ t.opts) :
    validKind o.kind (a o.name) = true ∧ hashable (a o.name) = true := by
  unfold validArgs at hv
  have := List.all_eq_true.mp hv o ho
  simpa using this

theorem lookupKw_zip (l : List Opt) (f : String → Val) (n : String) :
    lookupKw ((l.map (·.name)).zip (l.map (fun o => f o.name))) n
      = if n ∈ l.map (·.name) then some (f n) else none := by
  induction l with
  | nil => simp [lookupKw]
  | cons o r ih =>
    simp only [List.map_cons, List.zip_cons_cons, lookupKw, ih, List.mem_cons]
    by_cases h : o.name = n
    · simp [h]
    · have h' : ¬ n = o.name := fun e => h e.symm
      simp [h, h']

/-! ## normal forms of `conf_kwargs` -/

/-- the numeric tower, when enabled, has been merged into `hint_overrides` -/
def TowerOK (a : Args) : Prop :=
  a "is_pep484_tower" = .bool true → ∃ r h, a "hint_overrides" = .fdict .tower .tower r h false

/-- what `conf_kwargs` looks like when `__new__` reaches the memo lookup -/
def Normal (t : Table) (a : Args) : Prop := validArgs t a = true ∧ TowerOK a

/-- two argument maps agree on every option of the table -/
def Agree (t : Table) (a b : Args) : Prop := ∀ n ∈ t.opts.map (·.name), a n = b n

theorem Agree.keyOf {t : Table} {a b : Args} (h : Agree t a b) : keyOf t a = keyOf t b := by
  unfold BearVerif.Conf.keyOf
  exact List.map_congr_left (fun o ho => h o.name (List.mem_map_of_mem ho))

theorem Agree.validArgs {t : Table} {a b : Args} (h : Agree t a b) : validArgs t a = validArgs t b := by
  unfold BearVerif.Conf.validArgs
  rw [Bool.eq_iff_iff, List.all_eq_true, List.all_eq_true]
  constructor <;> intro hh o ho <;> have := hh o ho
  · rw [← h o.name (List.mem_map_of_mem ho)]; exact this
  · rw [h o.name (List.mem_map_of_mem ho)]; exact this

theorem findOpt_mem_names {t : Table} {n : String} {o : Opt} (ho : findOpt t n = some o) :
    n ∈ t.opts.map (·.name) := by
  obtain ⟨hm, hn⟩ := findOpt_some ho
  rw [← hn]; exact List.mem_map_of_mem hm

theorem findOpt_of_mem_names {t : Table} {n : String} (h : n ∈ t.opts.map (·.name)) : ∃ o, findOpt t n = some o := by
  obtain ⟨o, ho, hn⟩ := List.mem_map.mp h
  have : (findOpt t n).isSome = true := by
    unfold findOpt
    rw [List.find?_isSome]
    exact ⟨o, ho, by simp [hn]⟩
  exact Option.isSome_iff_exists.mp this

theorem Agree.at {t : Table} {a b : Args} (h : Agree t a b) {n : String} {o : Opt} (ho : findOpt t n = some o) :
    a n = b n := h n (findOpt_mem_names ho)

theorem namesNodup_unique : ∀ (l : List Opt), namesNodup (l.map (·.name)) = true →
    ∀ o ∈ l, ∀ o' ∈ l, o.name = o'.name → o = o'
  | [], _, _, ho, _, _, _ => by simp at ho
  | x :: r, h, o, ho, o', ho', hn => by
    simp only [List.map_cons, namesNodup, Bool.and_eq_true, Bool.not_eq_true', List.contains_eq_mem,
      decide_eq_false_iff_not, List.mem_map, not_exists, not_and] at h
    rcases List.mem_cons.mp ho with e | e <;> rcases List.mem_cons.mp ho' with e' | e'
    · rw [e, e']
    · subst e; exact absurd hn.symm (h.1 o' e')
    · subst e'; exact absurd hn (h.1 o e)
    · exact namesNodup_unique r h.2 o e o' e' hn

structure WF (t : Table) : Prop where
  unique : ∀ o ∈ t.opts, ∀ o' ∈ t.opts, o.name = o'.name → o = o'
  alias_fresh : ∀ p ∈ t.aliases, p.1 ∉ t.opts.map (·.name)
  vt_not_fallback : t.fallbacks.lookup "violation_type" = none
  fallback_kind : ∀ p ∈ t.fallbacks, ∃ o, findOpt t p.1 = some o ∧ o.kind = .excType
  vt : ∃ o, findOpt t "violation_type" = some o ∧ o.kind = .optExcType
  color : ∃ o, findOpt t "is_color" = some o ∧ o.kind = .tristate
  tower : ∃ o, findOpt t "is_pep484_tower" = some o ∧ o.kind = .bool
  overrides : ∃ o, findOpt t "hint_overrides" = some o ∧ o.kind = .frozenDict
  unpassed : ∀ v, validKind .tristate v = true → pyEq v t.unpassed = false

theorem wf_of {t : Table} (h : t.wf = true) : WF t := by
  simp only [Table.wf, Bool.and_eq_true, List.all_eq_true, Bool.not_eq_true', hasKind_iff,
    Option.isNone_iff_eq_none] at h
  obtain ⟨⟨⟨⟨⟨⟨⟨⟨⟨⟨h1, h2⟩, h3⟩, h4⟩, h5⟩, h6⟩, h7⟩, h8⟩, h9⟩, h10⟩, h11⟩ := h
  refine ⟨namesNodup_unique t.opts h1, ?_, h3, ?_, h5, h6, h7, h8, ?_⟩
  · intro p hp hm
    have := h2 p hp
    simp only [List.contains_eq_mem, decide_eq_false_iff_not] at this
    exact this hm
  · intro p hp
    exact (h4 p hp).2
  · intro v hv
    cases v <;> simp [validKind] at hv
    · exact h11
    · rename_i b; cases b
      · exact h10
      · exact h9

theorem lookup_mem_of_some {l : List (String × Val)} {n : String} {v : Val} (h : l.lookup n = some v) :
    (n, v) ∈ l := by
  induction l with
  | nil => simp at h
  | cons p r ih =>
    obtain ⟨m, w⟩ := p
    simp only [List.lookup_cons] at h
    by_cases e : n = m
    · subst e; simp at h; subst h; simp
    · have : (n == m) = false := by simpa using e
      simp only [this] at h
      exact List.mem_cons_of_mem _ (ih h)

theorem towerStep_normal {t : Table} (hwf : WF t) {a b : Args} (hv : validArgs t a = true)
    (h : towerStep a = .ok b) : Normal t b := by
  obtain ⟨oo, hoo, hook⟩ := hwf.overrides
  obtain ⟨hoom, hoon⟩ := findOpt_some hoo
  have hval := (validArgs_at hv hoom).1
  rw [hook, hoon] at hval
  unfold towerStep at h
  split at h
  · rename_i htow
    cases hho : a "hint_overrides" with
    | fdict f c r hh ki =>
      simp only [hho] at h
      split at h
      · simp at h
      · simp only [Except.ok.injEq] at h
        subst h
        refine ⟨?_, ?_⟩
        · unfold validArgs
          apply List.all_eq_true.mpr
          intro o ho
          have := validArgs_at hv ho
          by_cases hn : o.name = "hint_overrides"
          · simp only [upd, hn, ↓reduceIte, Bool.and_eq_true]
            have ho' : o = oo := hwf.unique o ho oo hoom (hn.trans hoon.symm)
            rw [hn, hho] at this
            exact ⟨validKind_fdict .tower .tower false this.1 (by rw [ho', hook]), this.2⟩
          · simp only [upd, hn, ↓reduceIte, Bool.and_eq_true]
            exact this
        · intro _
          exact ⟨r, hh, by simp [upd]⟩
    | _ => simp [hho, validKind] at hval
  · rename_i htow
    simp only [Except.ok.injEq] at h
    subst h
    exact ⟨hv, fun e => absurd e htow⟩

theorem normArgs_normal {t : Table} (hwf : WF t) {env : Option String} {kw : RawKwargs} {a : Args}
    (h : normArgs t env kw = .ok a) : Normal t a := by
  simp only [normArgs] at h
  split at h
  · simp at h
  · split at h
    · simp at h
    · split at h
      · rename_i hv
        exact towerStep_normal hwf hv h
      · simp at h


/-! ## `BeartypeConf(**conf.kwargs)` normalises to the same key -/

/-- the environment variable, if set, does not change this colour -/
def EnvOK (t : Table) (env : Option String) (ic : Val) : Prop :=
  match env with
  | none => True
  | some s => t.colorEnv.lookup s = some ic

theorem bindArgs_kwargsOf {t : Table} (hwf : WF t) (a : Args) {n : String} (hn : n ∈ t.opts.map (·.name)) :
    bindArgs t (kwargsOf t ⟨keyOf t a⟩) n = a n := by
  obtain ⟨o, ho⟩ := findOpt_of_mem_names hn
  obtain ⟨hm, hon⟩ := findOpt_some ho
  have hkw : ∀ m, lookupKw (kwargsOf t ⟨keyOf t a⟩) m = if m ∈ t.opts.map (·.name) then some (a m) else none := by
    intro m
    simp only [kwargsOf, keyOf]
    exact lookupKw_zip t.opts a m
  have hraw : rawArg (kwargsOf t ⟨keyOf t a⟩) o = a n := by
    simp only [rawArg, hkw, hon, hn, ↓reduceIte, Option.getD_some]
  simp only [bindArgs, ho, aliasArg]
  cases hal : aliasOf t o.name with
  | none => simp [hraw]
  | some old =>
    have hfresh : old ∉ t.opts.map (·.name) := by
      unfold aliasOf at hal
      obtain ⟨p, hp, rfl⟩ := Option.map_eq_some_iff.mp hal
      exact hwf.alias_fresh p (List.mem_of_find?_eq_some hp)
    simp only [hkw, hfresh, ↓reduceIte, hraw]

theorem optExc_excType {v : Val} (h : validKind .optExcType v = true) (hne : v ≠ .none) :
    validKind .excType v = true := by
  cases v <;> simp_all [validKind]

theorem excType_ne_none {v : Val} (h : validKind .excType v = true) : v ≠ .none := by
  cases v <;> simp_all [validKind]

theorem normArgs_kwargsOf {t : Table} (hwf : WF t) {a : Args} (hn : Normal t a) {env : Option String}
    (henv : EnvOK t env (a "is_color")) :
    ∃ b, normArgs t env (kwargsOf t ⟨keyOf t a⟩) = .ok b ∧ Agree t b a := by
  obtain ⟨hv, htow⟩ := hn
  obtain ⟨oc, hoc, hock⟩ := hwf.color
  obtain ⟨ov, hov, hovk⟩ := hwf.vt
  obtain ⟨ot, hot, _⟩ := hwf.tower
  obtain ⟨oh, hoh, _⟩ := hwf.overrides
  have hb0 := fun n hn => bindArgs_kwargsOf hwf a (n := n) hn
  -- get_is_color
  have hcv : validKind .tristate (a "is_color") = true := by
    have := (validArgs_at hv (findOpt_some hoc).1).1
    rwa [hock, (findOpt_some hoc).2] at this
  have hcol : getIsColor t env (bindArgs t (kwargsOf t ⟨keyOf t a⟩) "is_color") = .ok (a "is_color") := by
    rw [hb0 _ (findOpt_mem_names hoc)]
    cases env with
    | none => simp [getIsColor, hwf.unpassed _ hcv]
    | some s => simp only [EnvOK] at henv; simp [getIsColor, henv]
  -- default_conf_kwargs
  have hb1 : ∀ n ∈ t.opts.map (·.name),
      upd (bindArgs t (kwargsOf t ⟨keyOf t a⟩)) "is_color" (a "is_color") n = a n := by
    intro n hn
    by_cases e : n = "is_color"
    · simp [upd, e]
    · simp [upd, e, hb0 n hn]
  have hvtv : validKind .optExcType (a "violation_type") = true := by
    have := (validArgs_at hv (findOpt_some hov).1).1
    rwa [hovk, (findOpt_some hov).2] at this
  have hvt1 := hb1 _ (findOpt_mem_names hov)
  have hdef : ∃ b2, defaultStep t (upd (bindArgs t (kwargsOf t ⟨keyOf t a⟩)) "is_color" (a "is_color")) = .ok b2
      ∧ Agree t b2 a := by
    refine ⟨defaulted t (upd (bindArgs t (kwargsOf t ⟨keyOf t a⟩)) "is_color" (a "is_color")), ?_, ?_⟩
    · unfold defaultStep
      simp only [hvt1]
      rw [if_neg]
      intro ⟨hne, hbad⟩
      rw [optExc_excType hvtv hne] at hbad
      exact absurd hbad (by simp)
    · intro n hn
      simp only [defaulted]
      cases hfb : t.fallbacks.lookup n with
      | none => exact hb1 n hn
      | some fb =>
        obtain ⟨o', ho', hk'⟩ := hwf.fallback_kind _ (lookup_mem_of_some hfb)
        have hval := (validArgs_at hv (findOpt_some ho').1).1
        rw [hk', (findOpt_some ho').2] at hval
        simp only [hb1 n hn, excType_ne_none hval, ↓reduceIte]
  obtain ⟨b2, hb2, hag2⟩ := hdef
  -- sanify_conf_kwargs
  have htw : ∃ b3, towerStep b2 = .ok b3 ∧ Agree t b3 a := by
    unfold towerStep
    rw [hag2 _ (findOpt_mem_names hot), hag2 _ (findOpt_mem_names hoh)]
    by_cases htrue : a "is_pep484_tower" = .bool true
    · obtain ⟨r, h, hfd⟩ := htow htrue
      simp only [htrue, ↓reduceIte, hfd, Ov.conflict, Bool.or_self, Bool.false_eq_true]
      refine ⟨_, rfl, ?_⟩
      intro n hn
      by_cases e : n = "hint_overrides"
      · simp [upd, e, hfd]
      · simp [upd, e, hag2 n hn]
    · simp only [htrue, ↓reduceIte]
      exact ⟨_, rfl, hag2⟩
  obtain ⟨b3, hb3, hag3⟩ := htw
  refine ⟨b3, ?_, hag3⟩
  simp only [normArgs, hcol, hb2, hag2.validArgs, hv, ↓reduceIte, hb3]

theorem normalize_kwargsOf {t : Table} (hwf : WF t) {a : Args} (hn : Normal t a) {env : Option String}
    (henv : EnvOK t env (a "is_color")) :
    normalize t env (kwargsOf t ⟨keyOf t a⟩) = .ok (keyOf t a) := by
  obtain ⟨b, hb, hag⟩ := normArgs_kwargsOf hwf hn henv
  simp [normalize, hb, hag.keyOf]

/-! ## the memo-table invariant -/

/-- every stored key is a normal form, and no two entries have `==` keys -/
def Inv (t : Table) (cache : Cache) : Prop :=
  (∀ c ∈ cache, ∃ a, c.key = keyOf t a ∧ Normal t a) ∧
  (∀ i j (hi : i < cache.length) (hj : j < cache.length), pyEqL cache[i].key cache[j].key = true → i = j)

theorem inv_nil (t : Table) : Inv t [] := ⟨by simp, by simp⟩

theorem valid_keys_eq_aux (l : List Opt) (a b : Args)
    (ha : ∀ o ∈ l, validKind o.kind (a o.name) = true) (hb : ∀ o ∈ l, validKind o.kind (b o.name) = true)
    (h : (l.map (fun o => a o.name)).map canon = (l.map (fun o => b o.name)).map canon) :
    l.map (fun o => a o.name) = l.map (fun o => b o.name) := by
  induction l with
  | nil => rfl
  | cons o r ih =>
    simp only [List.map_cons, List.cons.injEq] at h ⊢
    exact ⟨valid_canon_inj (ha o (by simp)) (hb o (by simp)) h.1,
      ih (fun o' h' => ha o' (by simp [h'])) (fun o' h' => hb o' (by simp [h'])) h.2⟩

/-- keys that passed validation and compare `==` are identical -/
theorem normal_keys_eq {t : Table} {a b : Args} (ha : Normal t a) (hb : Normal t b)
    (h : pyEqL (keyOf t a) (keyOf t b) = true) : keyOf t a = keyOf t b := by
  rw [pyEqL_iff] at h
  exact valid_keys_eq_aux t.opts a b (fun o ho => (validArgs_at ha.1 ho).1) (fun o ho => (validArgs_at hb.1 ho).1) h

theorem lookup_of_getElem {t : Table} {cache : Cache} (hinv : Inv t cache) {i : Nat} (hi : i < cache.length)
    {key : List Val} (hk : cache[i].key = key) : lookup cache key = some i := by
  unfold lookup
  rw [List.findIdx?_eq_some_iff_getElem]
  refine ⟨hi, by simp [hk, pyEqL_refl], ?_⟩
  intro j hji hp
  have : pyEqL cache[j].key cache[i].key = true := by rw [hk]; simpa using hp
  have := hinv.2 j i (Nat.lt_trans hji hi) hi this
  omega

theorem confNew_err {t : Table} {cache : Cache} {env : Option String} {kw : RawKwargs} {r : Result}
    (h : normalize t env kw = .error r) : confNew t cache env kw = (cache, r) := by
  simp [confNew, h]

/-- one call of `__new__` on a table satisfying the invariant: the table only grows, keeps the
    invariant, and the returned object's key IS the normalised key of the call -/
theorem confNew_ok {t : Table} {cache : Cache} (hinv : Inv t cache) {env : Option String} {kw : RawKwargs}
    {a : Args} (hn : normArgs t env kw = .ok a) (hna : Normal t a) :
    ∃ i rest, confNew t cache env kw = (cache ++ rest, .conf i) ∧ Inv t (cache ++ rest) ∧
      ∃ hi : i < (cache ++ rest).length, (cache ++ rest)[i].key = keyOf t a := by
  have hnz : normalize t env kw = .ok (keyOf t a) := by simp [normalize, hn]
  cases hl : lookup cache (keyOf t a) with
  | some i =>
    refine ⟨i, [], by simp [confNew, hnz, hl], by simpa using hinv, ?_⟩
    unfold lookup at hl
    obtain ⟨hi, hp, _⟩ := List.findIdx?_eq_some_iff_getElem.mp hl
    refine ⟨by simpa using hi, ?_⟩
    obtain ⟨a', hk', hn'⟩ := hinv.1 cache[i] (List.getElem_mem hi)
    simp only [List.append_nil]
    rw [hk'] at hp ⊢
    exact normal_keys_eq hn' hna (by simpa using hp)
  | none =>
    refine ⟨cache.length, [⟨keyOf t a⟩], by simp [confNew, hnz, hl], ?_, by simp, by simp⟩
    unfold lookup at hl
    rw [List.findIdx?_eq_none_iff] at hl
    constructor
    · intro c hc
      rcases List.mem_append.mp hc with h | h
      · exact hinv.1 c h
      · simp only [List.mem_singleton] at h
        exact ⟨a, by rw [h], hna⟩
    · intro i j hi hj hp
      simp only [List.length_append, List.length_singleton] at hi hj
      by_cases hi' : i < cache.length <;> by_cases hj' : j < cache.length
      · rw [List.getElem_append_left hi', List.getElem_append_left hj'] at hp
        exact hinv.2 i j hi' hj' hp
      · have hj'' : j = cache.length := by omega
        subst hj''
        rw [List.getElem_append_left hi', List.getElem_append_right (by omega)] at hp
        simp only [Nat.sub_self, List.getElem_singleton] at hp
        have := hl cache[i] (List.getElem_mem hi')
        simp [hp] at this
      · have hi'' : i = cache.length := by omega
        subst hi''
        rw [List.getElem_append_left hj', List.getElem_append_right (by omega)] at hp
        simp only [Nat.sub_self, List.getElem_singleton] at hp
        have := hl cache[j] (List.getElem_mem hj')
        simp [pyEqL_symm hp] at this
      · omega

/-- every operation of a history extends the table and keeps the invariant -/
theorem step_inv {t : Table} (hwf : WF t) {cache : Cache} (hinv : Inv t cache) (op : Op) :
    ∃ rest, (step t cache op).1 = cache ++ rest ∧ Inv t (cache ++ rest) := by
  have key : ∀ env kw, ∃ rest, (confNew t cache env kw).1 = cache ++ rest ∧ Inv t (cache ++ rest) := by
    intro env kw
    cases hn : normArgs t env kw with
    | error r =>
      refine ⟨[], ?_, by simpa using hinv⟩
      have : normalize t env kw = .error r := by simp [normalize, hn]
      simp [confNew_err this]
    | ok a =>
      obtain ⟨i, rest, h1, h2, _⟩ := confNew_ok hinv hn (normArgs_normal hwf hn)
      exact ⟨rest, by rw [h1], h2⟩
  cases op with
  | new env kw => exact key env kw
  | again env i =>
    simp only [step]
    cases cache[i]? with
    | none => exact ⟨[], by simp, by simpa using hinv⟩
    | some c => exact key env _

theorem runFrom_inv {t : Table} (hwf : WF t) (ops : List Op) : ∀ {cache : Cache}, Inv t cache →
    ∃ rest, runFrom t cache ops = cache ++ rest ∧ Inv t (cache ++ rest) := by
  induction ops with
  | nil => intro cache hinv; exact ⟨[], by simp [runFrom], by simpa using hinv⟩
  | cons op r ih =>
    intro cache hinv
    obtain ⟨rest1, h1, hinv1⟩ := step_inv hwf hinv op
    obtain ⟨rest2, h2, hinv2⟩ := ih hinv1
    refine ⟨rest1 ++ rest2, ?_, by simpa [List.append_assoc] using hinv2⟩
    simp only [runFrom, List.foldl_cons] at h2 ⊢
    rw [h1, h2, List.append_assoc]

/-- **the invariant holds after every finite history** -/
theorem run_inv {t : Table} (hwf : WF t) (ops : List Op) : Inv t (run t ops) := by
  obtain ⟨rest, h, hinv⟩ := runFrom_inv hwf ops (inv_nil t)
  unfold run
  rw [h]; exact hinv


/-- an option whose validator is not "exception type" is not defaulted from `violation_type` -/
theorem not_fallback_of_kind {t : Table} (hw : WF t) {n : String} {o : Opt} (ho : findOpt t n = some o)
    (hk : o.kind ≠ .excType) : t.fallbacks.lookup n = none := by
  cases hl : t.fallbacks.lookup n with
  | none => rfl
  | some fb =>
    obtain ⟨o', ho', hk'⟩ := hw.fallback_kind _ (lookup_mem_of_some hl)
    simp only at ho'
    rw [ho] at ho'
    cases ho'
    exact absurd hk' hk

/-! ## shape of the normalised arguments -/

theorem normArgs_shape {t : Table} {env : Option String} {kw : RawKwargs} {a : Args}
    (h : normArgs t env kw = .ok a) :
    ∃ ic, getIsColor t env (bindArgs t kw "is_color") = .ok ic ∧
      (bindArgs t kw "violation_type" = .none ∨ validKind .excType (bindArgs t kw "violation_type") = true) ∧
      validArgs t (defaulted t (upd (bindArgs t kw) "is_color" ic)) = true ∧
      towerStep (defaulted t (upd (bindArgs t kw) "is_color" ic)) = .ok a := by
  simp only [normArgs] at h
  cases hic : getIsColor t env (bindArgs t kw "is_color") with
  | error r => simp [hic] at h
  | ok ic =>
    simp only [hic] at h
    refine ⟨ic, rfl, ?_⟩
    have hup : upd (bindArgs t kw) "is_color" ic "violation_type" = bindArgs t kw "violation_type" := by
      simp [upd]
    by_cases hbad : bindArgs t kw "violation_type" ≠ .none ∧
        validKind .excType (bindArgs t kw "violation_type") = false
    · simp [defaultStep, hup, hbad] at h
    · rw [defaultStep, hup, if_neg hbad] at h
      simp only at h
      by_cases hv : validArgs t (defaulted t (upd (bindArgs t kw) "is_color" ic)) = true
      · rw [if_pos hv] at h
        refine ⟨?_, hv, h⟩
        by_cases e : bindArgs t kw "violation_type" = .none
        · exact Or.inl e
        · right
          cases hk : validKind .excType (bindArgs t kw "violation_type") with
          | true => rfl
          | false => exact absurd ⟨e, hk⟩ hbad
      · rw [if_neg hv] at h
        simp at h

theorem towerStep_other {a2 a : Args} (h : towerStep a2 = .ok a) {n : String} (hn : n ≠ "hint_overrides") :
    a n = a2 n := by
  unfold towerStep at h
  split at h
  · split at h
    · split at h
      · simp at h
      · simp only [Except.ok.injEq] at h
        subst h; simp [upd, hn]
    · simp only [Except.ok.injEq] at h
      subst h; rfl
  · simp only [Except.ok.injEq] at h
    subst h; rfl

/-- a keyword passed under its own name, its deprecated alias (if any) not passed -/
theorem bindArgs_passed {t : Table} {kw : RawKwargs} {n : String} {o : Opt} {v : Val}
    (ho : findOpt t n = some o) (hv : lookupKw kw n = some v)
    (hal : ∀ old, aliasOf t n = some old → lookupKw kw old = none) : bindArgs t kw n = v := by
  obtain ⟨_, hon⟩ := findOpt_some ho
  simp only [bindArgs, ho, aliasArg, rawArg, hon, hv, Option.getD_some]
  cases h : aliasOf t n with
  | none => rfl
  | some old => simp [hal old h]

end BearVerif.Conf
