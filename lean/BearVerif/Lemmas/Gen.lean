import BearVerif.Core.Gen
/-!
  C08 — helper lemmas: the simulation between the decorated object (wrapper body over the
  inner object) and the undecorated / specification object, one operation at a time.
  The relation is a function: the decorated object's state is `lift` of the undecorated one's.
-/
namespace BearVerif.Gen

/-! ## the implicit StopIteration handler -/

theorem convert_idem (k : Kind) (e : Exc) : convert k (convert k e) = convert k e := by
  cases e <;> cases k <;> simp [convert]

theorem convert_ne_stopIter (k : Kind) (e : Exc) (v : Val) : convert k e ≠ .stopIter v := by
  cases e <;> cases k <;> simp [convert]

theorem convert_agen_ne_stopAsync (e : Exc) : convert .agen e ≠ .stopAsync := by
  cases e <;> simp [convert]

theorem convert_violation (k : Kind) : convert k .violation = .violation := by
  cases k <;> simp [convert]

theorem convert_genExit (k : Kind) : convert k .genExit = .genExit := by
  cases k <;> simp [convert]

theorem run_yld {k : Kind} {b : Body σ} {s : σ} {i : In} {l : Log} {v : Val} {s' : σ}
    (h : b.resume s i = (l, .yld v s')) : run k b s i = (l, .yld v s') := by
  simp [run, h]

theorem run_ret {k : Kind} {b : Body σ} {s : σ} {i : In} {l : Log} {v : Val}
    (h : b.resume s i = (l, .ret v)) : run k b s i = (l, .ret v) := by
  simp [run, h]

theorem run_rse {k : Kind} {b : Body σ} {s : σ} {i : In} {l : Log} {e : Exc}
    (h : b.resume s i = (l, .rse e)) : run k b s i = (l, .rse (convert k e)) := by
  simp [run, h]

theorem run_wrap_eq (k : Kind) (b' : Body τ) (w : τ) (i : In) :
    run k b' w i = (match b'.resume w i with
                    | (l, .rse e) => (l, .rse (convert k e))
                    | r => r) := rfl

/-- every answer of a body is one of the three -/
theorem out_cases (r : Log × Out σ) :
    (∃ l v s, r = (l, .yld v s)) ∨ (∃ l v, r = (l, .ret v)) ∨ (∃ l e, r = (l, .rse e)) := by
  obtain ⟨l, o⟩ := r
  cases o with
  | yld v s => exact Or.inl ⟨l, v, s, rfl⟩
  | ret v => exact Or.inr (Or.inl ⟨l, v, rfl⟩)
  | rse e => exact Or.inr (Or.inr ⟨l, e, rfl⟩)

theorem swallowed_convert (k : Kind) (e : Exc) :
    G.swallowedByClose (convert k e) = true ↔ convert k e = .genExit := by
  cases e <;> cases k <;> simp [convert, G.swallowedByClose]

theorem marks_convert (e : Exc) :
    A.marksClosed (convert .agen e) = true ↔ convert .agen e = .genExit := by
  cases e <;> simp [convert, A.marksClosed]

/-! ## `checkRet` -/

theorem checkRet_exit (chk : Val → Bool) (b : Body σ) (s : σ) :
    (checkRet chk b).resume s (.throw .genExit) = b.resume s (.throw .genExit) := by
  simp [checkRet]

theorem checkRet_other (chk : Val → Bool) (b : Body σ) (s : σ) (i : In) (h : i ≠ .throw .genExit) :
    (checkRet chk b).resume s i =
      match b.resume s i with
      | (l, .ret v) => if chk v then (l, .ret v) else (l, .rse .violation)
      | r => r := by
  cases i with
  | send v => rfl
  | throw e => cases e <;> first | exact absurd rfl h | rfl

theorem checkRet_true (b : Body σ) : checkRet (fun _ => true) b = b := by
  obtain ⟨st, rs⟩ := b
  simp only [checkRet, Body.mk.injEq, true_and]
  funext s i
  split
  · rfl
  · split <;> simp_all

/-! ## sync generators / coroutines: the decorated object is `lift` of the specification object -/

def liftSt : St σ → St (W (St σ))
  | .created => .created
  | .suspended s => .suspended (.deleg (.suspended s))
  | .closed => .closed

def liftRes (r : Log × St σ × Res) : Log × St (W (St σ)) × Res := (r.1, liftSt r.2.1, r.2.2)

/-- send / non-GeneratorExit throw while delegating (and the very first resumption): what the wrapper does with
    the inner object's answer, under the wrapper's own implicit handler, is the specification object's answer -/
theorem core_deleg (k : Kind) (chk : Val → Bool) (b : Body σ) (s : σ) (i : In) (hi : i ≠ .throw .genExit)
    (o : Body (W (St σ))) (w : W (St σ)) (j : In)
    (ho : o.resume w j = fromInner chk (G.finish (run k b s i))) :
    G.finish (run k o w j) = liftRes (G.finish (run k (checkRet chk b) s i)) := by
  have hc := checkRet_other chk b s i hi
  rw [run_wrap_eq k o w j, ho]
  rcases out_cases (b.resume s i) with ⟨l, v, s', h⟩ | ⟨l, v, h⟩ | ⟨l, e, h⟩
  · have h' : (checkRet chk b).resume s i = (l, .yld v s') := by rw [hc, h]
    simp [run_yld h, run_yld h', G.finish, fromInner, liftRes, liftSt]
  · by_cases hv : chk v = true
    · have h' : (checkRet chk b).resume s i = (l, .ret v) := by rw [hc, h]; simp [hv]
      simp [run_ret h, run_ret h', G.finish, fromInner, liftRes, liftSt, hv]
    · have h' : (checkRet chk b).resume s i = (l, .rse .violation) := by rw [hc, h]; simp [hv]
      simp [run_ret h, run_rse h', G.finish, fromInner, liftRes, liftSt, hv, convert_violation]
  · have h' : (checkRet chk b).resume s i = (l, .rse e) := by rw [hc, h]
    rw [run_rse h, run_rse h']
    have hne := convert_ne_stopIter k e
    have hid := convert_idem k e
    generalize convert k e = e' at hne hid
    cases e' <;> simp_all [G.finish, fromInner, liftRes, liftSt]

theorem wrapDeleg_init (k : Kind) (chk : Val → Bool) (b : Body σ) (v : Val) :
    (wrapDeleg k true chk b).resume .init (.send v) = fromInner chk (G.finish (run k b b.start (.send none))) := rfl

theorem wrapDeleg_send (k : Kind) (ok : Bool) (chk : Val → Bool) (b : Body σ) (s : σ) (v : Val) :
    (wrapDeleg k ok chk b).resume (.deleg (.suspended s)) (.send v) = fromInner chk (G.finish (run k b s (.send v))) := rfl

theorem wrapDeleg_exit (k : Kind) (ok : Bool) (chk : Val → Bool) (b : Body σ) (s : σ) :
    (wrapDeleg k ok chk b).resume (.deleg (.suspended s)) (.throw .genExit)
      = afterClose (G.finishClose k (run k b s (.throw .genExit))) := rfl

theorem wrapDeleg_throw (k : Kind) (ok : Bool) (chk : Val → Bool) (b : Body σ) (s : σ) (e : Exc) (he : e ≠ .genExit) :
    (wrapDeleg k ok chk b).resume (.deleg (.suspended s)) (.throw e) = fromInner chk (G.finish (run k b s (.throw e))) := by
  simp [wrapDeleg, he, G.step]

/-- GeneratorExit reaching the wrapper while it delegates (explicit throw or `close()`), inner body raising `e` -/
theorem wrap_exit_rse (k : Kind) (ok : Bool) (chk : Val → Bool) (b : Body σ) (s : σ) (l : Log) (e : Exc)
    (h : b.resume s (.throw .genExit) = (l, .rse e)) :
    run k (wrapDeleg k ok chk b) (.deleg (.suspended s)) (.throw .genExit) = (l, .rse (convert k e)) := by
  rw [run_wrap_eq, wrapDeleg_exit, run_rse h]
  by_cases hs : G.swallowedByClose (convert k e) = true
  · have hg := (swallowed_convert k e).mp hs
    simp [G.finishClose, G.swallowedByClose, afterClose, hg, convert_genExit]
  · simp [G.finishClose, hs, afterClose, convert_idem]

theorem wrap_exit_ret (k : Kind) (ok : Bool) (chk : Val → Bool) (b : Body σ) (s : σ) (l : Log) (v : Val)
    (h : b.resume s (.throw .genExit) = (l, .ret v)) :
    run k (wrapDeleg k ok chk b) (.deleg (.suspended s)) (.throw .genExit) = (l, .rse .genExit) := by
  rw [run_wrap_eq, wrapDeleg_exit, run_ret h]
  simp [G.finishClose, afterClose, convert_genExit]

/-- one operation: decorated object in state `lift sp` = specification object in state `sp` -/
theorem G.step_lift (k : Kind) (chk : Val → Bool) (b : Body σ) (hy : NoYieldOnExit b)
    (op : Op) (hop : NoReturnOnExit b ∨ op ≠ .throw .genExit) (sp : St σ) :
    G.step k (wrapDeleg k true chk b) (liftSt sp) op = liftRes (G.step k (checkRet chk b) sp op) := by
  cases sp with
  | created =>
    cases op with
    | send v =>
      cases v with
      | none =>
        exact core_deleg k chk b b.start (.send none) (by simp) _ .init (.send none) (wrapDeleg_init k chk b none)
      | some x => simp [liftSt, G.step, liftRes]
    | throw e => simp [liftSt, G.step, liftRes]
    | close => simp [liftSt, G.step, liftRes]
  | closed =>
    cases op <;> simp [liftSt, G.step, liftRes]
  | suspended s =>
    cases op with
    | send v =>
      exact core_deleg k chk b s (.send v) (by simp) _ _ (.send v) (wrapDeleg_send k true chk b s v)
    | throw e =>
      by_cases he : e = .genExit
      · subst he
        have hnr : NoReturnOnExit b := by
          rcases hop with h | h
          · exact h
          · exact absurd rfl h
        have hx := checkRet_exit chk b s
        rcases out_cases (b.resume s (.throw .genExit)) with ⟨l, v, s', h⟩ | ⟨l, v, h⟩ | ⟨l, e, h⟩
        · exact absurd h (hy s l v s')
        · exact absurd h (hnr s l v)
        · have h' : (checkRet chk b).resume s (.throw .genExit) = (l, .rse e) := by rw [hx, h]
          show G.finish (run k (wrapDeleg k true chk b) (.deleg (.suspended s)) (.throw .genExit))
             = liftRes (G.finish (run k (checkRet chk b) s (.throw .genExit)))
          rw [wrap_exit_rse k true chk b s l e h, run_rse h']
          simp [G.finish, liftRes, liftSt]
      · exact core_deleg k chk b s (.throw e) (by simp [he]) _ _ (.throw e) (wrapDeleg_throw k true chk b s e he)
    | close =>
      have hx := checkRet_exit chk b s
      show G.finishClose k (run k (wrapDeleg k true chk b) (.deleg (.suspended s)) (.throw .genExit))
         = liftRes (G.finishClose k (run k (checkRet chk b) s (.throw .genExit)))
      rcases out_cases (b.resume s (.throw .genExit)) with ⟨l, v, s', h⟩ | ⟨l, v, h⟩ | ⟨l, e, h⟩
      · exact absurd h (hy s l v s')
      · have h' : (checkRet chk b).resume s (.throw .genExit) = (l, .ret v) := by rw [hx, h]
        rw [wrap_exit_ret k true chk b s l v h, run_ret h']
        simp [G.finishClose, G.swallowedByClose, liftRes, liftSt]
      · have h' : (checkRet chk b).resume s (.throw .genExit) = (l, .rse e) := by rw [hx, h]
        rw [wrap_exit_rse k true chk b s l e h, run_rse h']
        by_cases hs : G.swallowedByClose (convert k e) = true <;> simp [G.finishClose, hs, liftRes, liftSt]

/-- every operation sequence avoiding the excluded family -/
theorem G.trace_lift (k : Kind) (chk : Val → Bool) (b : Body σ) (hy : NoYieldOnExit b)
    (ops : List Op) (hops : NoReturnOnExit b ∨ ∀ op ∈ ops, op ≠ .throw .genExit) (sp : St σ) :
    G.trace k (wrapDeleg k true chk b) (liftSt sp) ops = G.trace k (checkRet chk b) sp ops := by
  induction ops generalizing sp with
  | nil => simp [G.trace]
  | cons op ops ih =>
    have hop : NoReturnOnExit b ∨ op ≠ .throw .genExit := by
      rcases hops with h | h
      · exact Or.inl h
      · exact Or.inr (h op (by simp))
    have hrest : NoReturnOnExit b ∨ ∀ op' ∈ ops, op' ≠ .throw .genExit := by
      rcases hops with h | h
      · exact Or.inl h
      · exact Or.inr (fun o ho => h o (by simp [ho]))
    have hs := G.step_lift k chk b hy op hop sp
    simp only [G.trace, hs, liftRes]
    rw [ih hrest]

/-- a finished object answers without consulting its body -/
theorem G.trace_closed (k : Kind) (b₁ : Body σ) (b₂ : Body τ) (ops : List Op) :
    G.trace k b₁ .closed ops = G.trace k b₂ .closed ops := by
  induction ops with
  | nil => simp [G.trace]
  | cons op ops ih => cases op <;> simp [G.trace, G.step, ih]

theorem G.step_bad_start (k : Kind) (chk : Val → Bool) (b : Body σ) :
    G.step k (wrapDeleg k false chk b) .created (.send none) = ([], .closed, .exc .violation) := by
  have h : (wrapDeleg k false chk b).resume (wrapDeleg k false chk b).start (.send none) = ([], .rse .violation) := rfl
  simp only [G.step, run, h]
  simp [G.finish, convert_violation]

theorem G.step_viol_start (k : Kind) :
    G.step k violBody .created (.send none) = ([], .closed, .exc .violation) := by
  have h : violBody.resume violBody.start (.send none) = ([], .rse .violation) := rfl
  simp only [G.step, run, h]
  simp [G.finish, convert_violation]

/-- return hint not satisfied by the generator object: the decorated generator is the generator that raises
    the violation when first resumed -/
theorem G.trace_badobj (k : Kind) (chk : Val → Bool) (b : Body σ) (ops : List Op) :
    G.trace k (wrapDeleg k false chk b) .created ops = G.trace k violBody .created ops := by
  induction ops with
  | nil => simp [G.trace]
  | cons op ops ih =>
    cases op with
    | send v =>
      cases v with
      | none =>
        simp only [G.trace, G.step_bad_start, G.step_viol_start]
        rw [G.trace_closed k _ violBody ops]
      | some x =>
        simp only [G.trace, G.step]
        rw [ih]
    | throw e =>
      simp only [G.trace, G.step]
      rw [G.trace_closed k _ violBody ops]
    | close =>
      simp only [G.trace, G.step]
      rw [G.trace_closed k _ violBody ops]

/-! ## async generators -/

def liftStA : St σ → St (W (AState σ))
  | .created => .created
  | .suspended s => .suspended (.deleg ⟨.suspended s, false⟩)
  | .closed => .closed

def liftA (a : AState σ) : AState (W (AState σ)) := ⟨liftStA a.st, a.agClosed⟩

def liftResA (r : Log × AState σ × Res) : Log × AState (W (AState σ)) × Res := (r.1, liftA r.2.1, r.2.2)

/-- invariant of objects whose body never yields on GeneratorExit: `ag_closed` is only set on finished objects -/
def Good (a : AState σ) : Prop := a.st ≠ .closed → a.agClosed = false

theorem core_deleg_A (b : Body σ) (s : σ) (i : In)
    (o : Body (W (AState σ))) (w : W (AState σ)) (j : In)
    (ho : o.resume w j = fromInnerA (A.finish false (run .agen b s i))) :
    A.finish false (run .agen o w j) = liftResA (A.finish false (run .agen b s i)) := by
  rw [run_wrap_eq .agen o w j, ho]
  rcases out_cases (b.resume s i) with ⟨l, v, s', h⟩ | ⟨l, v, h⟩ | ⟨l, e, h⟩
  · simp [run_yld h, A.finish, fromInnerA, liftResA, liftA, liftStA]
  · simp [run_ret h, A.finish, fromInnerA, liftResA, liftA, liftStA]
  · rw [run_rse h]
    have hne := convert_agen_ne_stopAsync e
    have hid := convert_idem .agen e
    generalize convert .agen e = e' at hne hid
    cases e' <;> simp_all [A.finish, fromInnerA, liftResA, liftA, liftStA, A.marksClosed]

theorem A.throwCreated_lift (e : Exc) :
    (A.throwCreated e : Log × AState (W (AState σ)) × Res) = liftResA (A.throwCreated e) := by
  cases e <;> simp [A.throwCreated, liftResA, liftA, liftStA]

theorem wrap525_init (b : Body σ) (v : Val) :
    (wrap525 true b).resume .init (.send v) = fromInnerA (A.finish false (run .agen b b.start (.send none))) := rfl

theorem wrap525_send (ok : Bool) (b : Body σ) (s : σ) (v : Val) :
    (wrap525 ok b).resume (.deleg ⟨.suspended s, false⟩) (.send v)
      = fromInnerA (A.finish false (run .agen b s (.send v))) := by
  cases v <;> rfl

theorem wrap525_exit (ok : Bool) (b : Body σ) (s : σ) :
    (wrap525 ok b).resume (.deleg ⟨.suspended s, false⟩) (.throw .genExit)
      = afterAclose (A.finishClose (run .agen b s (.throw .genExit))) := rfl

theorem wrap525_throw (ok : Bool) (b : Body σ) (s : σ) (e : Exc) (he : e ≠ .genExit) :
    (wrap525 ok b).resume (.deleg ⟨.suspended s, false⟩) (.throw e)
      = fromInnerA (A.finish false (run .agen b s (.throw e))) := by
  simp [wrap525, he, A.step]

theorem wrap525_exit_rse (ok : Bool) (b : Body σ) (s : σ) (l : Log) (e : Exc)
    (h : b.resume s (.throw .genExit) = (l, .rse e)) :
    run .agen (wrap525 ok b) (.deleg ⟨.suspended s, false⟩) (.throw .genExit) = (l, .rse (convert .agen e)) := by
  rw [run_wrap_eq, wrap525_exit, run_rse h]
  by_cases hs : A.marksClosed (convert .agen e) = true
  · have hg := (marks_convert e).mp hs
    simp [A.finishClose, A.marksClosed, afterAclose, hg, convert_genExit]
  · simp [A.finishClose, hs, afterAclose, convert_idem]

theorem wrap525_exit_ret (ok : Bool) (b : Body σ) (s : σ) (l : Log) (v : Val)
    (h : b.resume s (.throw .genExit) = (l, .ret v)) :
    run .agen (wrap525 ok b) (.deleg ⟨.suspended s, false⟩) (.throw .genExit) = (l, .rse .genExit) := by
  rw [run_wrap_eq, wrap525_exit, run_ret h]
  simp [A.finishClose, afterAclose, convert_genExit]

/-- the undecorated object keeps `ag_closed` clear while it is not finished -/
theorem A.finish_good (l : Log) (o : Out σ) : Good (A.finish false (l, o)).2.1 := by
  cases o <;> simp [A.finish, Good]

theorem A.step_good (b : Body σ) (hy : NoYieldOnExit b) (op : AOp) (a : AState σ) (hg : Good a) :
    Good (A.step b a op).2.1 := by
  obtain ⟨st, c⟩ := a
  cases st with
  | closed => cases op <;> simp [A.step, Good]
  | created =>
    have hc : c = false := hg (by simp)
    subst hc
    cases op with
    | asend v =>
      cases v with
      | none => exact A.finish_good _ _
      | some x => simp [A.step, Good]
    | athrow e => cases e <;> simp [A.step, A.throwCreated, Good]
    | aclose => simp [A.step, Good]
  | suspended s =>
    have hc : c = false := hg (by simp)
    subst hc
    cases op with
    | asend v => exact A.finish_good _ _
    | athrow e => exact A.finish_good _ _
    | aclose =>
      show Good (A.finishClose (run .agen b s (.throw .genExit))).2.1
      rcases out_cases (b.resume s (.throw .genExit)) with ⟨l, v, s', h⟩ | ⟨l, v, h⟩ | ⟨l, e, h⟩
      · exact absurd h (hy s l v s')
      · simp [run_ret h, A.finishClose, Good]
      · rw [run_rse h]
        by_cases hs : A.marksClosed (convert .agen e) = true <;> simp [A.finishClose, hs, Good]

theorem A.step_lift (b : Body σ) (hy : NoYieldOnExit b)
    (op : AOp) (hop : NoReturnOnExit b ∨ op ≠ .athrow .genExit) (a : AState σ) (hg : Good a) :
    A.step (wrap525 true b) (liftA a) op = liftResA (A.step b a op) := by
  obtain ⟨st, c⟩ := a
  cases st with
  | closed =>
    cases op <;> simp [liftA, liftStA, A.step, liftResA]
  | created =>
    have hc : c = false := hg (by simp)
    subst hc
    cases op with
    | asend v =>
      cases v with
      | none => exact core_deleg_A b b.start (.send none) _ .init (.send none) (wrap525_init b none)
      | some x => simp [liftA, liftStA, A.step, liftResA]
    | athrow e => exact A.throwCreated_lift (σ := σ) e
    | aclose => simp [liftA, liftStA, A.step, liftResA]
  | suspended s =>
    have hc : c = false := hg (by simp)
    subst hc
    cases op with
    | asend v => exact core_deleg_A b s (.send v) _ _ (.send v) (wrap525_send true b s v)
    | athrow e =>
      by_cases he : e = .genExit
      · subst he
        have hnr : NoReturnOnExit b := by
          rcases hop with h | h
          · exact h
          · exact absurd rfl h
        show A.finish false (run .agen (wrap525 true b) (.deleg ⟨.suspended s, false⟩) (.throw .genExit))
           = liftResA (A.finish false (run .agen b s (.throw .genExit)))
        rcases out_cases (b.resume s (.throw .genExit)) with ⟨l, v, s', h⟩ | ⟨l, v, h⟩ | ⟨l, e, h⟩
        · exact absurd h (hy s l v s')
        · exact absurd h (hnr s l v)
        · rw [wrap525_exit_rse true b s l e h, run_rse h]
          simp [A.finish, liftResA, liftA, liftStA]
      · exact core_deleg_A b s (.throw e) _ _ (.throw e) (wrap525_throw true b s e he)
    | aclose =>
      show A.finishClose (run .agen (wrap525 true b) (.deleg ⟨.suspended s, false⟩) (.throw .genExit))
         = liftResA (A.finishClose (run .agen b s (.throw .genExit)))
      rcases out_cases (b.resume s (.throw .genExit)) with ⟨l, v, s', h⟩ | ⟨l, v, h⟩ | ⟨l, e, h⟩
      · exact absurd h (hy s l v s')
      · rw [wrap525_exit_ret true b s l v h, run_ret h]
        simp [A.finishClose, A.marksClosed, liftResA, liftA, liftStA]
      · rw [wrap525_exit_rse true b s l e h, run_rse h]
        by_cases hs : A.marksClosed (convert .agen e) = true <;> simp [A.finishClose, hs, liftResA, liftA, liftStA]

theorem A.trace_lift (b : Body σ) (hy : NoYieldOnExit b)
    (ops : List AOp) (hops : NoReturnOnExit b ∨ ∀ op ∈ ops, op ≠ .athrow .genExit) (a : AState σ) (hg : Good a) :
    A.trace (wrap525 true b) (liftA a) ops = A.trace b a ops := by
  induction ops generalizing a with
  | nil => simp [A.trace]
  | cons op ops ih =>
    have hop : NoReturnOnExit b ∨ op ≠ .athrow .genExit := by
      rcases hops with h | h
      · exact Or.inl h
      · exact Or.inr (h op (by simp))
    have hrest : NoReturnOnExit b ∨ ∀ op' ∈ ops, op' ≠ .athrow .genExit := by
      rcases hops with h | h
      · exact Or.inl h
      · exact Or.inr (fun o ho => h o (by simp [ho]))
    have hs := A.step_lift b hy op hop a hg
    have hg' := A.step_good b hy op a hg
    simp only [A.trace, hs, liftResA]
    rw [ih hrest _ hg']

theorem A.trace_closed (b₁ : Body σ) (b₂ : Body τ) (c₁ c₂ : Bool) (ops : List AOp) :
    A.trace b₁ ⟨.closed, c₁⟩ ops = A.trace b₂ ⟨.closed, c₂⟩ ops := by
  induction ops generalizing c₁ c₂ with
  | nil => simp [A.trace]
  | cons op ops ih =>
    cases op with
    | asend v => simpa [A.trace, A.step] using ih true true
    | athrow e => simpa [A.trace, A.step] using ih c₁ c₂
    | aclose => simpa [A.trace, A.step] using ih c₁ c₂

theorem A.step_bad_start (b : Body σ) :
    A.step (wrap525 false b) A.init (.asend none) = ([], ⟨.closed, false⟩, .exc .violation) := by
  have h : (wrap525 false b).resume (wrap525 false b).start (.send none) = ([], .rse .violation) := rfl
  simp only [A.step, A.init, run, h]
  simp [A.finish, convert, A.marksClosed]

theorem A.step_viol_start :
    A.step violBody A.init (.asend none) = ([], ⟨.closed, false⟩, .exc .violation) := by
  have h : violBody.resume violBody.start (.send none) = ([], .rse .violation) := rfl
  simp only [A.step, A.init, run, h]
  simp [A.finish, convert, A.marksClosed]

theorem A.trace_badobj (b : Body σ) (ops : List AOp) :
    A.trace (wrap525 false b) A.init ops = A.trace violBody A.init ops := by
  induction ops with
  | nil => simp [A.trace]
  | cons op ops ih =>
    cases op with
    | asend v =>
      cases v with
      | none =>
        simp only [A.trace, A.step_bad_start, A.step_viol_start]
        rw [A.trace_closed _ violBody false false ops]
      | some x =>
        simp only [A.trace, A.step, A.init]
        exact congrArg _ ih
    | athrow e =>
      cases e <;> simp only [A.trace, A.step, A.init, A.throwCreated, Bool.false_eq_true, if_false] <;>
        rw [A.trace_closed _ violBody _ _ ops]
    | aclose =>
      simp only [A.trace, A.step, A.init, Bool.false_eq_true, if_false]
      rw [A.trace_closed _ violBody true true ops]

/-! ## tables -/

def React.isYld : React → Bool
  | .yld _ _ => true
  | _ => false

def React.isRet : React → Bool
  | .ret _ => true
  | _ => false

/-- syntactic criterion on a table: no row answers GeneratorExit with a yield -/
def Table.noYieldOnExit (t : Table) : Bool := t.all (fun r => !r.onExit.2.isYld)
def Table.noReturnOnExit (t : Table) : Bool := t.all (fun r => !r.onExit.2.isRet)

theorem Table.row_exit (t : Table) (s : Nat) (p : React → Bool) (hd : p Row.default.onExit.2 = false)
    (h : t.all (fun r => !p r.onExit.2) = true) : p (t[s]?.getD Row.default).onExit.2 = false := by
  cases hs : t[s]? with
  | none => simpa using hd
  | some r =>
    have hm : r ∈ t := List.mem_of_getElem? hs
    have := List.all_eq_true.mp h r hm
    simpa using this

theorem Table.noYieldOnExit_sound (t : Table) (vg : Bool) (h : t.noYieldOnExit = true) :
    NoYieldOnExit (t.toBody vg) := by
  intro s l v s' heq
  have hr := Table.row_exit t s React.isYld (by simp [Row.default, React.isYld]) h
  simp only [Table.toBody, leaf, Row.pick] at heq
  cases hreact : (t[s]?.getD Row.default).onExit.2 <;>
    simp_all [React.isYld, React.eval]

theorem Table.noReturnOnExit_sound (t : Table) (vg : Bool) (h : t.noReturnOnExit = true) :
    NoReturnOnExit (t.toBody vg) := by
  intro s l v heq
  have hr := Table.row_exit t s React.isRet (by simp [Row.default, React.isRet]) h
  simp only [Table.toBody, leaf, Row.pick] at heq
  cases hreact : (t[s]?.getD Row.default).onExit.2 <;>
    simp_all [React.isRet, React.eval]

end BearVerif.Gen
