import BearVerif.Lemmas.BearCompile
/-! Compiler correctness, main induction (`compile_correct`). -/
namespace BearVerif.Bear

variable (W : World) (conf : Conf) (r : Nat)

mutual
theorem chk_ignorable : ∀ (h : Hint) (x : Obj), h.ignorable = true → chk W conf r h x = true
  | .any, _, _ => by simp [chk]
  | .union hs, x, hi => by
    simp only [Hint.ignorable] at hi
    simp only [chk]; exact chkAny_ignorable hs x hi
  | .cls _, _, hi | .shallow _, _, hi | .literal _, _, hi | .tupleFixed _, _, hi | .seq _ _, _, hi
  | .reit _ _, _, hi | .quasi _ _, _, hi | .mapping _ _ _, _, hi | .typeOf _, _, hi | .annotated _ _, _, hi
  | .generic _ _, _, hi => by
    simp [Hint.ignorable] at hi
theorem chkAny_ignorable : ∀ (hs : List Hint) (x : Obj), anyIgnorable hs = true → chkAny W conf r hs x = true
  | [], _, hi => by simp [anyIgnorable] at hi
  | h :: hs, x, hi => by
    simp only [anyIgnorable, Bool.or_eq_true] at hi
    simp only [chkAny, Bool.or_eq_true]
    rcases hi with h1 | h2
    · exact Or.inl (chk_ignorable h x h1)
    · exact Or.inr (chkAny_ignorable hs x h2)
end

mutual
theorem Obj.beq_refl : ∀ (x : Obj), x.beq x = true
  | .mk c a i v ats => by
    simp only [Obj.beq, beq_self_eq_true, Bool.true_and, Bool.and_eq_true]
    exact ⟨⟨beqList_refl i, beqList_refl v⟩, beqAttrs_refl ats⟩
theorem beqList_refl : ∀ (xs : List Obj), beqList xs xs = true
  | [] => rfl
  | x :: xs => by simp only [beqList, Bool.and_eq_true]; exact ⟨Obj.beq_refl x, beqList_refl xs⟩
theorem beqAttrs_refl : ∀ (xs : List (String × Obj)), beqAttrs xs xs = true
  | [] => rfl
  | (n, x) :: xs => by
    simp only [beqAttrs, beq_self_eq_true, Bool.true_and, Bool.and_eq_true]
    exact ⟨Obj.beq_refl x, beqAttrs_refl xs⟩
end

theorem lookup_first {x k0 v0 : Obj} {ks vs : List Obj} (hi : x.items = k0 :: ks) (hv : x.vals = v0 :: vs) :
    x.lookup k0 = some v0 := by
  simp [Obj.lookup, hi, hv, List.find?_cons, Obj.beq_refl]

/-- what a node guarantees about the environment it leaves behind -/
def Post (env env' : Env) (p : Pith) (k : Nat) (x : Obj) : Prop :=
  (∀ j, j < p.keep k → env' (pv j) = env (pv j)) ∧ (p.binds = true → env' (pv k) = some x)

theorem and_first_false {env env₁ : Env} {e rest : Expr} {x : Obj} {n₁ : Nat} {cs : List Nat}
    (ha : eval W r env e = some (.obj x, env₁, n₁)) (hc : cs.any (W.sub x.cls) = false) :
    eval W r env (.and (.isinst e cs) rest) = some (.bool false, env₁, n₁) := by
  simp [eval, ha, hc]

theorem and_first_true {env env₁ env₂ : Env} {e rest : Expr} {x : Obj} {n₁ m : Nat} {cs : List Nat} {v : Val}
    (ha : eval W r env e = some (.obj x, env₁, n₁)) (hc : cs.any (W.sub x.cls) = true)
    (hr : eval W r env₁ rest = some (v, env₂, m)) :
    eval W r env (.and (.isinst e cs) rest) = some (v, env₂, n₁ + m) := by
  simp [eval, ha, hc, hr]

theorem notlen_or_empty {env : Env} {k : Nat} {x : Obj} {rest : Expr} (hk : env (pv k) = some x)
    (hs : W.sized x.cls = true) (he : x.items = []) :
    eval W r env (.or (.not (.len (.var (pv k)))) rest) = some (.bool true, env, 0) := by
  simp [eval, hk, hs, he]

theorem notlen_or_nonempty {env env₂ : Env} {k m : Nat} {x : Obj} {rest : Expr} {v : Val} (hk : env (pv k) = some x)
    (hs : W.sized x.cls = true) (he : x.items ≠ []) (hr : eval W r env rest = some (v, env₂, m)) :
    eval W r env (.or (.not (.len (.var (pv k)))) rest) = some (v, env₂, m) := by
  have : (x.items.length == 0) = false := by
    cases hx : x.items with
    | nil => exact absurd hx he
    | cons a b => simp
  simp [eval, hk, hs, this, hr]

theorem filterMap_cls_any (hs : List Hint) (x : Obj) :
    chkAny W conf r hs x = ((hs.filterMap Hint.cls?).any (W.sub x.cls) ||
      chkAny W conf r (hs.filter (fun h => h.cls?.isNone)) x) := by
  induction hs with
  | nil => simp [chkAny]
  | cons h hs ih =>
    cases h with
    | cls c => simp [chkAny, Hint.cls?, ih, chk, Bool.or_assoc]
    | any | shallow _ | union _ | literal _ | tupleFixed _ | seq _ _ | reit _ _ | quasi _ _ | mapping _ _ _
    | typeOf _ | annotated _ _ | generic _ _ =>
      simp only [chkAny, Hint.cls?, List.filterMap_cons, List.filter_cons, Option.isNone_none, ↓reduceIte, ih]
      exact Bool.or_left_comm _ _ _

theorem or_true {env env₁ : Env} {a b : Expr} {n : Nat} (ha : eval W r env a = some (.bool true, env₁, n)) :
    eval W r env (.or a b) = some (.bool true, env₁, n) := by simp [eval, ha]
theorem or_false {env env₁ env₂ : Env} {a b : Expr} {n m : Nat} {v : Val} (ha : eval W r env a = some (.bool false, env₁, n))
    (hb : eval W r env₁ b = some (v, env₂, m)) : eval W r env (.or a b) = some (v, env₂, n + m) := by
  simp [eval, ha, hb]
theorem and_false {env env₁ : Env} {a b : Expr} {n : Nat} (ha : eval W r env a = some (.bool false, env₁, n)) :
    eval W r env (.and a b) = some (.bool false, env₁, n) := by simp [eval, ha]
theorem and_true {env env₁ env₂ : Env} {a b : Expr} {n m : Nat} {v : Val} (ha : eval W r env a = some (.bool true, env₁, n))
    (hb : eval W r env₁ b = some (v, env₂, m)) : eval W r env (.and a b) = some (v, env₂, n + m) := by
  simp [eval, ha, hb]
theorem not_isinst {env : Env} {k : Nat} {x : Obj} {cs : List Nat} (hk : env (pv k) = some x) :
    eval W r env (.not (.isinst (.var (pv k)) cs)) = some (.bool (!cs.any (W.sub x.cls)), env, 0) := by
  simp [eval, hk]
theorem isinst_var {env : Env} {k : Nat} {x : Obj} {cs : List Nat} (hk : env (pv k) = some x) :
    eval W r env (.isinst (.var (pv k)) cs) = some (.bool (cs.any (W.sub x.cls)), env, 0) := by
  simp [eval, hk]
theorem bind_ok {env env₁ : Env} {e : Expr} {v : Var} {y : Obj} {n : Nat} (he : eval W r env e = some (.obj y, env₁, n)) :
    eval W r env (.bind v e) = some (.bool true, env₁.set v y, n) := by simp [eval, he]

theorem seqItem_ok {env : Env} {k : Nat} {x y : Obj} (hk : env (pv k) = some x)
    (hidx : W.indexable x.cls = true) (hsz : W.sized x.cls = true)
    (hy : x.items[pickIdx conf r x.items.length]? = some y) :
    eval W r env (seqItem conf k) = some (.obj y, env, 1) := by
  have hne : x.items.isEmpty = false := by
    cases hx : x.items with
    | nil => simp [hx] at hy
    | cons a b => rfl
  unfold seqItem pickIdx at *
  cases hr : conf.isRandom with
  | true => simp [hr] at hy; simp [eval, hk, hidx, hsz, hne, hy]
  | false => simp [hr] at hy; simp [eval, hk, hidx, hy]

end BearVerif.Bear
