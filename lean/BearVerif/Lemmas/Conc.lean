import BearVerif.Core.Conc
/-!
  C15 — invariants of the transition systems of `Core/Conc.lean`, each proved for every schedule
  (induction over the schedule) and any number of threads (thread states are functions of the thread index).
-/
namespace BearVerif.Conc

theorem upd_apply {κ α : Type} [DecidableEq κ] (f : κ → α) (k j : κ) (x : α) :
    upd f k x j = if j = k then x else f j := rfl

theorem rankIn_le (order : List LockId) (l : LockId) : rankIn order l ≤ order.length := by
  induction order with
  | nil => simp [rankIn]
  | cons a r ih =>
    simp only [rankIn, List.length_cons]
    split
    · exact Nat.zero_le _
    · exact Nat.succ_le_succ ih

/-! ### Memo -/
namespace Memo
variable {V : Type}

def pcOk (f : Nat → V) (keys : Nat → Nat) (t : Nat) : Pc V → Prop
  | .idle k => k = keys t
  | .missed k => k = keys t
  | .computed k v => k = keys t ∧ v = f k
  | .done k v => k = keys t ∧ v = f k

structure Inv (f : Nat → V) (keys : Nat → Nat) (s : State V) : Prop where
  tbl : ∀ k v, s.tbl k = some v → v = f k
  pc : ∀ t, pcOk f keys t (s.pc t)

theorem init_inv (f : Nat → V) (keys : Nat → Nat) : Inv f keys (init keys) :=
  ⟨fun k v h => by simp [init] at h, fun t => by simp [init, pcOk]⟩

theorem step_inv {f : Nat → V} {keys : Nat → Nat} {s s' : State V} {t : Nat}
    (h : Inv f keys s) (hs : step f t s = some s') : Inv f keys s' := by
  have hpc := h.pc t
  unfold step at hs
  split at hs
  next k hk =>
    rw [hk] at hpc
    split at hs
    next v hv =>
      cases hs
      refine ⟨h.tbl, fun t' => ?_⟩
      by_cases heq : t' = t
      · subst heq; simp only [upd_same]; exact ⟨hpc, h.tbl k v hv⟩
      · simp only [upd_other _ _ _ _ heq]; exact h.pc t'
    next hv =>
      cases hs
      refine ⟨h.tbl, fun t' => ?_⟩
      by_cases heq : t' = t
      · subst heq; simp only [upd_same]; exact hpc
      · simp only [upd_other _ _ _ _ heq]; exact h.pc t'
  next k hk =>
    rw [hk] at hpc
    cases hs
    refine ⟨h.tbl, fun t' => ?_⟩
    by_cases heq : t' = t
    · subst heq; simp only [upd_same]; exact ⟨hpc, rfl⟩
    · simp only [upd_other _ _ _ _ heq]; exact h.pc t'
  next k v hk =>
    rw [hk] at hpc
    cases hs
    refine ⟨fun k' v' hv' => ?_, fun t' => ?_⟩
    · by_cases hkk : k' = k
      · subst hkk; simp only [upd_same] at hv'; cases hv'; exact hpc.2
      · simp only [upd_other _ _ _ _ hkk] at hv'; exact h.tbl k' v' hv'
    · by_cases heq : t' = t
      · subst heq; simp only [upd_same]; exact hpc
      · simp only [upd_other _ _ _ _ heq]; exact h.pc t'
  next => cases hs

theorem run_inv {f : Nat → V} {keys : Nat → Nat} (sched : List Nat) {s : State V}
    (h : Inv f keys s) : Inv f keys (run f sched s) := by
  induction sched generalizing s with
  | nil => exact h
  | cons t r ih =>
    simp only [run, List.foldl_cons]
    cases hs : step f t s with
    | none => simpa [run] using ih h
    | some s' => simpa [run] using ih (step_inv h hs)

end Memo

/-! ### GoC -/
namespace GoC

def inCS : Pc → Bool
  | .locked _ => true
  | .miss _ => true
  | .made _ _ => true
  | .found _ _ => true
  | _ => false

def pcOk (keys : Nat → Nat) (tbl : Nat → Option Nat) (t : Nat) : Pc → Prop
  | .idle k => k = keys t
  | .locked k => k = keys t
  | .miss k => k = keys t ∧ tbl k = none
  | .made k _ => k = keys t ∧ tbl k = none
  | .found k v => k = keys t ∧ tbl k = some v
  | .done k v => k = keys t ∧ tbl k = some v

structure Inv (keys : Nat → Nat) (s : State) : Prop where
  mx : ∀ t, inCS (s.pc t) = true → s.owner = some t
  pc : ∀ t, pcOk keys s.tbl t (s.pc t)

theorem init_inv (keys : Nat → Nat) : Inv keys (init keys) :=
  ⟨fun t h => by simp [init, inCS] at h, fun t => by simp [init, pcOk]⟩

/-- a thread not in the critical section keeps its `pcOk` when an absent key is added -/
theorem pcOk_add {keys : Nat → Nat} {tbl : Nat → Option Nat} {t k v : Nat} {p : Pc}
    (h : pcOk keys tbl t p) (hk : tbl k = none) (hp : inCS p = false ∨ ∀ k', (p = .miss k' ∨ ∃ w, p = .made k' w) → k' ≠ k) :
    pcOk keys (upd tbl k (some v)) t p := by
  cases p with
  | idle k' => exact h
  | locked k' => exact h
  | miss k' =>
    rcases hp with hp | hp
    · simp [inCS] at hp
    · have := hp k' (Or.inl rfl)
      exact ⟨h.1, by rw [upd_other _ _ _ _ this]; exact h.2⟩
  | made k' w =>
    rcases hp with hp | hp
    · simp [inCS] at hp
    · have := hp k' (Or.inr ⟨w, rfl⟩)
      exact ⟨h.1, by rw [upd_other _ _ _ _ this]; exact h.2⟩
  | found k' w =>
    have hne : k' ≠ k := by intro e; subst e; rw [h.2] at hk; cases hk
    exact ⟨h.1, by rw [upd_other _ _ _ _ hne]; exact h.2⟩
  | done k' w =>
    have hne : k' ≠ k := by intro e; subst e; rw [h.2] at hk; cases hk
    exact ⟨h.1, by rw [upd_other _ _ _ _ hne]; exact h.2⟩

theorem other_not_inCS {keys : Nat → Nat} {s : State} (h : Inv keys s) {t t' : Nat}
    (ht : s.owner = some t) (hne : t' ≠ t) : inCS (s.pc t') = false := by
  cases hc : inCS (s.pc t') with
  | false => rfl
  | true =>
    have := h.mx t' hc
    rw [ht] at this
    cases this
    exact absurd rfl hne

theorem step_inv {keys : Nat → Nat} {s s' : State} {t : Nat}
    (h : Inv keys s) (hs : step t s = some s') : Inv keys s' := by
  have hpc := h.pc t
  unfold step at hs
  split at hs
  next k hk =>
    rw [hk] at hpc
    split at hs
    next ho =>
      cases hs
      refine ⟨fun t' hc => ?_, fun t' => ?_⟩
      · by_cases heq : t' = t
        · subst heq; rfl
        · simp only [upd_other _ _ _ _ heq] at hc
          have := h.mx t' hc
          simp [ho] at this
      · by_cases heq : t' = t
        · subst heq; simp only [upd_same]; exact hpc
        · simp only [upd_other _ _ _ _ heq]; exact h.pc t'
    next => cases hs
  next k hk =>
    rw [hk] at hpc
    have hown := h.mx t (by rw [hk]; rfl)
    split at hs
    next v hv =>
      cases hs
      refine ⟨fun t' hc => ?_, fun t' => ?_⟩
      · by_cases heq : t' = t
        · subst heq; exact hown
        · simp only [upd_other _ _ _ _ heq] at hc; exact h.mx t' hc
      · by_cases heq : t' = t
        · subst heq; simp only [upd_same]; exact ⟨hpc, hv⟩
        · simp only [upd_other _ _ _ _ heq]; exact h.pc t'
    next hv =>
      cases hs
      refine ⟨fun t' hc => ?_, fun t' => ?_⟩
      · by_cases heq : t' = t
        · subst heq; exact hown
        · simp only [upd_other _ _ _ _ heq] at hc; exact h.mx t' hc
      · by_cases heq : t' = t
        · subst heq; simp only [upd_same]; exact ⟨hpc, hv⟩
        · simp only [upd_other _ _ _ _ heq]; exact h.pc t'
  next k hk =>
    rw [hk] at hpc
    have hown := h.mx t (by rw [hk]; rfl)
    cases hs
    refine ⟨fun t' hc => ?_, fun t' => ?_⟩
    · by_cases heq : t' = t
      · subst heq; exact hown
      · simp only [upd_other _ _ _ _ heq] at hc; exact h.mx t' hc
    · by_cases heq : t' = t
      · subst heq; simp only [upd_same]; exact hpc
      · simp only [upd_other _ _ _ _ heq]; exact h.pc t'
  next k v hk =>
    rw [hk] at hpc
    have hown := h.mx t (by rw [hk]; rfl)
    cases hs
    refine ⟨fun t' hc => ?_, fun t' => ?_⟩
    · by_cases heq : t' = t
      · subst heq; exact hown
      · simp only [upd_other _ _ _ _ heq] at hc; exact h.mx t' hc
    · by_cases heq : t' = t
      · subst heq; simp only [upd_same]; exact ⟨hpc.1, by simp⟩
      · simp only [upd_other _ _ _ _ heq]
        exact pcOk_add (h.pc t') hpc.2 (Or.inl (other_not_inCS h hown heq))
  next k v hk =>
    rw [hk] at hpc
    have hown := h.mx t (by rw [hk]; rfl)
    cases hs
    refine ⟨fun t' hc => ?_, fun t' => ?_⟩
    · by_cases heq : t' = t
      · subst heq; simp [inCS] at hc
      · simp only [upd_other _ _ _ _ heq] at hc
        have := other_not_inCS h hown heq
        rw [this] at hc; cases hc
    · by_cases heq : t' = t
      · subst heq; simp only [upd_same]; exact hpc
      · simp only [upd_other _ _ _ _ heq]; exact h.pc t'
  next => cases hs

theorem stepNested_inv {keys : Nat → Nat} {s s' : State} {t k' : Nat}
    (h : Inv keys s) (hs : stepNested t k' s = some s') : Inv keys s' := by
  have hpc := h.pc t
  unfold stepNested at hs
  split at hs
  next k hk =>
    rw [hk] at hpc
    have hown := h.mx t (by rw [hk]; rfl)
    split at hs
    next hc =>
      cases hs
      refine ⟨h.mx, fun t' => ?_⟩
      by_cases heq : t' = t
      · subst heq
        rw [hk]
        exact ⟨hpc.1, by show upd s.tbl k' (some s.next) k = none
                         rw [upd_other _ _ _ _ (Ne.symm hc.1)]; exact hpc.2⟩
      · exact pcOk_add (h.pc t') hc.2 (Or.inl (other_not_inCS h hown heq))
    next => cases hs
  next => cases hs

theorem move_inv {keys : Nat → Nat} {s : State} (m : Move) (h : Inv keys s) : Inv keys (move s m) := by
  cases m with
  | main t =>
    simp only [move]
    cases hs : step t s with
    | none => exact h
    | some s' => exact step_inv h hs
  | nested t k =>
    simp only [move]
    cases hs : stepNested t k s with
    | none => exact h
    | some s' => exact stepNested_inv h hs

theorem run_inv {keys : Nat → Nat} (sched : List Move) {s : State} (h : Inv keys s) : Inv keys (run sched s) := by
  induction sched generalizing s with
  | nil => exact h
  | cons m r ih => simpa [run] using ih (move_inv m h)

/-- an entry of the table is never replaced -/
theorem move_stable {keys : Nat → Nat} {s : State} (m : Move) (h : Inv keys s) {k v : Nat}
    (hv : s.tbl k = some v) : (move s m).tbl k = some v := by
  cases m with
  | main t =>
    simp only [move]
    have hpc := h.pc t
    unfold step
    split
    next k0 hk => split <;> simpa using hv
    next k0 hk => split <;> simpa using hv
    next k0 hk => simpa using hv
    next k0 v0 hk =>
      rw [hk] at hpc
      have hne : k ≠ k0 := by intro e; subst e; rw [hpc.2] at hv; cases hv
      simp [upd_other _ _ _ _ hne, hv]
    next k0 v0 hk => simpa using hv
    next => simpa using hv
  | nested t k' =>
    simp only [move]
    unfold stepNested
    split
    next k0 hk =>
      split
      next hc =>
        have hne : k ≠ k' := by intro e; subst e; rw [hc.2] at hv; cases hv
        simp [upd_other _ _ _ _ hne, hv]
      next => simpa using hv
    next => simpa using hv

theorem run_stable {keys : Nat → Nat} (sched : List Move) {s : State} (h : Inv keys s) {k v : Nat}
    (hv : s.tbl k = some v) : (run sched s).tbl k = some v := by
  induction sched generalizing s with
  | nil => exact hv
  | cons m r ih => simpa [run] using ih (move_inv m h) (move_stable m h hv)

end GoC

/-! ### Pool -/
namespace Pool

def inCS : Pc → Bool
  | .acqLocked => true
  | .acqGot _ => true
  | .relLocked _ => true
  | .relDone => true
  | _ => false

structure Inv (s : State) : Prop where
  mx : ∀ t, inCS (s.pc t) = true → s.owner = some t
  fresh : ∀ t i, holds (s.pc t) = some i → i < s.next ∧ i ∉ s.pool
  excl : ∀ t t' i, holds (s.pc t) = some i → holds (s.pc t') = some i → t = t'
  poolLt : ∀ i, i ∈ s.pool → i < s.next
  nodup : s.pool.Nodup

theorem init_inv : Inv init :=
  ⟨fun t h => by simp [init, inCS] at h, fun t i h => by simp [init, holds] at h,
   fun t t' i h => by simp [init, holds] at h, fun i h => by simp [init] at h, by simp [init]⟩

theorem other_not_inCS {s : State} (h : Inv s) {t t' : Nat} (ht : s.owner = some t) (hne : t' ≠ t) :
    inCS (s.pc t') = false := by
  cases hc : inCS (s.pc t') with
  | false => rfl
  | true =>
    have := h.mx t' hc
    rw [ht] at this
    cases this
    exact absurd rfl hne

/-- re-establish the invariant after thread `t` moved to `p` with pool `pool'`, owner `o'`, counter `n'` -/
theorem mk_inv {s : State} (h : Inv s) (t : Nat) (p : Pc) (pool' : List Nat) (o' : Option Nat) (n' : Nat)
    (hmx : ∀ t', inCS (upd s.pc t p t') = true → o' = some t')
    (hn : s.next ≤ n')
    (hp : ∀ i, holds p = some i → i < n' ∧ i ∉ pool' ∧ ∀ t', t' ≠ t → holds (s.pc t') ≠ some i)
    (hothers : ∀ t' i, t' ≠ t → holds (s.pc t') = some i → i ∉ pool')
    (hpl : ∀ i, i ∈ pool' → i < n') (hnd : pool'.Nodup) :
    Inv { pool := pool', owner := o', next := n', pc := upd s.pc t p } := by
  refine ⟨hmx, fun t' i hi => ?_, fun t1 t2 i h1 h2 => ?_, hpl, hnd⟩
  · by_cases heq : t' = t
    · subst heq; simp only [upd_same] at hi; exact ⟨(hp i hi).1, (hp i hi).2.1⟩
    · simp only [upd_other _ _ _ _ heq] at hi
      exact ⟨Nat.lt_of_lt_of_le (h.fresh t' i hi).1 hn, hothers t' i heq hi⟩
  · by_cases e1 : t1 = t <;> by_cases e2 : t2 = t
    · rw [e1, e2]
    · subst e1
      simp only [upd_same] at h1
      simp only [upd_other _ _ _ _ e2] at h2
      exact absurd h2 ((hp i h1).2.2 t2 e2)
    · subst e2
      simp only [upd_same] at h2
      simp only [upd_other _ _ _ _ e1] at h1
      exact absurd h1 ((hp i h2).2.2 t1 e1)
    · simp only [upd_other _ _ _ _ e1] at h1
      simp only [upd_other _ _ _ _ e2] at h2
      exact h.excl t1 t2 i h1 h2

theorem step_inv {s s' : State} {t : Nat} (h : Inv s) (hs : step t s = some s') : Inv s' := by
  unfold step at hs
  split at hs
  next hk =>
    -- idle: take the lock
    split at hs
    next ho =>
      cases hs
      refine mk_inv h t .acqLocked s.pool (some t) s.next ?_ (Nat.le_refl _) (by simp [holds]) ?_ h.poolLt h.nodup
      · intro t' hc
        by_cases heq : t' = t
        · rw [heq]
        · simp only [upd_other _ _ _ _ heq] at hc
          have := h.mx t' hc; simp [ho] at this
      · intro t' i _ hi; exact (h.fresh t' i hi).2
    next => cases hs
  next hk =>
    -- acqLocked: pop or make
    have hown := h.mx t (by rw [hk]; rfl)
    have hmx : ∀ (p : Pc), inCS p = true → ∀ t', inCS (upd s.pc t p t') = true → s.owner = some t' := by
      intro p hp t' hc
      by_cases heq : t' = t
      · rw [heq]; exact hown
      · have := other_not_inCS h hown heq
        simp only [upd_other _ _ _ _ heq] at hc; rw [this] at hc; cases hc
    split at hs
    next i r hpool =>
      cases hs
      have hnd := h.nodup; rw [hpool] at hnd
      have hi_in : i ∈ s.pool := by rw [hpool]; simp
      refine mk_inv h t (.acqGot i) r s.owner s.next (hmx _ rfl) (Nat.le_refl _) ?_ ?_ ?_ (List.nodup_cons.mp hnd).2
      · intro j hj
        simp only [holds] at hj; cases hj
        refine ⟨h.poolLt i hi_in, (List.nodup_cons.mp hnd).1, fun t' _ hc => ?_⟩
        exact (h.fresh t' i hc).2 hi_in
      · intro t' j _ hj hjr
        exact (h.fresh t' j hj).2 (by rw [hpool]; exact List.mem_cons_of_mem _ hjr)
      · intro j hj; exact h.poolLt j (by rw [hpool]; exact List.mem_cons_of_mem _ hj)
    next hpool =>
      cases hs
      refine mk_inv h t (.acqGot s.next) s.pool s.owner (s.next + 1) (hmx _ rfl) (Nat.le_succ _) ?_ ?_ ?_ h.nodup
      · intro j hj
        simp only [holds] at hj; cases hj
        refine ⟨Nat.lt_succ_self _, by rw [hpool]; simp, fun t' _ hc => ?_⟩
        exact absurd (h.fresh t' _ hc).1 (Nat.lt_irrefl _)
      · intro t' j _ hj; exact (h.fresh t' j hj).2
      · intro j hj; exact Nat.lt_succ_of_lt (h.poolLt j hj)
  next i hk =>
    -- acqGot: release the lock
    have hown := h.mx t (by rw [hk]; rfl)
    cases hs
    have hi : holds (s.pc t) = some i := by rw [hk]; rfl
    refine mk_inv h t (.using i) s.pool none s.next ?_ (Nat.le_refl _) ?_ ?_ h.poolLt h.nodup
    · intro t' hc
      by_cases heq : t' = t
      · subst heq; simp [inCS] at hc
      · have := other_not_inCS h hown heq
        simp only [upd_other _ _ _ _ heq] at hc; rw [this] at hc; cases hc
    · intro j hj
      simp only [holds] at hj; cases hj
      exact ⟨(h.fresh t i hi).1, (h.fresh t i hi).2, fun t' hne hc => hne (h.excl t' t i hc hi)⟩
    · intro t' j _ hj; exact (h.fresh t' j hj).2
  next i hk =>
    -- using: take the lock for release()
    have hi : holds (s.pc t) = some i := by rw [hk]; rfl
    split at hs
    next ho =>
      cases hs
      refine mk_inv h t (.relLocked i) s.pool (some t) s.next ?_ (Nat.le_refl _) ?_ ?_ h.poolLt h.nodup
      · intro t' hc
        by_cases heq : t' = t
        · rw [heq]
        · simp only [upd_other _ _ _ _ heq] at hc
          have := h.mx t' hc; simp [ho] at this
      · intro j hj
        simp only [holds] at hj; cases hj
        exact ⟨(h.fresh t i hi).1, (h.fresh t i hi).2, fun t' hne hc => hne (h.excl t' t i hc hi)⟩
      · intro t' j _ hj; exact (h.fresh t' j hj).2
    next => cases hs
  next i hk =>
    -- relLocked: append
    have hown := h.mx t (by rw [hk]; rfl)
    have hi : holds (s.pc t) = some i := by rw [hk]; rfl
    cases hs
    refine mk_inv h t .relDone (i :: s.pool) s.owner s.next ?_ (Nat.le_refl _) (by simp [holds]) ?_ ?_ ?_
    · intro t' hc
      by_cases heq : t' = t
      · rw [heq]; exact hown
      · have := other_not_inCS h hown heq
        simp only [upd_other _ _ _ _ heq] at hc; rw [this] at hc; cases hc
    · intro t' j hne hj hmem
      rcases List.mem_cons.mp hmem with e | e
      · subst e; exact hne (h.excl t' t j hj hi)
      · exact (h.fresh t' j hj).2 e
    · intro j hj
      rcases List.mem_cons.mp hj with e | e
      · subst e; exact (h.fresh t j hi).1
      · exact h.poolLt j e
    · exact List.nodup_cons.mpr ⟨(h.fresh t i hi).2, h.nodup⟩
  next hk =>
    -- relDone: release the lock
    have hown := h.mx t (by rw [hk]; rfl)
    cases hs
    refine mk_inv h t .idle s.pool none s.next ?_ (Nat.le_refl _) (by simp [holds]) ?_ h.poolLt h.nodup
    · intro t' hc
      by_cases heq : t' = t
      · subst heq; simp [inCS] at hc
      · have := other_not_inCS h hown heq
        simp only [upd_other _ _ _ _ heq] at hc; rw [this] at hc; cases hc
    · intro t' j _ hj; exact (h.fresh t' j hj).2

theorem run_inv (sched : List Nat) {s : State} (h : Inv s) : Inv (run sched s) := by
  induction sched generalizing s with
  | nil => exact h
  | cons t r ih =>
    simp only [run, List.foldl_cons]
    cases hs : step t s with
    | none => simpa [run] using ih h
    | some s' => simpa [run] using ih (step_inv h hs)

end Pool

/-! ### CS: reduction of every interleaving to a serial order of critical sections -/
namespace CS
variable {M L : Type}

theorem State.ext' {a b : State M L} (h1 : a.mem = b.mem) (h2 : a.loc = b.loc) (h3 : a.rem = b.rem)
    (h4 : a.cs = b.cs) (h5 : a.held = b.held) : a = b := by
  cases a; cases b; simp_all

theorem Inv.held_of_cs {g : List (Var × LockId)} {s : State M L} (h : Inv g s) {t : Nat} {l : LockId}
    (hc : s.cs t = some l) : s.held l = some t := (h.agree t l).mp hc

theorem Inv.cs_of_held {g : List (Var × LockId)} {s : State M L} (h : Inv g s) {t : Nat} {l : LockId}
    (hc : s.held l = some t) : s.cs t = some l := (h.agree t l).mpr hc

/-- what the flat discipline says about the head of a remaining program -/
theorem wl_acq {g : List (Var × LockId)} {c : Option LockId} {l : LockId} {r : List Act}
    (h : flatWL g c (.acq l :: r) = true) : c = none ∧ flatWL g (some l) r = true := by
  cases c with
  | none => exact ⟨rfl, by simpa [flatWL] using h⟩
  | some l0 => simp [flatWL] at h

theorem wl_rel {g : List (Var × LockId)} {c : Option LockId} {l : LockId} {r : List Act}
    (h : flatWL g c (.rel l :: r) = true) : c = some l ∧ flatWL g none r = true := by
  cases c with
  | none => simp [flatWL] at h
  | some l0 =>
    simp only [flatWL, Bool.and_eq_true, decide_eq_true_eq] at h
    exact ⟨by rw [h.1], h.2⟩

theorem wl_wr {g : List (Var × LockId)} {c : Option LockId} {v : Var} {r : List Act}
    (h : flatWL g c (.wr v :: r) = true) : (∃ l, c = some l ∧ guardOf g v = some l) ∧ flatWL g c r = true := by
  cases c with
  | none => simp [flatWL] at h
  | some l0 =>
    cases hg : guardOf g v with
    | none => simp [flatWL, hg] at h
    | some l1 =>
      simp only [flatWL, hg, Bool.and_eq_true, decide_eq_true_eq] at h
      exact ⟨⟨l0, rfl, by rw [h.1]⟩, h.2⟩

theorem wl_call {g : List (Var × LockId)} {c : Option LockId} {f : String} {r : List Act}
    (h : flatWL g c (.call f :: r) = true) : flatWL g c r = true := by
  cases c <;> simpa [flatWL] using h

/-- `acq l` by `t` when `l` is free: the serial execution runs the whole critical section now -/
theorem sim_acq {g : List (Var × LockId)} {s : State M L} {t : Nat} {l : LockId} {r : List (SAct M L)}
    (h : Inv g s) (hrem : s.rem t = .acq l :: r) (hfree : s.held l = none) :
    let s' : State M L := { s with rem := upd s.rem t r, cs := upd s.cs t (some l), held := upd s.held l (some t) }
    Inv g s' ∧ abs g s' = stepA g t (abs g s) := by
  intro s'
  have hwl := h.wl t
  rw [hrem] at hwl
  obtain ⟨hcs, hwl'⟩ := wl_acq hwl
  have hother : ∀ l'' t'', s.held l'' = some t'' → t'' ≠ t := by
    intro l'' t'' hh e; subst e
    have := h.cs_of_held hh; rw [hcs] at this; cases this
  constructor
  · constructor
    · intro t' l'
      show upd s.cs t (some l) t' = some l' ↔ upd s.held l (some t) l' = some t'
      by_cases e1 : t' = t <;> by_cases e2 : l' = l
      · subst e1; subst e2; simp
      · subst e1
        simp only [upd_same, upd_other _ _ _ _ e2]
        constructor
        · intro hh; cases hh; exact absurd rfl e2
        · intro hh; exact absurd rfl (hother _ _ hh)
      · subst e2
        simp only [upd_same, upd_other _ _ _ _ e1]
        constructor
        · intro hh; have := h.held_of_cs hh; rw [hfree] at this; cases this
        · intro hh; cases hh; exact absurd rfl e1
      · simp only [upd_other _ _ _ _ e1, upd_other _ _ _ _ e2]; exact h.agree t' l'
    · intro t'
      show flatWL g (upd s.cs t (some l) t') ((upd s.rem t r t').map SAct.skel) = true
      by_cases e1 : t' = t
      · subst e1; simpa using hwl'
      · simp only [upd_other _ _ _ _ e1]; exact h.wl t'
  · have habs_rem : (abs g s).rem t = .acq l :: r := by simp [abs, absRem, hcs, hrem]
    have habs_mem : (abs g s).mem l = s.mem l := by simp [abs, absMem, hfree]
    have habs_loc : (abs g s).loc t = s.loc t := by simp [abs, absLoc, hcs]
    unfold stepA
    rw [habs_rem]
    simp only [habs_mem, habs_loc]
    apply State.ext'
    · funext l''
      simp only [abs, absMem, s']
      by_cases e2 : l'' = l
      · subst e2; simp
      · simp only [upd_other _ _ _ _ e2]
        cases hh : s.held l'' with
        | none => simp [absMem, hh]
        | some t'' =>
          have := hother _ _ hh
          simp [upd_other _ _ _ _ this, absMem, hh]
    · funext t''
      simp only [abs, absLoc, s']
      by_cases e1 : t'' = t
      · subst e1; simp
      · simp [upd_other _ _ _ _ e1, absLoc]
    · funext t''
      simp only [abs, absRem, s']
      by_cases e1 : t'' = t
      · subst e1; simp
      · simp [upd_other _ _ _ _ e1, absRem]
    · rfl
    · rfl

/-- `rel l` by its holder: nothing changes in the serial view (the section was already counted at its `acq`) -/
theorem sim_rel {g : List (Var × LockId)} {s : State M L} {t : Nat} {l : LockId} {r : List (SAct M L)}
    (h : Inv g s) (hrem : s.rem t = .rel l :: r) :
    let s' : State M L := { s with rem := upd s.rem t r, cs := upd s.cs t none, held := upd s.held l none }
    Inv g s' ∧ abs g s' = abs g s := by
  intro s'
  have hwl := h.wl t
  rw [hrem] at hwl
  obtain ⟨hcs, hwl'⟩ := wl_rel hwl
  have hheld := h.held_of_cs hcs
  have hother : ∀ l'' t'', l'' ≠ l → s.held l'' = some t'' → t'' ≠ t := by
    intro l'' t'' hne hh e; subst e
    have := h.cs_of_held hh; rw [hcs] at this; cases this; exact hne rfl
  have hother' : ∀ l'' t'', t'' ≠ t → s.cs t'' = some l'' → l'' ≠ l := by
    intro l'' t'' hne hc e; subst e
    have := h.held_of_cs hc; rw [hheld] at this; cases this; exact hne rfl
  constructor
  · constructor
    · intro t' l'
      show upd s.cs t none t' = some l' ↔ upd s.held l none l' = some t'
      by_cases e1 : t' = t <;> by_cases e2 : l' = l
      · subst e1; subst e2; simp
      · subst e1
        simp only [upd_same, upd_other _ _ _ _ e2]
        constructor
        · intro hh; cases hh
        · intro hh; exact absurd rfl (hother _ _ e2 hh)
      · subst e2
        simp only [upd_same, upd_other _ _ _ _ e1]
        constructor
        · intro hh; exact absurd rfl (hother' _ _ e1 hh)
        · intro hh; cases hh
      · simp only [upd_other _ _ _ _ e1, upd_other _ _ _ _ e2]; exact h.agree t' l'
    · intro t'
      show flatWL g (upd s.cs t none t') ((upd s.rem t r t').map SAct.skel) = true
      by_cases e1 : t' = t
      · subst e1; simpa using hwl'
      · simp only [upd_other _ _ _ _ e1]; exact h.wl t'
  · apply State.ext'
    · funext l''
      simp only [abs, absMem, s']
      by_cases e2 : l'' = l
      · subst e2; simp [hheld, hrem, roll]
      · simp only [upd_other _ _ _ _ e2]
        cases hh : s.held l'' with
        | none => rfl
        | some t'' =>
          have := hother _ _ e2 hh
          simp [upd_other _ _ _ _ this]
    · funext t''
      simp only [abs, absLoc, s']
      by_cases e1 : t'' = t
      · subst e1; simp [hcs, hrem, roll]
      · simp [upd_other _ _ _ _ e1]
    · funext t''
      simp only [abs, absRem, s']
      by_cases e1 : t'' = t
      · subst e1; simp [hcs, hrem, afterRel]
      · simp [upd_other _ _ _ _ e1]
    · rfl
    · rfl

/-- an access inside the critical section: already accounted for in the serial view -/
theorem sim_acc {g : List (Var × LockId)} {s : State M L} {t : Nat} {v : Var} {f : M → L → M × L}
    {r : List (SAct M L)} {l : LockId}
    (h : Inv g s) (hrem : s.rem t = .acc v f :: r) (hg : guardOf g v = some l) :
    let s' : State M L := { s with rem := upd s.rem t r, mem := upd s.mem l (f (s.mem l) (s.loc t)).1,
                                   loc := upd s.loc t (f (s.mem l) (s.loc t)).2 }
    Inv g s' ∧ abs g s' = abs g s := by
  intro s'
  have hwl := h.wl t
  rw [hrem] at hwl
  obtain ⟨⟨l0, hcs, hg0⟩, hwl'⟩ := wl_wr hwl
  rw [hg] at hg0; cases hg0
  have hheld := h.held_of_cs hcs
  have hother : ∀ l'' t'', l'' ≠ l → s.held l'' = some t'' → t'' ≠ t := by
    intro l'' t'' hne hh e; subst e
    have := h.cs_of_held hh; rw [hcs] at this; cases this; exact hne rfl
  have hother' : ∀ l'' t'', t'' ≠ t → s.cs t'' = some l'' → l'' ≠ l := by
    intro l'' t'' hne hc e; subst e
    have := h.held_of_cs hc; rw [hheld] at this; cases this; exact hne rfl
  constructor
  · constructor
    · exact h.agree
    · intro t'
      show flatWL g (s.cs t') ((upd s.rem t r t').map SAct.skel) = true
      by_cases e1 : t' = t
      · subst e1; simp only [upd_same]; rw [hcs] at hwl' ⊢; exact hwl'
      · simp only [upd_other _ _ _ _ e1]; exact h.wl t'
  · apply State.ext'
    · funext l''
      simp only [abs, absMem, s']
      by_cases e2 : l'' = l
      · subst e2; simp [hheld, hrem, roll, hg]
      · simp only [upd_other _ _ _ _ e2]
        cases hh : s.held l'' with
        | none => rfl
        | some t'' =>
          have := hother _ _ e2 hh
          simp [upd_other _ _ _ _ this]
    · funext t''
      simp only [abs, absLoc, s']
      by_cases e1 : t'' = t
      · subst e1; simp [hcs, hrem, roll, hg]
      · simp only [upd_other _ _ _ _ e1]
        cases hc : s.cs t'' with
        | none => rfl
        | some l'' =>
          have := hother' _ _ e1 hc
          simp [upd_other _ _ _ _ this]
    · funext t''
      simp only [abs, absRem, s']
      by_cases e1 : t'' = t
      · subst e1; simp [hcs, hrem, afterRel]
      · simp [upd_other _ _ _ _ e1]
    · rfl
    · rfl

/-- a thread-local step: inside a critical section it is already accounted for, outside it is a serial step too -/
theorem sim_loc {g : List (Var × LockId)} {s : State M L} {t : Nat} {f : L → L} {r : List (SAct M L)}
    (h : Inv g s) (hrem : s.rem t = .loc f :: r) :
    let s' : State M L := { s with rem := upd s.rem t r, loc := upd s.loc t (f (s.loc t)) }
    Inv g s' ∧ (abs g s' = abs g s ∨ abs g s' = stepA g t (abs g s)) := by
  intro s'
  have hwl := h.wl t
  rw [hrem] at hwl
  have hwl' := wl_call hwl
  constructor
  · constructor
    · exact h.agree
    · intro t'
      show flatWL g (s.cs t') ((upd s.rem t r t').map SAct.skel) = true
      by_cases e1 : t' = t
      · subst e1; simp only [upd_same]; exact hwl'
      · simp only [upd_other _ _ _ _ e1]; exact h.wl t'
  · cases hcs : s.cs t with
    | none =>
      right
      have hother : ∀ l'' t'', s.held l'' = some t'' → t'' ≠ t := by
        intro l'' t'' hh e; subst e
        have := h.cs_of_held hh; rw [hcs] at this; cases this
      have habs_rem : (abs g s).rem t = .loc f :: r := by simp [abs, absRem, hcs, hrem]
      have habs_loc : (abs g s).loc t = s.loc t := by simp [abs, absLoc, hcs]
      unfold stepA
      rw [habs_rem]
      simp only [habs_loc]
      apply State.ext'
      · funext l''
        simp only [abs, absMem, s']
        cases hh : s.held l'' with
        | none => rfl
        | some t'' =>
          have := hother _ _ hh
          simp [upd_other _ _ _ _ this]
      · funext t''
        simp only [abs, absLoc, s']
        by_cases e1 : t'' = t
        · subst e1; simp [hcs]
        · simp [upd_other _ _ _ _ e1, absLoc]
      · funext t''
        simp only [abs, absRem, s']
        by_cases e1 : t'' = t
        · subst e1; simp [hcs]
        · simp [upd_other _ _ _ _ e1, absRem]
      · rfl
      · rfl
    | some l =>
      left
      have hheld := h.held_of_cs hcs
      have hother : ∀ l'' t'', l'' ≠ l → s.held l'' = some t'' → t'' ≠ t := by
        intro l'' t'' hne hh e; subst e
        have := h.cs_of_held hh; rw [hcs] at this; cases this; exact hne rfl
      apply State.ext'
      · funext l''
        simp only [abs, absMem, s']
        by_cases e2 : l'' = l
        · subst e2; simp [hheld, hrem, roll]
        · cases hh : s.held l'' with
          | none => rfl
          | some t'' =>
            have := hother _ _ e2 hh
            simp [upd_other _ _ _ _ this]
      · funext t''
        simp only [abs, absLoc, s']
        by_cases e1 : t'' = t
        · subst e1; simp [hcs, hrem, roll]
        · simp [upd_other _ _ _ _ e1]
      · funext t''
        simp only [abs, absRem, s']
        by_cases e1 : t'' = t
        · subst e1; simp [hcs, hrem, afterRel]
        · simp [upd_other _ _ _ _ e1]
      · rfl
      · rfl

/-- every concrete step is invisible in the serial view or is one serial step of the same thread -/
theorem step_sim {g : List (Var × LockId)} {s s' : State M L} {t : Nat}
    (h : Inv g s) (hs : step g t s = some s') :
    Inv g s' ∧ (abs g s' = abs g s ∨ abs g s' = stepA g t (abs g s)) := by
  unfold step at hs
  split at hs
  next => cases hs
  next l r hrem =>
    split at hs
    next hfree =>
      cases hs
      have := sim_acq h hrem hfree
      exact ⟨this.1, Or.inr this.2⟩
    next => cases hs
  next l r hrem =>
    cases hs
    have := sim_rel h hrem
    exact ⟨this.1, Or.inl this.2⟩
  next v f r hrem =>
    split at hs
    next l hg =>
      cases hs
      have := sim_acc h hrem hg
      exact ⟨this.1, Or.inl this.2⟩
    next hg =>
      exfalso
      have hwl := h.wl t
      rw [hrem] at hwl
      obtain ⟨⟨l0, _, hg0⟩, _⟩ := wl_wr hwl
      rw [hg] at hg0; cases hg0
  next f r hrem =>
    cases hs
    exact sim_loc h hrem

theorem run_sim {g : List (Var × LockId)} (sched : List Nat) {s : State M L} (h : Inv g s) :
    Inv g (run g sched s) ∧ ∃ sched', sched'.Sublist sched ∧ abs g (run g sched s) = runA g sched' (abs g s) := by
  induction sched generalizing s with
  | nil => exact ⟨h, [], List.Sublist.refl _, rfl⟩
  | cons t r ih =>
    simp only [run, List.foldl_cons]
    cases hs : step g t s with
    | none =>
      obtain ⟨hi, sched', hsub, he⟩ := ih h
      exact ⟨by simpa [run] using hi, sched', List.Sublist.cons _ hsub, by simpa [run] using he⟩
    | some s1 =>
      obtain ⟨h1, hor⟩ := step_sim h hs
      obtain ⟨hi, sched', hsub, he⟩ := ih h1
      refine ⟨by simpa [run] using hi, ?_⟩
      rcases hor with e | e
      · exact ⟨sched', List.Sublist.cons _ hsub, by simpa [run, e] using he⟩
      · refine ⟨t :: sched', List.Sublist.cons_cons _ hsub, ?_⟩
        simp only [Option.getD_some, runA, List.foldl_cons]
        rw [← e]
        simpa [run, runA] using he

theorem init_inv {g : List (Var × LockId)} (P : Nat → List (SAct M L)) (m0 : LockId → M) (l0 : Nat → L)
    (hP : ∀ t, flatWL g none ((P t).map SAct.skel) = true) : Inv g (init P m0 l0) :=
  ⟨fun t l => by simp [init], fun t => by simpa [init] using hP t⟩

/-- with no critical section in progress the serial view is the state itself -/
theorem abs_idle {g : List (Var × LockId)} {s : State M L} (h : Inv g s) (hc : ∀ t, s.cs t = none) : abs g s = s := by
  have hh : ∀ l, s.held l = none := by
    intro l
    cases e : s.held l with
    | none => rfl
    | some t => have := h.cs_of_held e; rw [hc t] at this; cases this
  apply State.ext'
  · funext l; simp [abs, absMem, hh l]
  · funext t; simp [abs, absLoc, hc t]
  · funext t; simp [abs, absRem, hc t]
  · funext t; simp [abs, hc t]
  · funext l; simp [abs, hh l]

theorem finished_idle {g : List (Var × LockId)} {s : State M L} (h : Inv g s) (hf : ∀ t, s.rem t = []) :
    ∀ t, s.cs t = none := by
  intro t
  have := h.wl t
  rw [hf t] at this
  cases hc : s.cs t with
  | none => rfl
  | some l => rw [hc] at this; simp [flatWL] at this

end CS

/-! ### LK: no deadlock under a ranked lock order with reentrant locks -/
namespace LK

structure Inv (reent : LockId → Bool) (rank : LockId → Nat) (s : State) : Prop where
  disc : ∀ t, lockDisc reent rank (s.stk t) (s.rem t) = true
  own : ∀ t l, l ∈ s.stk t ↔ s.held l = some t

theorem init_inv {reent : LockId → Bool} {rank : LockId → Nat} (P : Nat → List Act)
    (hP : ∀ t, lockDisc reent rank [] (P t) = true) : Inv reent rank (init P) :=
  ⟨fun t => by simpa [init] using hP t, fun t l => by simp [init]⟩

theorem disc_acq {reent : LockId → Bool} {rank : LockId → Nat} {stk : List LockId} {l : LockId} {r : List Act}
    (h : lockDisc reent rank stk (.acq l :: r) = true) :
    (l ∈ stk → reent l = true) ∧ (l ∉ stk → ∀ l' ∈ stk, rank l' < rank l) ∧ lockDisc reent rank (l :: stk) r = true := by
  simp only [lockDisc, Bool.and_eq_true] at h
  have h1 : (if l ∈ stk then reent l = true else ∀ x ∈ stk, rank x < rank l) := by simpa using h.1
  exact ⟨fun hm => by simpa [hm] using h1, fun hm => by simpa [hm] using h1, h.2⟩

theorem disc_rel {reent : LockId → Bool} {rank : LockId → Nat} {stk : List LockId} {l : LockId} {r : List Act}
    (h : lockDisc reent rank stk (.rel l :: r) = true) :
    ∃ s', stk = l :: s' ∧ lockDisc reent rank s' r = true := by
  cases stk with
  | nil => simp [lockDisc] at h
  | cons l' s' =>
    simp only [lockDisc, Bool.and_eq_true, decide_eq_true_eq] at h
    exact ⟨s', by rw [h.1], h.2⟩

theorem step_inv {reent : LockId → Bool} {rank : LockId → Nat} {s s' : State} {t : Nat}
    (h : Inv reent rank s) (hs : step t s = some s') : Inv reent rank s' := by
  have hd := h.disc t
  cases hrem : s.rem t with
  | nil => simp [step, hrem] at hs
  | cons a r =>
    rw [hrem] at hd
    cases a with
    | acq l =>
      obtain ⟨_, _, hd'⟩ := disc_acq hd
      cases hfree : s.held l with
      | none =>
        simp only [step, hrem, hfree, Option.some.injEq] at hs
        subst hs
        constructor
        · intro t'
          show lockDisc reent rank (upd s.stk t (l :: s.stk t) t') (upd s.rem t r t') = true
          by_cases e : t' = t
          · subst e; simpa using hd'
          · simp only [upd_other _ _ _ _ e]; exact h.disc t'
        · intro t' l'
          show l' ∈ upd s.stk t (l :: s.stk t) t' ↔ upd s.held l (some t) l' = some t'
          by_cases e1 : t' = t <;> by_cases e2 : l' = l
          · subst e1; subst e2; simp
          · subst e1; simp only [upd_same, upd_other _ _ _ _ e2, List.mem_cons, e2, false_or]; exact h.own t' l'
          · subst e2
            simp only [upd_same, upd_other _ _ _ _ e1]
            constructor
            · intro hm; have := (h.own t' l').mp hm; rw [hfree] at this; cases this
            · intro hh; cases hh; exact absurd rfl e1
          · simp only [upd_other _ _ _ _ e1, upd_other _ _ _ _ e2]; exact h.own t' l'
      | some o =>
        by_cases hot : o = t
        · simp only [step, hrem, hfree, hot, ↓reduceIte, Option.some.injEq] at hs
          subst hs
          subst hot
          constructor
          · intro t'
            show lockDisc reent rank (upd s.stk o (l :: s.stk o) t') (upd s.rem o r t') = true
            by_cases e : t' = o
            · subst e; simpa using hd'
            · simp only [upd_other _ _ _ _ e]; exact h.disc t'
          · intro t' l'
            show l' ∈ upd s.stk o (l :: s.stk o) t' ↔ s.held l' = some t'
            by_cases e1 : t' = o
            · subst e1
              simp only [upd_same, List.mem_cons]
              constructor
              · rintro (e | hm)
                · subst e; exact hfree
                · exact (h.own t' l').mp hm
              · intro hh; exact Or.inr ((h.own t' l').mpr hh)
            · simp only [upd_other _ _ _ _ e1]; exact h.own t' l'
        · simp [step, hrem, hfree, hot] at hs
    | rel l =>
      obtain ⟨stk', hstk, hd'⟩ := disc_rel hd
      simp only [step, hrem, Option.some.injEq] at hs
      subst hs
      have hl : s.held l = some t := (h.own t l).mp (by rw [hstk]; simp)
      constructor
      · intro t'
        show lockDisc reent rank (upd s.stk t (s.stk t).tail t') (upd s.rem t r t') = true
        by_cases e : t' = t
        · subst e; simp only [upd_same, hstk, List.tail_cons]; exact hd'
        · simp only [upd_other _ _ _ _ e]; exact h.disc t'
      · intro t' l'
        show l' ∈ upd s.stk t (s.stk t).tail t' ↔
          (if (s.stk t).tail.contains l = true then s.held else upd s.held l none) l' = some t'
        rw [hstk, List.tail_cons]
        by_cases hc : stk'.contains l = true
        · simp only [hc, ↓reduceIte]
          have hmem := List.contains_iff_mem.mp hc
          by_cases e1 : t' = t
          · subst e1
            simp only [upd_same]
            rw [← h.own t' l', hstk]
            by_cases e2 : l' = l
            · subst e2; simp [hmem]
            · simp [e2]
          · simp only [upd_other _ _ _ _ e1]; exact h.own t' l'
        · simp only [hc, Bool.false_eq_true, ↓reduceIte]
          have hnm : l ∉ stk' := fun hm => hc (List.contains_iff_mem.mpr hm)
          by_cases e1 : t' = t <;> by_cases e2 : l' = l
          · subst e1; subst e2; simp [hnm]
          · subst e1
            simp only [upd_same, upd_other _ _ _ _ e2]
            rw [← h.own t' l', hstk]; simp [e2]
          · subst e2
            simp only [upd_same, upd_other _ _ _ _ e1]
            constructor
            · intro hm; have := (h.own t' l').mp hm; rw [hl] at this; cases this; exact absurd rfl e1
            · intro hh; cases hh
          · simp only [upd_other _ _ _ _ e1, upd_other _ _ _ _ e2]; exact h.own t' l'
    | rd v =>
      simp only [step, hrem, Option.some.injEq] at hs
      subst hs
      exact ⟨fun t' => by
        show lockDisc reent rank (s.stk t') (upd s.rem t r t') = true
        by_cases e : t' = t
        · subst e; simpa [lockDisc] using hd
        · simp only [upd_other _ _ _ _ e]; exact h.disc t', h.own⟩
    | wr v =>
      simp only [step, hrem, Option.some.injEq] at hs
      subst hs
      exact ⟨fun t' => by
        show lockDisc reent rank (s.stk t') (upd s.rem t r t') = true
        by_cases e : t' = t
        · subst e; simpa [lockDisc] using hd
        · simp only [upd_other _ _ _ _ e]; exact h.disc t', h.own⟩
    | call f =>
      simp only [step, hrem, Option.some.injEq] at hs
      subst hs
      exact ⟨fun t' => by
        show lockDisc reent rank (s.stk t') (upd s.rem t r t') = true
        by_cases e : t' = t
        · subst e; simpa [lockDisc] using hd
        · simp only [upd_other _ _ _ _ e]; exact h.disc t', h.own⟩

theorem run_inv {reent : LockId → Bool} {rank : LockId → Nat} (sched : List Nat) {s : State}
    (h : Inv reent rank s) : Inv reent rank (run sched s) := by
  induction sched generalizing s with
  | nil => exact h
  | cons t r ih =>
    simp only [run, List.foldl_cons]
    cases hs : step t s with
    | none => simpa [run] using ih h
    | some s' => simpa [run] using ih (step_inv h hs)

/-- a thread blocked on a lock of rank `rank l` leads (through the owner) to an enabled thread -/
theorem blocked_chain {reent : LockId → Bool} {rank : LockId → Nat} {B : Nat} (hB : ∀ l, rank l ≤ B)
    {s : State} (h : Inv reent rank s) :
    ∀ n t l r o, s.rem t = .acq l :: r → s.held l = some o → o ≠ t → B - rank l ≤ n → ∃ t', enabled s t' = true := by
  intro n
  induction n with
  | zero =>
    intro t l r o hrem hh hne hn
    -- the owner o holds l and is unfinished
    have hmem : l ∈ s.stk o := (h.own o l).mpr hh
    have hdo := h.disc o
    cases hro : s.rem o with
    | nil =>
      rw [hro] at hdo
      cases hso : s.stk o with
      | nil => rw [hso] at hmem; cases hmem
      | cons a b => rw [hso] at hdo; simp [lockDisc] at hdo
    | cons a ro =>
      cases a with
      | acq l2 =>
        cases hh2 : s.held l2 with
        | none => exact ⟨o, by simp [enabled, hro, hh2]⟩
        | some o2 =>
          by_cases e : o2 = o
          · exact ⟨o, by simp [enabled, hro, hh2, e]⟩
          · exfalso
            rw [hro] at hdo
            obtain ⟨_, hrk, _⟩ := disc_acq hdo
            have hnm : l2 ∉ s.stk o := by
              intro hm; have := (h.own o l2).mp hm; rw [hh2] at this; cases this; exact e rfl
            have := hrk hnm l hmem
            have := hB l2
            omega
      | rel l2 => exact ⟨o, by simp [enabled, hro]⟩
      | rd v => exact ⟨o, by simp [enabled, hro]⟩
      | wr v => exact ⟨o, by simp [enabled, hro]⟩
      | call f => exact ⟨o, by simp [enabled, hro]⟩
  | succ n ih =>
    intro t l r o hrem hh hne hn
    have hmem : l ∈ s.stk o := (h.own o l).mpr hh
    have hdo := h.disc o
    cases hro : s.rem o with
    | nil =>
      rw [hro] at hdo
      cases hso : s.stk o with
      | nil => rw [hso] at hmem; cases hmem
      | cons a b => rw [hso] at hdo; simp [lockDisc] at hdo
    | cons a ro =>
      cases a with
      | acq l2 =>
        cases hh2 : s.held l2 with
        | none => exact ⟨o, by simp [enabled, hro, hh2]⟩
        | some o2 =>
          by_cases e : o2 = o
          · exact ⟨o, by simp [enabled, hro, hh2, e]⟩
          · rw [hro] at hdo
            obtain ⟨_, hrk, _⟩ := disc_acq hdo
            have hnm : l2 ∉ s.stk o := by
              intro hm; have := (h.own o l2).mp hm; rw [hh2] at this; cases this; exact e rfl
            have h1 := hrk hnm l hmem
            have h2 := hB l2
            exact ih o l2 ro o2 hro hh2 e (by omega)
      | rel l2 => exact ⟨o, by simp [enabled, hro]⟩
      | rd v => exact ⟨o, by simp [enabled, hro]⟩
      | wr v => exact ⟨o, by simp [enabled, hro]⟩
      | call f => exact ⟨o, by simp [enabled, hro]⟩

theorem no_deadlock {reent : LockId → Bool} {rank : LockId → Nat} {B : Nat} (hB : ∀ l, rank l ≤ B)
    {s : State} (h : Inv reent rank s) (t : Nat) (ht : s.rem t ≠ []) : ∃ t', enabled s t' = true := by
  cases hr : s.rem t with
  | nil => exact absurd hr ht
  | cons a r =>
    cases a with
    | acq l =>
      cases hh : s.held l with
      | none => exact ⟨t, by simp [enabled, hr, hh]⟩
      | some o =>
        by_cases e : o = t
        · exact ⟨t, by simp [enabled, hr, hh, e]⟩
        · exact blocked_chain hB h (B - rank l) t l r o hr hh e (Nat.le_refl _)
    | rel l => exact ⟨t, by simp [enabled, hr]⟩
    | rd v => exact ⟨t, by simp [enabled, hr]⟩
    | wr v => exact ⟨t, by simp [enabled, hr]⟩
    | call f => exact ⟨t, by simp [enabled, hr]⟩

/-- `enabled` is exactly "can step" -/
theorem enabled_iff_step {s : State} {t : Nat} : enabled s t = true ↔ (step t s).isSome = true := by
  unfold enabled step
  cases hr : s.rem t with
  | nil => simp
  | cons a r =>
    cases a with
    | acq l =>
      cases hh : s.held l with
      | none => simp [hh]
      | some o => by_cases e : o = t <;> simp [hh, e]
    | rel l => simp
    | rd v => simp
    | wr v => simp
    | call f => simp

end LK
end BearVerif.Conc
