import BearVerif.Core.BearExpr
import BearVerif.Lemmas.Bear
/-!
  Compiler correctness L1 → L2: evaluating the generated expression yields exactly the
  sampled check `chk`, never raises on well-formed objects, and respects the variable
  discipline (a node only writes variables above the ones its context still needs).
-/
namespace BearVerif.Bear

variable (W : World) (conf : Conf) (r : Nat)

/-! ### objects -/

theorem wf_mk {W : World} {c a items vals attrs} (h : (Obj.mk c a items vals attrs).wf W = true) :
    (W.mapping c = true → vals.length = items.length) ∧
    (W.sub c cType = true → ∃ d, a = .klass d) ∧ wfList W items = true ∧ wfList W vals = true ∧ wfAttrs W attrs = true := by
  simp only [Obj.wf, Bool.and_eq_true, Bool.or_eq_true, Bool.not_eq_true', beq_iff_eq] at h
  obtain ⟨⟨⟨⟨h1, h2⟩, h3⟩, h4⟩, h5⟩ := h
  refine ⟨?_, ?_, h3, h4, h5⟩
  · intro hm; rcases h1 with h1 | h1
    · rw [hm] at h1; cases h1
    · exact h1
  · intro hs; rcases h2 with h2 | h2
    · rw [hs] at h2; cases h2
    · cases a <;> simp_all

theorem Obj.wf_items {W : World} {x : Obj} (h : x.wf W = true) : wfList W x.items = true := by
  cases x; exact (wf_mk h).2.2.1
theorem Obj.wf_vals {W : World} {x : Obj} (h : x.wf W = true) : wfList W x.vals = true := by
  cases x; exact (wf_mk h).2.2.2.1
theorem Obj.wf_attrs {W : World} {x : Obj} (h : x.wf W = true) : wfAttrs W x.attrs = true := by
  cases x; exact (wf_mk h).2.2.2.2
theorem Obj.wf_map {W : World} {x : Obj} (h : x.wf W = true) (hm : W.mapping x.cls = true) :
    x.vals.length = x.items.length := by
  cases x; exact (wf_mk h).1 hm
theorem Obj.wf_klass {W : World} {x : Obj} (h : x.wf W = true) (hs : W.sub x.cls cType = true) :
    ∃ d, x.atom = .klass d := by
  cases x; exact (wf_mk h).2.1 hs

theorem wfList_mem {W : World} {ys : List Obj} (h : wfList W ys = true) : ∀ y ∈ ys, y.wf W = true := by
  induction ys with
  | nil => intro y hy; cases hy
  | cons a ys ih =>
    simp only [wfList, Bool.and_eq_true] at h
    intro y hy
    cases hy with
    | head => exact h.1
    | tail _ h' => exact ih h.2 y h'

theorem wfAttrs_find {W : World} {ps : List (String × Obj)} (h : wfAttrs W ps = true) (n : String) (y : Obj)
    (hy : (ps.find? (fun p => p.1 == n)).map (·.2) = some y) : y.wf W = true := by
  induction ps with
  | nil => simp at hy
  | cons a ps ih =>
    obtain ⟨m, z⟩ := a
    simp only [wfAttrs, Bool.and_eq_true] at h
    simp only [List.find?_cons] at hy
    split at hy
    · simp at hy; subst hy; exact h.1
    · exact ih h.2 hy

theorem Obj.wf_attr {W : World} {x y : Obj} (h : x.wf W = true) (n : String) (hy : x.attr? n = some y) : y.wf W = true :=
  wfAttrs_find (Obj.wf_attrs h) n y hy

/-! ### environments -/

@[simp] theorem Env.set_same (env : Env) (v : Var) (o : Obj) : (env.set v o) v = some o := by simp [Env.set]
theorem Env.set_other (env : Env) (v u : Var) (o : Obj) (h : u ≠ v) : (env.set v o) u = env u := by simp [Env.set, h]

theorem pv_ne {j k : Nat} (h : j ≠ k) : pv j ≠ pv k := by
  intro hh; exact h (by simpa [pv] using hh)

/-! ### validators -/

/-- `u` is a temporary strictly below `t` (`t_isattr_…`) -/
def Below (t u : Var) : Prop := u.1 = t.1 ∧ ∃ s, s ≠ [] ∧ u.2 = t.2 ++ s

theorem below_attr (t : Var) (n : String) : Below t (t.attr n) := ⟨rfl, [n], by simp, rfl⟩

theorem below_trans_attr {t u : Var} {n : String} (h : Below (t.attr n) u) : Below t u := by
  obtain ⟨h1, s, hs, h2⟩ := h
  exact ⟨h1, [n] ++ s, by simp, by simpa [Var.attr, List.append_assoc] using h2⟩

theorem not_below_self (t : Var) : ¬ Below t t := by
  rintro ⟨_, s, hs, h⟩
  have : t.2.length = (t.2 ++ s).length := congrArg List.length h
  simp at this
  exact hs this

theorem not_below_pv (t : Var) (j : Nat) : ¬ Below t (pv j) := by
  rintro ⟨_, s, hs, h⟩
  simp [pv] at h
  exact hs h.2

/-- the inline code of a validator computes its boolean meaning, never raises, and
    writes only temporaries strictly below the variable it was given -/
theorem vale_code_ok : ∀ (v : Vale) (t : Var) (env : Env) (x : Obj), x.wf W = true → env t = some x →
    ∃ env' n, eval W r env (v.code t) = some (.bool (v.holds W x), env', n) ∧ ∀ u, ¬ Below t u → env' u = env u
  | .isFn f, t, env, x, _, ht => ⟨env, 0, by simp [Vale.code, eval, ht, Vale.holds], fun _ _ => rfl⟩
  | .isEqual a, t, env, x, _, ht => ⟨env, 0, by simp [Vale.code, eval, ht, Vale.holds], fun _ _ => rfl⟩
  | .isInstance cs, t, env, x, _, ht => ⟨env, 0, by simp [Vale.code, eval, ht, Vale.holds], fun _ _ => rfl⟩
  | .isSubclass cs, t, env, x, hw, ht => by
    refine ⟨env, 0, ?_, fun _ _ => rfl⟩
    by_cases hs : W.sub x.cls cType = true
    · obtain ⟨d, hd⟩ := Obj.wf_klass hw hs
      simp [Vale.code, eval, ht, Vale.holds, hs, hd]
    · have hs' : W.sub x.cls cType = false := by simpa using hs
      cases ha : x.atom <;> simp [Vale.code, eval, ht, Vale.holds, hs', ha]
  | .isAttr a v, t, env, x, hw, ht => by
    cases hy : x.attr? a with
    | none => exact ⟨env, 0, by simp [Vale.code, eval, ht, Vale.holds, hy], fun _ _ => rfl⟩
    | some y =>
      have hwy := Obj.wf_attr hw a hy
      obtain ⟨env', n, he, hf⟩ := vale_code_ok v (t.attr a) (env.set (t.attr a) y) y hwy (by simp)
      refine ⟨env', 0 + n, by simp [Vale.code, eval, ht, Vale.holds, hy, he], ?_⟩
      intro u hu
      rw [hf u (fun hb => hu (below_trans_attr hb))]
      exact Env.set_other _ _ _ _ (fun h => hu (h ▸ below_attr t a))
  | .and v w, t, env, x, hw, ht => by
    obtain ⟨env₁, n₁, he₁, hf₁⟩ := vale_code_ok v t env x hw ht
    cases hv : v.holds W x with
    | false => exact ⟨env₁, n₁, by simp [Vale.code, eval, he₁, hv, Vale.holds], hf₁⟩
    | true =>
      obtain ⟨env₂, n₂, he₂, hf₂⟩ := vale_code_ok w t env₁ x hw (by rw [hf₁ t (not_below_self t)]; exact ht)
      exact ⟨env₂, n₁ + n₂, by simp [Vale.code, eval, he₁, hv, he₂, Vale.holds], fun u hu => by rw [hf₂ u hu, hf₁ u hu]⟩
  | .or v w, t, env, x, hw, ht => by
    obtain ⟨env₁, n₁, he₁, hf₁⟩ := vale_code_ok v t env x hw ht
    cases hv : v.holds W x with
    | true => exact ⟨env₁, n₁, by simp [Vale.code, eval, he₁, hv, Vale.holds], hf₁⟩
    | false =>
      obtain ⟨env₂, n₂, he₂, hf₂⟩ := vale_code_ok w t env₁ x hw (by rw [hf₁ t (not_below_self t)]; exact ht)
      exact ⟨env₂, n₁ + n₂, by simp [Vale.code, eval, he₁, hv, he₂, Vale.holds], fun u hu => by rw [hf₂ u hu, hf₁ u hu]⟩
  | .not v, t, env, x, hw, ht => by
    obtain ⟨env₁, n₁, he₁, hf₁⟩ := vale_code_ok v t env x hw ht
    exact ⟨env₁, n₁, by simp [Vale.code, eval, he₁, Vale.holds], hf₁⟩

end BearVerif.Bear

namespace BearVerif.Bear

variable (W : World) (conf : Conf) (r : Nat)

theorem vales_code_ok : ∀ (vs : List Vale) (t : Var) (env : Env) (x : Obj), vs ≠ [] → x.wf W = true → env t = some x →
    ∃ env' n, eval W r env (valesCode vs t) = some (.bool (vs.all (fun v => v.holds W x)), env', n) ∧
      ∀ u, ¬ Below t u → env' u = env u
  | [], _, _, _, h, _, _ => absurd rfl h
  | [v], t, env, x, _, hw, ht => by
    obtain ⟨env', n, he, hf⟩ := vale_code_ok W r v t env x hw ht
    exact ⟨env', n, by simp [valesCode, he], hf⟩
  | v :: w :: vs, t, env, x, _, hw, ht => by
    obtain ⟨env₁, n₁, he₁, hf₁⟩ := vale_code_ok W r v t env x hw ht
    cases hv : v.holds W x with
    | false => exact ⟨env₁, n₁, by simp [valesCode, eval, he₁, hv], hf₁⟩
    | true =>
      obtain ⟨env₂, n₂, he₂, hf₂⟩ := vales_code_ok (w :: vs) t env₁ x (by simp) hw
        (by rw [hf₁ t (not_below_self t)]; exact ht)
      refine ⟨env₂, n₁ + n₂, ?_, fun u hu => by rw [hf₂ u hu, hf₁ u hu]⟩
      simp only [valesCode, eval, he₁, hv, he₂]
      simp [hv]

/-! ### pith expressions -/

/-- variables with index below this are still needed by the context and must survive -/
def Pith.keep (p : Pith) (k : Nat) : Nat :=
  match p with
  | .assign _ => k
  | _ => k + 1

def Pith.binds : Pith → Bool
  | .complex _ => false
  | _ => true

/-- the pith expression denotes object `x`: a variable holding it, or a pure read
    that yields it in every environment agreeing on the variables still needed -/
def PithOK (env : Env) (p : Pith) (k : Nat) (x : Obj) : Prop :=
  match p with
  | .var => env (pv k) = some x
  | .complex e => ∀ env' : Env, (∀ j, j < k + 1 → env' (pv j) = env (pv j)) →
      ∃ n, eval W r env' e = some (.obj x, env', n)
  | .assign e => ∀ env' : Env, (∀ j, j < k → env' (pv j) = env (pv j)) →
      ∃ n, eval W r env' e = some (.obj x, env', n)

theorem idx_le (p : Pith) (k : Nat) : p.keep k ≤ p.idx k + 1 := by
  cases p <;> simp [Pith.keep, Pith.idx]

theorem k_le_idx (p : Pith) (k : Nat) : k ≤ p.idx k := by
  cases p <;> simp [Pith.idx]

/-- evaluating `pith_curr_assign_expr` yields the object, leaves it in variable `p.idx k` -/
theorem asg_ok {env : Env} {p : Pith} {k : Nat} {x : Obj} (hp : PithOK W r env p k x) :
    ∃ env₁ n, eval W r env (p.asg k) = some (.obj x, env₁, n) ∧ env₁ (pv (p.idx k)) = some x ∧
      (∀ j, j < p.keep k → env₁ (pv j) = env (pv j)) := by
  cases p with
  | var => exact ⟨env, 0, by simp [Pith.asg, eval, show env (pv k) = some x from hp], hp, fun _ _ => rfl⟩
  | complex e =>
    obtain ⟨n, he⟩ := hp env (fun _ _ => rfl)
    refine ⟨env.set (pv (k + 1)) x, n, by simp [Pith.asg, eval, he], by simp [Pith.idx], ?_⟩
    intro j hj
    exact Env.set_other _ _ _ _ (pv_ne (by simp [Pith.keep] at hj; omega))
  | assign e =>
    obtain ⟨n, he⟩ := hp env (fun _ _ => rfl)
    refine ⟨env.set (pv k) x, n, by simp [Pith.asg, eval, he], by simp [Pith.idx], ?_⟩
    intro j hj
    exact Env.set_other _ _ _ _ (pv_ne (by simp [Pith.keep] at hj; omega))

/-- evaluating the raw pith expression -/
theorem raw_ok {env : Env} {p : Pith} {k : Nat} {x : Obj} (hp : PithOK W r env p k x) :
    ∃ env₁ n, eval W r env (p.raw k) = some (.obj x, env₁, n) ∧
      (∀ j, j < p.keep k → env₁ (pv j) = env (pv j)) ∧ (p.binds = true → env₁ (pv k) = some x) := by
  cases p with
  | var => exact ⟨env, 0, by simp [Pith.raw, eval, show env (pv k) = some x from hp], fun _ _ => rfl, fun _ => hp⟩
  | complex e =>
    obtain ⟨n, he⟩ := hp env (fun _ _ => rfl)
    exact ⟨env, n, by simpa [Pith.raw] using he, fun _ _ => rfl, by simp [Pith.binds]⟩
  | assign e =>
    obtain ⟨n, he⟩ := hp env (fun _ _ => rfl)
    refine ⟨env.set (pv k) x, n, by simp [Pith.raw, eval, he], ?_, fun _ => by simp⟩
    intro j hj
    exact Env.set_other _ _ _ _ (pv_ne (by simp [Pith.keep] at hj; omega))

/-- handing the assignment down to a child -/
theorem down_ok {env : Env} {p : Pith} {k : Nat} {x : Obj} (hp : PithOK W r env p k x) :
    PithOK W r env p.down (p.idx k) x ∧ p.down.keep (p.idx k) = p.keep k ∧ p.down.binds = true ∧
      p.down.idx (p.idx k) = p.idx k := by
  cases p with
  | var => exact ⟨hp, rfl, rfl, rfl⟩
  | complex e => exact ⟨fun env' h => hp env' h, rfl, rfl, rfl⟩
  | assign e => exact ⟨fun env' h => hp env' h, rfl, rfl, rfl⟩

/-- a variable holding the object is a pith -/
theorem var_ok {env : Env} {k : Nat} {x : Obj} (h : env (pv k) = some x) : PithOK W r env .var k x := h

/-- a pure read of variable `k'` is a pith for children inheriting index `k'` -/
theorem read_ok {env : Env} {k : Nat} {e : Expr} {y : Obj}
    (h : ∀ env' : Env, env' (pv k) = env (pv k) → ∃ n, eval W r env' e = some (.obj y, env', n)) :
    PithOK W r env (.complex e) k y :=
  fun env' hag => h env' (hag k (by omega))

end BearVerif.Bear

namespace BearVerif.Bear

variable (W : World) (conf : Conf) (r : Nat)

/-! ### n-ary and / or -/

/-- left-to-right conjunction of boolean expressions with short-circuit -/
def evalAnd (env : Env) : List Expr → Option (Bool × Env × Nat)
  | [] => some (true, env, 0)
  | e :: es => match eval W r env e with
    | some (.bool true, env', n) => (match evalAnd env' es with
        | some (b, env'', m) => some (b, env'', n + m)
        | none => none)
    | some (.bool false, env', n) => some (false, env', n)
    | _ => none

def evalOr (env : Env) : List Expr → Option (Bool × Env × Nat)
  | [] => some (false, env, 0)
  | e :: es => match eval W r env e with
    | some (.bool false, env', n) => (match evalOr env' es with
        | some (b, env'', m) => some (b, env'', n + m)
        | none => none)
    | some (.bool true, env', n) => some (true, env', n)
    | _ => none

theorem eval_andList : ∀ (es : List Expr) (env : Env) (b : Bool) (env' : Env) (n : Nat), es ≠ [] →
    evalAnd W r env es = some (b, env', n) → eval W r env (andList es) = some (.bool b, env', n)
  | [], _, _, _, _, h, _ => absurd rfl h
  | [e], env, b, env', n, _, h => by
    simp only [evalAnd] at h
    simp only [andList]
    cases he : eval W r env e with
    | none => simp [he] at h
    | some res =>
      obtain ⟨v, env₁, n₁⟩ := res
      cases v with
      | obj o => simp [he] at h
      | nat k => simp [he] at h
      | bool bb => cases bb <;> simp [he] at h <;> obtain ⟨h1, h2, h3⟩ := h <;> subst h1 h2 h3 <;> rfl
  | e :: e2 :: es, env, b, env', n, _, h => by
    rw [evalAnd] at h
    simp only [andList, eval]
    cases he : eval W r env e with
    | none => simp [he] at h
    | some res =>
      obtain ⟨v, env₁, n₁⟩ := res
      cases v with
      | obj o => simp [he] at h
      | nat k => simp [he] at h
      | bool bb =>
        cases bb with
        | false => simp [he] at h; obtain ⟨h1, h2, h3⟩ := h; subst h1 h2 h3; rfl
        | true =>
          simp only [he] at h
          cases hr : evalAnd W r env₁ (e2 :: es) with
          | none => rw [hr] at h; simp at h
          | some res2 =>
            obtain ⟨b2, env₂, n₂⟩ := res2
            have := eval_andList (e2 :: es) env₁ b2 env₂ n₂ (by simp) hr
            rw [hr] at h
            simp at h
            obtain ⟨h1, h2, h3⟩ := h
            subst h1 h2 h3
            simp [this]

theorem eval_orList : ∀ (es : List Expr) (env : Env) (b : Bool) (env' : Env) (n : Nat), es ≠ [] →
    evalOr W r env es = some (b, env', n) → eval W r env (orList es) = some (.bool b, env', n)
  | [], _, _, _, _, h, _ => absurd rfl h
  | [e], env, b, env', n, _, h => by
    simp only [evalOr] at h
    simp only [orList]
    cases he : eval W r env e with
    | none => simp [he] at h
    | some res =>
      obtain ⟨v, env₁, n₁⟩ := res
      cases v with
      | obj o => simp [he] at h
      | nat k => simp [he] at h
      | bool bb => cases bb <;> simp [he] at h <;> obtain ⟨h1, h2, h3⟩ := h <;> subst h1 h2 h3 <;> rfl
  | e :: e2 :: es, env, b, env', n, _, h => by
    rw [evalOr] at h
    simp only [orList, eval]
    cases he : eval W r env e with
    | none => simp [he] at h
    | some res =>
      obtain ⟨v, env₁, n₁⟩ := res
      cases v with
      | obj o => simp [he] at h
      | nat k => simp [he] at h
      | bool bb =>
        cases bb with
        | true => simp [he] at h; obtain ⟨h1, h2, h3⟩ := h; subst h1 h2 h3; rfl
        | false =>
          simp only [he] at h
          cases hr : evalOr W r env₁ (e2 :: es) with
          | none => rw [hr] at h; simp at h
          | some res2 =>
            obtain ⟨b2, env₂, n₂⟩ := res2
            have := eval_orList (e2 :: es) env₁ b2 env₂ n₂ (by simp) hr
            rw [hr] at h
            simp at h
            obtain ⟨h1, h2, h3⟩ := h
            subst h1 h2 h3
            simp [this]

end BearVerif.Bear
