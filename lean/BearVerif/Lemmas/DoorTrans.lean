import BearVerif.Lemmas.Door
/-!
  Transitivity of `is_subhint` on regular hints (C19_trans), for every fuel.
  Plan: (1) `ign` is upward closed along `≤`; (2) `under o` ("every admitted value is an instance
  of class o") is downward closed; (3) a hint under the origin of an args-ignorable branch is a
  subhint of it; (4) a regular atomic hint is below a union exactly through one of its branches;
  (5) case analysis on atomic triples; (6) unions, by induction on the total fuel.
-/
namespace BearVerif.Door
open BearVerif.Bear DHint

variable (D : DWorld)

/-! ### regular hints -/

theorem regAll_mem : ∀ {hs : List DHint}, RegAll D hs → ∀ h ∈ hs, h.Reg D
  | [], _, h, hm => by cases hm
  | a :: as, hs, h, hm => by
    simp only [RegAll] at hs
    rcases List.mem_cons.mp hm with e | e
    · subst e; exact hs.1
    · exact regAll_mem hs.2 h e

theorem reg_not_any {a : DHint} (h : a.Reg D) : a.isAny = false := by
  cases a <;> simp_all [isAny, DHint.Reg]

theorem branches_atomic {a : DHint} (h : a.isUnionLike = false) : branches a = [a] := by
  cases a <;> simp_all [branches, isUnionLike]

/-- branches of a regular hint are regular and atomic -/
theorem reg_branch {b bj : DHint} (hb : b.Reg D) (hm : bj ∈ branches b) : bj.Reg D ∧ bj.isUnionLike = false := by
  cases b with
  | union hs =>
    simp only [DHint.Reg] at hb
    simp only [branches] at hm
    exact ⟨regAll_mem D hb.2.1 _ hm, by simpa using (List.all_eq_true.mp hb.2.2) _ hm⟩
  | typevar hs =>
    simp only [DHint.Reg] at hb
    simp only [branches] at hm
    exact ⟨regAll_mem D hb.2.1 _ hm, by simpa using (List.all_eq_true.mp hb.2.2.1) _ hm⟩
  | _ => simp only [branches, List.mem_singleton] at hm; subst hm; exact ⟨hb, rfl⟩

theorem ignSAny_mem : ∀ {hs : List DHint} {h : DHint}, h ∈ hs → ignS D h = true → ignSAny D hs = true
  | a :: as, h, hm, hi => by
    simp only [ignSAny, Bool.or_eq_true]
    rcases List.mem_cons.mp hm with e | e
    · subst e; exact Or.inl hi
    · exact Or.inr (ignSAny_mem e hi)

theorem ignAll_mem : ∀ {hs : List DHint}, ignAll D hs = true → ∀ h ∈ hs, ign D h = true
  | [], _, h, hm => by cases hm
  | a :: as, hi, h, hm => by
    simp only [ignAll, Bool.and_eq_true] at hi
    rcases List.mem_cons.mp hm with e | e
    · subst e; exact hi.1
    · exact ignAll_mem hi.2 h e

theorem ignSAny_exists : ∀ {hs : List DHint}, ignSAny D hs = true → ∃ h ∈ hs, ignS D h = true
  | [], hi => by simp [ignSAny] at hi
  | a :: as, hi => by
    simp only [ignSAny, Bool.or_eq_true] at hi
    rcases hi with hi | hi
    · exact ⟨a, by simp, hi⟩
    · obtain ⟨h, hm, hh⟩ := ignSAny_exists hi
      exact ⟨h, by simp [hm], hh⟩

/-- for every wrapper but a TypeVar's, `is_ignorable` is the checker's notion -/
theorem ign_atomic {h : DHint} (hu : h.isUnionLike = false) : ign D h = ignS D h := by
  cases h <;> simp_all [ign, isUnionLike]

/-- on regular hints the two notions of ignorability coincide (a regular TypeVar's constraints are all or none ignorable) -/
theorem reg_ign_eq {h : DHint} (hr : h.Reg D) : ign D h = ignS D h := by
  cases h with
  | typevar hs =>
    simp only [DHint.Reg] at hr
    obtain ⟨hne, _, hflat, htv⟩ := hr
    simp only [ign, ignS]
    cases hS : ignSAny D hs with
    | true => exact htv hS
    | false =>
      cases hA : ignAll D hs with
      | false => rfl
      | true =>
        obtain ⟨a, ha⟩ := List.exists_mem_of_ne_nil hs hne
        have h1 := ignAll_mem D hA a ha
        rw [ign_atomic D (by simpa using (List.all_eq_true.mp hflat) a ha)] at h1
        rw [ignSAny_mem D ha h1] at hS; cases hS
  | _ => simp [ign]

/-- an ignorable branch makes a regular hint ignorable -/
theorem ign_of_branch {b bj : DHint} (hb : b.Reg D) (hm : bj ∈ branches b) (hi : ign D bj = true) : ign D b = true := by
  have hbj := reg_branch D hb hm
  rw [ign_atomic D hbj.2] at hi
  cases b with
  | union hs => simp only [branches] at hm; simp only [ign, ignS]; exact ignSAny_mem D hm hi
  | typevar hs =>
    simp only [branches] at hm; simp only [ign]
    simp only [DHint.Reg] at hb
    exact hb.2.2.2 (ignSAny_mem D hm hi)
  | _ =>
    simp only [branches, List.mem_singleton] at hm; subst hm
    rw [ign_atomic D hbj.2]; exact hi

/-- the class is `object` or fabricated for a NewType of `object` -/
def objish (c : Nat) : Prop := c = cObject ∨ D.ntParent c = some cObject

theorem objish_up (hD : D.Wf) {c d : Nat} (hc : objish D c) (hs : D.W.sub c d = true) : objish D d := by
  rcases hc with e | e
  · subst e; exact Or.inl (hD.obj_only d hs)
  · have := hD.nt_sub c cObject e d
    rw [hs] at this
    have : (d == c) = true ∨ D.W.sub cObject d = true := by simpa using this.symm
    rcases this with h | h
    · have : d = c := by simpa using h
      subst this; exact Or.inr e
    · exact Or.inl (hD.obj_only d h)

theorem cTuple_not_objish (hD : D.Wf) : ¬ objish D cTuple := by
  rintro (e | e)
  · simp [cTuple, cObject] at e
  · rw [hD.nt_tuple] at e; cases e

/-- an args-ignorable regular atomic branch whose origin is `object`-like is an ignorable class -/
theorem ign_of_objish_origin (hD : D.Wf) {bj : DHint} (hr : bj.Reg D) (hu : bj.isUnionLike = false)
    (ha : argsIgn D bj = true) (ho : objish D (origin bj)) : ign D bj = true := by
  cases bj with
  | cls c =>
    simp only [origin] at ho
    simp only [ign, ignS, Bool.or_eq_true, beq_iff_eq]
    exact ho
  | cont k o h =>
    simp only [DHint.Reg] at hr
    simp only [origin] at ho
    rcases ho with e | e
    · exact absurd e hr.2.1
    · rw [hr.2.2] at e; cases e
  | mapping o k v =>
    simp only [DHint.Reg] at hr
    simp only [origin] at ho
    rcases ho with e | e
    · exact absurd e hr.2.2.1
    · rw [hr.2.2.2] at e; cases e
  | tupleVar h => exact absurd ho (cTuple_not_objish D hD)
  | tupleFixed _ => simp [argsIgn] at ha
  | literal _ => simp [argsIgn] at ha
  | annotated _ _ => simp [argsIgn] at ha
  | union _ => simp [isUnionLike] at hu
  | typevar _ => simp [isUnionLike] at hu
  | any => simp [DHint.Reg] at hr
  | callable _ _ _ _ => simp [DHint.Reg] at hr

/-! ### (1) ignorability is upward closed -/

def IgnRel (le : DHint → DHint → R) : Prop :=
  ∀ h h', h.Reg D → h'.Reg D → le h h' = .ok true → ign D h = true → ign D h' = true

theorem subBody_ign (hD : D.Wf) (le eq : DHint → DHint → R) (hle : IgnRel D le) : IgnRel D (subBody D le eq) := by
  intro h h' hr hr' hl hi
  -- a union-like left side: one ignorable member, compared with a branch or the whole right side
  have unionCase : ∀ as, (∃ ai ∈ as, ai.Reg D ∧ ign D ai = true) →
      allE as (fun ai => if h'.isUnionLike then anyE (branches h') (fun bj => le ai bj) else le ai h') = .ok true →
      ign D h' = true := by
    intro as ⟨ai, hm, hra, hia⟩ hall
    have := allE_true.mp hall ai hm
    split at this
    · obtain ⟨bj, hmb, hf⟩ := anyE_true this
      exact ign_of_branch D hr' hmb (hle ai bj hra (reg_branch D hr' hmb).1 hf hia)
    · exact hle ai h' hra hr' this hia
  cases h with
  | any => simp [DHint.Reg] at hr
  | literal _ => simp [ign, ignS] at hi
  | tupleFixed _ => simp [ign, ignS] at hi
  | tupleVar _ => simp [ign, ignS] at hi
  | cont _ _ _ => simp [ign, ignS] at hi
  | mapping _ _ _ => simp [ign, ignS] at hi
  | callable _ _ _ _ => simp [ign, ignS] at hi
  | union as =>
    simp only [DHint.Reg] at hr
    simp only [ign, ignS] at hi
    obtain ⟨ai, hm, hia⟩ := ignSAny_exists D hi
    have hat : ai.isUnionLike = false := by simpa using (List.all_eq_true.mp hr.2.2) ai hm
    exact unionCase as ⟨ai, hm, regAll_mem D hr.2.1 ai hm, by rw [ign_atomic D hat]; exact hia⟩ (by simpa [subBody] using hl)
  | typevar as =>
    simp only [DHint.Reg] at hr
    simp only [ign] at hi
    obtain ⟨ai, hm⟩ := List.exists_mem_of_ne_nil as hr.1
    exact unionCase as ⟨ai, hm, regAll_mem D hr.2.1 ai hm, ignAll_mem D hi ai hm⟩ (by simpa [subBody] using hl)
  | cls c =>
    simp only [subBody, baseSub] at hl
    obtain ⟨bj, hmb, hf⟩ := anyE_true hl
    have hrb := reg_branch D hr' hmb
    simp only [reg_not_any D hrb.1, Bool.false_eq_true, ↓reduceIte, brLe, Except.ok.injEq, Bool.and_eq_true] at hf
    have hc : objish D c := by simpa [ign, ignS, objish] using hi
    exact ign_of_branch D hr' hmb (ign_of_objish_origin D hD hrb.1 hrb.2 hf.1 (objish_up D hD hc hf.2))
  | annotated h0 md =>
    simp only [DHint.Reg] at hr
    have hi0 : ign D h0 = true := by rw [reg_ign_eq D hr]; simpa [ign, ignS] using hi
    simp only [subBody, baseSub] at hl
    obtain ⟨bj, hmb, hf⟩ := anyE_true hl
    have hrb := reg_branch D hr' hmb
    simp only [reg_not_any D hrb.1, Bool.false_eq_true, ↓reduceIte] at hf
    refine ign_of_branch D hr' hmb ?_
    cases bj with
    | annotated h1 md' =>
      simp only [brLe, guardE] at hf
      have : le h0 h1 = .ok true := by
        cases hl' : le h0 h1 with
        | error e => rw [hl'] at hf; cases hf
        | ok b => cases b with
          | true => rfl
          | false => rw [hl'] at hf; cases hf
      simp only [DHint.Reg] at hrb
      have h1i := hle h0 h1 hr hrb.1 this hi0
      rw [reg_ign_eq D hrb.1] at h1i
      simpa [ign, ignS] using h1i
    | _ => simp only [brLe] at hf; exact hle h0 _ hr hrb.1 hf hi0

theorem leF_ign (hD : D.Wf) : ∀ n, IgnRel D (leF D n)
  | 0 => by intro h h' _ _ hl; simp [leF] at hl
  | n + 1 => by
    intro h h' hr hr' hl hi
    simp only [leF, reg_not_any D hr, reg_not_any D hr', Bool.or_self, Bool.false_eq_true, ↓reduceIte] at hl
    exact subBody_ign D hD _ _ (leF_ign hD n) h h' hr hr' hl hi

/-! ### (2) `under o`: every value the hint admits is an instance of class `o` -/

mutual
def under (o : Nat) : DHint → Bool
  | .any => false
  | .cls c => D.W.sub c o
  | .cont _ c _ => D.W.sub c o
  | .mapping c _ _ => D.W.sub c o
  | .callable c _ _ _ => D.W.sub c o
  | .tupleFixed _ => D.W.sub cTuple o
  | .tupleVar _ => D.W.sub cTuple o
  | .literal ms => ms.all (fun m => D.W.sub m.1 o)
  | .annotated h _ => under o h
  | .union hs => underAll o hs
  | .typevar hs => underAll o hs
def underAll (o : Nat) : List DHint → Bool
  | [] => true
  | h :: hs => under o h && underAll o hs
end

theorem underAll_mem {o : Nat} : ∀ {hs : List DHint}, underAll D o hs = true → ∀ h ∈ hs, under D o h = true
  | [], _, h, hm => by cases hm
  | a :: as, hu, h, hm => by
    simp only [underAll, Bool.and_eq_true] at hu
    rcases List.mem_cons.mp hm with e | e
    · subst e; exact hu.1
    · exact underAll_mem hu.2 h e

theorem underAll_of {o : Nat} : ∀ {hs : List DHint}, (∀ h ∈ hs, under D o h = true) → underAll D o hs = true
  | [], _ => rfl
  | a :: as, h => by
    simp only [underAll, Bool.and_eq_true]
    exact ⟨h a (by simp), underAll_of (fun b hb => h b (by simp [hb]))⟩

theorem under_branch {o : Nat} {b bj : DHint} (hm : bj ∈ branches b) (hu : under D o b = true) : under D o bj = true := by
  cases b <;> simp only [branches, List.mem_singleton] at hm <;> try (subst hm; exact hu)
  · exact underAll_mem D (by simpa [under] using hu) _ hm
  · exact underAll_mem D (by simpa [under] using hu) _ hm

/-- kinds of a regular atomic args-ignorable branch: its `under` is about its origin -/
theorem under_argsIgn {o : Nat} {bj : DHint} (hr : bj.Reg D) (hu : bj.isUnionLike = false) (ha : argsIgn D bj = true) :
    under D o bj = D.W.sub (origin bj) o := by
  cases bj <;> simp_all [under, origin, argsIgn, isUnionLike, DHint.Reg]

theorem under_sub_kinds {o : Nat} {bj a : DHint} (hi : instOf bj a = true) : under D o bj = D.W.sub (origin bj) o := by
  cases bj <;> cases a <;> simp_all [under, origin, instOf]

mutual
theorem under_obj (hD : D.Wf) : ∀ (h : DHint), h.Reg D → under D cObject h = true
  | .any, hr => by simp [DHint.Reg] at hr
  | .cls c, _ => by simp [under, hD.obj_top]
  | .cont _ _ _, _ => by simp [under, hD.obj_top]
  | .mapping _ _ _, _ => by simp [under, hD.obj_top]
  | .callable _ _ _ _, _ => by simp [under, hD.obj_top]
  | .tupleFixed _, _ => by simp [under, hD.obj_top]
  | .tupleVar _, _ => by simp [under, hD.obj_top]
  | .literal ms, _ => by simp [under, hD.obj_top]
  | .annotated h _, hr => by simp only [DHint.Reg] at hr; simpa [under] using under_obj hD h hr
  | .union hs, hr => by simp only [DHint.Reg] at hr; simpa [under] using underAll_obj hD hs hr.2.1
  | .typevar hs, hr => by simp only [DHint.Reg] at hr; simpa [under] using underAll_obj hD hs hr.2.1
theorem underAll_obj (hD : D.Wf) : ∀ (hs : List DHint), RegAll D hs → underAll D cObject hs = true
  | [], _ => rfl
  | h :: hs, hr => by
    simp only [RegAll] at hr
    simp only [underAll, Bool.and_eq_true]
    exact ⟨under_obj hD h hr.1, underAll_obj hD hs hr.2⟩
end

/-- an atomic regular hint is under its own origin -/
theorem under_self (hD : D.Wf) {c : DHint} (hr : c.Reg D) (hu : c.isUnionLike = false) : under D (origin c) c = true := by
  cases c with
  | any => simp [DHint.Reg] at hr
  | union _ => simp [isUnionLike] at hu
  | typevar _ => simp [isUnionLike] at hu
  | annotated h md => simp only [DHint.Reg] at hr; simpa [under, origin] using under_obj D hD h hr
  | literal ms => simp [under, origin, hD.obj_top]
  | _ => simp [under, origin, hD.sub_refl]

def UnderRel (le : DHint → DHint → R) : Prop :=
  ∀ a b o, a.Reg D → b.Reg D → le a b = .ok true → under D o b = true → under D o a = true

theorem litSubset_under {o : Nat} {ms ms' : List (Nat × Atom)} (h : litSubset ms ms' = true)
    (hu : under D o (.literal ms') = true) : under D o (.literal ms) = true := by
  simp only [under, List.all_eq_true] at hu ⊢
  simp only [litSubset, List.all_eq_true, litIn, List.any_eq_true, Bool.and_eq_true, beq_iff_eq] at h
  intro m hm
  obtain ⟨m', hm', e1, _⟩ := h m hm
  rw [e1]; exact hu m' hm'

theorem brLe_under (hD : D.Wf) (le eq : DHint → DHint → R) (hle : UnderRel D le) (a bj : DHint) (o : Nat)
    (ha : a.Reg D) (hb : bj.Reg D) (hub : bj.isUnionLike = false) (hua : a.isUnionLike = false)
    (h : brLe D le eq a bj = .ok true) (hu : under D o bj = true) : under D o a = true := by
  have baseCase : ∀ a', (instOf a' a' = true ∨ a'.isLiteral = true) → brBase D le a' bj = .ok true →
      D.W.sub (origin a') o = true := by
    intro a' hk hb'
    unfold brBase at hb'
    split at hb'
    · cases hb'
    rename_i hsub
    have hsub : D.W.sub (origin a') (origin bj) = true := by simpa using hsub
    split at hb'
    · rename_i hig
      rw [under_argsIgn D hb hub hig] at hu
      exact hD.sub_trans _ _ _ hsub hu
    split at hb'
    · cases hb'
    rename_i hinst
    have hinst : instOf bj a' = true := by simpa using hinst
    rw [under_sub_kinds D hinst] at hu
    exact hD.sub_trans _ _ _ hsub hu
  cases a with
  | any => simp [DHint.Reg] at ha
  | callable _ _ _ _ => simp [DHint.Reg] at ha
  | union _ => simp [isUnionLike] at hua
  | typevar _ => simp [isUnionLike] at hua
  | cls c =>
    simp only [brLe, Except.ok.injEq, Bool.and_eq_true] at h
    rw [under_argsIgn D hb hub h.1] at hu
    simpa [under] using hD.sub_trans _ _ _ h.2 hu
  | cont k c h' => simpa [under, origin] using baseCase _ (Or.inl rfl) (by simpa [brLe] using h)
  | mapping c k v => simpa [under, origin] using baseCase _ (Or.inl rfl) (by simpa [brLe] using h)
  | tupleVar h' => simpa [under, origin] using baseCase _ (Or.inl rfl) (by simpa [brLe] using h)
  | literal ms =>
    cases bj with
    | literal ms' => simp only [brLe, Except.ok.injEq] at h; exact litSubset_under D h hu
    | _ =>
      simp only [brLe] at h
      have := baseCase _ (Or.inr rfl) h
      simp only [origin] at this
      simp only [under, List.all_eq_true]
      intro m _
      exact hD.sub_trans _ _ _ (hD.obj_top m.1) this
  | annotated h' md =>
    simp only [DHint.Reg] at ha
    cases bj with
    | annotated hb' md' =>
      simp only [DHint.Reg] at hb
      simp only [brLe, guardE] at h
      have : le h' hb' = .ok true := by
        cases hl : le h' hb' with
        | error e => rw [hl] at h; cases h
        | ok b => cases b with
          | true => rfl
          | false => rw [hl] at h; cases h
      simpa [under] using hle h' hb' o ha hb this (by simpa [under] using hu)
    | _ =>
      simp only [brLe] at h
      simpa [under] using hle h' _ o ha hb h hu
  | tupleFixed as =>
    simp only [brLe] at h
    split at h
    · rename_i hig
      simp only [Except.ok.injEq] at h
      rw [under_argsIgn D hb hub hig] at hu
      simpa [under] using hD.sub_trans _ _ _ h hu
    · cases bj <;> simp_all [under]

theorem subBody_under (hD : D.Wf) (le eq : DHint → DHint → R) (hle : UnderRel D le) : UnderRel D (subBody D le eq) := by
  intro a b o ha hb h hu
  have baseCase : a.isUnionLike = false → baseSub D le eq a b = .ok true → under D o a = true := by
    intro hua hbs
    obtain ⟨bj, hm, hf⟩ := anyE_true hbs
    have hrb := reg_branch D hb hm
    simp only [reg_not_any D hrb.1, Bool.false_eq_true, ↓reduceIte] at hf
    exact brLe_under D hD le eq hle a bj o ha hrb.1 hrb.2 hua hf (under_branch D hm hu)
  have unionCase : ∀ as, RegAll D as →
      allE as (fun ai => if b.isUnionLike then anyE (branches b) (fun bj => le ai bj) else le ai b) = .ok true →
      underAll D o as = true := by
    intro as hra hall
    refine underAll_of D (fun ai hm => ?_)
    have := allE_true.mp hall ai hm
    split at this
    · obtain ⟨bj, hmb, hf⟩ := anyE_true this
      exact hle ai bj o (regAll_mem D hra ai hm) (reg_branch D hb hmb).1 hf (under_branch D hmb hu)
    · exact hle ai b o (regAll_mem D hra ai hm) hb this hu
  cases a with
  | any => simp [DHint.Reg] at ha
  | union as => simp only [DHint.Reg] at ha; simpa [under] using unionCase as ha.2.1 (by simpa [subBody] using h)
  | typevar as => simp only [DHint.Reg] at ha; simpa [under] using unionCase as ha.2.1 (by simpa [subBody] using h)
  | literal ms =>
    cases b with
    | literal ms' => simp only [subBody, Except.ok.injEq] at h; exact litSubset_under D h hu
    | _ =>
      simp only [subBody, orE_true] at h
      rcases h with h | ⟨_, h⟩
      · rw [allE_true] at h
        simp only [under, List.all_eq_true]
        intro m hm
        simpa [under] using hle (.cls m.1) _ o (by simp [DHint.Reg]) hb (h m hm) hu
      · exact baseCase rfl h
  | cls c => exact baseCase rfl (by simpa [subBody] using h)
  | annotated _ _ => exact baseCase rfl (by simpa [subBody] using h)
  | tupleFixed _ => exact baseCase rfl (by simpa [subBody] using h)
  | tupleVar _ => exact baseCase rfl (by simpa [subBody] using h)
  | cont _ _ _ => exact baseCase rfl (by simpa [subBody] using h)
  | mapping _ _ _ => exact baseCase rfl (by simpa [subBody] using h)
  | callable _ _ _ _ => simp [DHint.Reg] at ha

theorem leF_under (hD : D.Wf) : ∀ n, UnderRel D (leF D n)
  | 0 => by intro a b o _ _ hl; simp [leF] at hl
  | n + 1 => by
    intro a b o ha hb hl hu
    simp only [leF, reg_not_any D ha, reg_not_any D hb, Bool.or_self, Bool.false_eq_true, ↓reduceIte] at hl
    exact subBody_under D hD _ _ (leF_under hD n) a b o ha hb hl hu

/-! ### (3) a hint under the origin of an args-ignorable atomic branch is a subhint of it -/

def Rule1Rel (le : DHint → DHint → R) : Prop :=
  ∀ a c, a.Reg D → c.Reg D → c.isUnionLike = false → argsIgn D c = true → under D (origin c) a = true → le a c ≠ .ok false

theorem subBody_rule1 (le eq : DHint → DHint → R) (hle : Rule1Rel D le) : Rule1Rel D (subBody D le eq) := by
  intro a c ha hc huc hig hu
  have hbr := branches_atomic huc
  have hna := reg_not_any D hc
  have unionCase : ∀ as, RegAll D as → underAll D (origin c) as = true →
      allE as (fun ai => if c.isUnionLike then anyE (branches c) (fun bj => le ai bj) else le ai c) ≠ .ok false := by
    intro as hra hua hf
    obtain ⟨ai, hm, hfi⟩ := allE_false hf
    simp only [huc, Bool.false_eq_true, ↓reduceIte] at hfi
    exact hle ai c (regAll_mem D hra ai hm) hc huc hig (underAll_mem D hua ai hm) hfi
  cases a with
  | any => simp [DHint.Reg] at ha
  | callable _ _ _ _ => simp [DHint.Reg] at ha
  | union as => simp only [DHint.Reg] at ha; simpa [subBody] using unionCase as ha.2.1 (by simpa [under] using hu)
  | typevar as => simp only [DHint.Reg] at ha; simpa [subBody] using unionCase as ha.2.1 (by simpa [under] using hu)
  | cls ca => simp_all [subBody, baseSub, anyE_single, brLe, under]
  | cont k o h => simp_all [subBody, baseSub, anyE_single, brLe, brBase, under, origin]
  | mapping o k v => simp_all [subBody, baseSub, anyE_single, brLe, brBase, under, origin]
  | tupleVar h => simp_all [subBody, baseSub, anyE_single, brLe, brBase, under, origin]
  | tupleFixed as => simp_all [subBody, baseSub, anyE_single, brLe, under]
  | annotated h md =>
    simp only [DHint.Reg] at ha
    have hca : ∀ h1 md1, c ≠ .annotated h1 md1 := by intro h1 md1 e; subst e; simp [argsIgn] at hig
    have : brLe D le eq (.annotated h md) c = le h c := by
      cases c <;> simp_all [brLe]
    simp only [subBody, baseSub, hbr, anyE_single, hna, Bool.false_eq_true, ↓reduceIte, this]
    exact hle h c ha hc huc hig (by simpa [under] using hu)
  | literal ms =>
    have hcl : ∀ ms', c ≠ .literal ms' := by intro ms' e; subst e; simp [argsIgn] at hig
    intro hf
    have : subBody D le eq (.literal ms) c = orE (allE ms (fun m => le (.cls m.1) c)) (baseSub D le eq (.literal ms) c) := by
      cases c <;> simp_all [subBody]
    rw [this, orE_false] at hf
    obtain ⟨m, hm, hfm⟩ := allE_false hf.1
    simp only [under, List.all_eq_true] at hu
    exact hle (.cls m.1) c (by simp [DHint.Reg]) hc huc hig (by simpa [under] using hu m hm) hfm

theorem leF_rule1 : ∀ n, Rule1Rel D (leF D n)
  | 0 => by intro a c _ _ _ _ _; simp [leF]
  | n + 1 => by
    intro a c ha hc huc hig hu
    simp only [leF, reg_not_any D ha, reg_not_any D hc, Bool.or_self, Bool.false_eq_true, ↓reduceIte]
    exact subBody_rule1 D _ _ (leF_rule1 n) a c ha hc huc hig hu

/-! ### (4) an atomic regular hint is below a union exactly through one of its branches -/

theorem leF_succ {n : Nat} {a b : DHint} (ha : a.Reg D) (hb : b.Reg D) :
    leF D (n + 1) a b = subBody D (leF D n) (eqF D n) a b := by
  simp [leF, reg_not_any D ha, reg_not_any D hb]

theorem subBody_nonlit {le eq : DHint → DHint → R} {a b : DHint} (hu : a.isUnionLike = false) (hl : a.isLiteral = false) :
    subBody D le eq a b = baseSub D le eq a b := by
  cases a <;> simp_all [subBody, isUnionLike, isLiteral]

theorem baseSub_atomic {le eq : DHint → DHint → R} {a b : DHint} (hu : b.isUnionLike = false) (hn : b.isAny = false) :
    baseSub D le eq a b = brLe D le eq a b := by
  simp [baseSub, branches_atomic hu, anyE_single, hn]

theorem allE_const {α : Type} {l : List α} (hne : l ≠ []) (v : R) : allE l (fun _ => v) = v := by
  induction l with
  | nil => simp at hne
  | cons a l ih =>
    cases l with
    | nil => exact allE_single a _
    | cons b l =>
      have := ih (by simp)
      simp only [allE] at this ⊢
      rw [this]
      cases v with
      | error e => rfl
      | ok x => cases x <;> rfl

/-- a regular literal: the class-of-member test is the same for every member -/
theorem lit_allE {ms : List (Nat × Atom)} (hne : ms ≠ []) (hh : ∀ m ∈ ms, ∀ m' ∈ ms, m.1 = m'.1) (f : Nat → R) :
    ∃ t, (∃ m ∈ ms, m.1 = t) ∧ allE ms (fun m => f m.1) = f t := by
  obtain ⟨m0, hm0⟩ := List.exists_mem_of_ne_nil ms hne
  refine ⟨m0.1, ⟨m0, hm0, rfl⟩, ?_⟩
  have : ∀ (l : List (Nat × Atom)), (∀ m ∈ l, m.1 = m0.1) → allE l (fun m => f m.1) = allE l (fun _ => f m0.1) := by
    intro l hl
    induction l with
    | nil => rfl
    | cons a l ih =>
      simp only [allE]
      rw [hl a (by simp), ih (fun m hm => hl m (by simp [hm]))]
  rw [this ms (fun m hm => hh m hm m0 hm0), allE_const hne]

/-- `is_subhint(lit, c)` one level down, for a regular literal and any regular non-literal `c` -/
theorem leF_lit {n : Nat} {ms : List (Nat × Atom)} {c : DHint} (ha : (DHint.literal ms).Reg D) (hc : c.Reg D)
    (hl : c.isLiteral = false) :
    ∃ t, (∃ m ∈ ms, m.1 = t) ∧ leF D (n + 1) (.literal ms) c =
      orE (leF D n (.cls t) c) (baseSub D (leF D n) (eqF D n) (.literal ms) c) := by
  simp only [DHint.Reg] at ha
  obtain ⟨t, ht, he⟩ := lit_allE ha.1 ha.2 (fun k => leF D n (.cls k) c)
  refine ⟨t, ht, ?_⟩
  rw [leF_succ D (by simpa [DHint.Reg] using ha) hc]
  cases c <;> simp_all [subBody, isLiteral]

theorem baseSub_true {le eq : DHint → DHint → R} {a c : DHint} (hc : c.Reg D) (h : baseSub D le eq a c = .ok true) :
    ∃ ck ∈ branches c, brLe D le eq a ck = .ok true ∧ ck.Reg D ∧ ck.isUnionLike = false := by
  obtain ⟨ck, hm, hf⟩ := anyE_true h
  have hr := reg_branch D hc hm
  simp only [reg_not_any D hr.1, Bool.false_eq_true, ↓reduceIte] at hf
  exact ⟨ck, hm, hf, hr⟩

theorem baseSub_false {le eq : DHint → DHint → R} {a c : DHint} (hc : c.Reg D) (h : baseSub D le eq a c = .ok false) :
    ∀ ck ∈ branches c, brLe D le eq a ck = .ok false := by
  intro ck hm
  have hf := anyE_false.mp h ck hm
  have hr := reg_branch D hc hm
  simpa [reg_not_any D hr.1] using hf

/-- `is_subhint(cls t, ck)` for an atomic `ck`: one level of fuel is enough and the answer is a Boolean -/
theorem leF_cls_atomic {n : Nat} {t : Nat} {ck : DHint} (hr : ck.Reg D) (hu : ck.isUnionLike = false) :
    leF D (n + 1) (.cls t) ck = .ok (argsIgn D ck && D.W.sub t (origin ck)) := by
  rw [leF_succ D (by simp [DHint.Reg]) hr, subBody_nonlit D rfl rfl, baseSub_atomic D hu (reg_not_any D hr)]
  simp [brLe]

theorem leF_lit_lit {n : Nat} {ms ms' : List (Nat × Atom)} (ha : (DHint.literal ms).Reg D) (hb : (DHint.literal ms').Reg D) :
    leF D (n + 1) (.literal ms) (.literal ms') = .ok (litSubset ms ms') := by
  rw [leF_succ D ha hb]; simp [subBody]

theorem branch_true {n : Nat} {a c : DHint} (ha : a.Reg D) (hua : a.isUnionLike = false) (hc : c.Reg D)
    (huc : c.isUnionLike = true) (h : leF D (n + 1) a c = .ok true) : ∃ ck ∈ branches c, leF D (n + 1) a ck = .ok true := by
  have hcl : c.isLiteral = false := by cases c <;> simp_all [isLiteral, isUnionLike]
  cases hal : a.isLiteral with
  | false =>
    rw [leF_succ D ha hc, subBody_nonlit D hua hal] at h
    obtain ⟨ck, hm, hf, hr, hu⟩ := baseSub_true D hc h
    exact ⟨ck, hm, by rw [leF_succ D ha hr, subBody_nonlit D hua hal, baseSub_atomic D hu (reg_not_any D hr)]; exact hf⟩
  | true =>
    cases a with
    | literal ms =>
      obtain ⟨t, _, he⟩ := leF_lit D (n := n) ha hc hcl
      rw [he, orE_true] at h
      cases n with
      | zero => simp [leF] at h
      | succ n' =>
      rcases h with h | ⟨_, h2⟩
      · -- every member's class is below `c`: through one branch
        rw [leF_succ D (by simp [DHint.Reg]) hc, subBody_nonlit D rfl rfl] at h
        obtain ⟨ck, hm, hf, hr, hu⟩ := baseSub_true D hc h
        refine ⟨ck, hm, ?_⟩
        simp only [brLe, Except.ok.injEq, Bool.and_eq_true] at hf
        have hkl : ck.isLiteral = false := by cases ck <;> simp_all [isLiteral, argsIgn]
        obtain ⟨t', ⟨m', hm', et'⟩, he'⟩ := leF_lit D (n := n' + 1) ha hr hkl
        obtain ⟨m0, hm0, et⟩ := ‹∃ m ∈ ms, m.1 = t›
        have : t' = t := by
          simp only [DHint.Reg] at ha
          rw [← et', ← et]; exact ha.2 m' hm' m0 hm0
        subst this
        rw [he', leF_cls_atomic D hr hu]
        simp [hf.1, hf.2, orE]
      · obtain ⟨ck, hm, hf, hr, hu⟩ := baseSub_true D hc h2
        refine ⟨ck, hm, ?_⟩
        cases hkl : ck.isLiteral with
        | true =>
          cases ck with
          | literal ms' => rw [leF_lit_lit D ha hr]; simpa [brLe] using hf
          | _ => simp [isLiteral] at hkl
        | false =>
          obtain ⟨t', _, he'⟩ := leF_lit D (n := n' + 1) ha hr hkl
          rw [he', leF_cls_atomic D hr hu, baseSub_atomic D hu (reg_not_any D hr), hf]
          cases (argsIgn D ck && D.W.sub t' (origin ck)) <;> rfl
    | _ => simp [isLiteral] at hal

theorem branch_false {n : Nat} {a c : DHint} (ha : a.Reg D) (hua : a.isUnionLike = false) (hc : c.Reg D)
    (huc : c.isUnionLike = true) (h : leF D (n + 1) a c = .ok false) : ∀ ck ∈ branches c, leF D (n + 1) a ck = .ok false := by
  have hcl : c.isLiteral = false := by cases c <;> simp_all [isLiteral, isUnionLike]
  intro ck hm
  have hr := reg_branch D hc hm
  cases hal : a.isLiteral with
  | false =>
    rw [leF_succ D ha hc, subBody_nonlit D hua hal] at h
    rw [leF_succ D ha hr.1, subBody_nonlit D hua hal, baseSub_atomic D hr.2 (reg_not_any D hr.1)]
    exact baseSub_false D hc h ck hm
  | true =>
    cases a with
    | literal ms =>
      obtain ⟨t, ⟨m0, hm0, et⟩, he⟩ := leF_lit D (n := n) ha hc hcl
      rw [he, orE_false] at h
      cases n with
      | zero => simp [leF] at h
      | succ n' =>
      have h1 := h.1
      rw [leF_succ D (by simp [DHint.Reg]) hc, subBody_nonlit D rfl rfl] at h1
      have hf1 := baseSub_false D hc h1 ck hm
      have hf2 := baseSub_false D hc h.2 ck hm
      cases hkl : ck.isLiteral with
      | true =>
        cases ck with
        | literal ms' => rw [leF_lit_lit D ha hr.1]; simpa [brLe] using hf2
        | _ => simp [isLiteral] at hkl
      | false =>
        obtain ⟨t', ⟨m', hm', et'⟩, he'⟩ := leF_lit D (n := n' + 1) ha hr.1 hkl
        have : t' = t := by
          simp only [DHint.Reg] at ha
          rw [← et', ← et]; exact ha.2 m' hm' m0 hm0
        subst this
        rw [he', leF_cls_atomic D hr.1 hr.2, baseSub_atomic D hr.2 (reg_not_any D hr.1), hf2]
        simp only [brLe, Except.ok.injEq] at hf1
        simp [hf1, orE]
    | _ => simp [isLiteral] at hal

/-! ### (5) atomic triples -/

/-- transitivity below a total fuel -/
def TransBelow (N : Nat) : Prop :=
  ∀ n1 n2 n3, n1 + n2 + n3 < N → ∀ a b c, a.Reg D → b.Reg D → c.Reg D →
    leF D n1 a b = .ok true → leF D n2 b c = .ok true → leF D n3 a c ≠ .ok false

theorem leF_atomic {n : Nat} {a c : DHint} (ha : a.Reg D) (hc : c.Reg D) (hua : a.isUnionLike = false)
    (hla : a.isLiteral = false) (huc : c.isUnionLike = false) :
    leF D (n + 1) a c = brLe D (leF D n) (eqF D n) a c := by
  rw [leF_succ D ha hc, subBody_nonlit D hua hla, baseSub_atomic D huc (reg_not_any D hc)]

theorem reg_children {a : DHint} (h : a.Reg D) : RegAll D (children a) := by
  cases a <;> simp_all [children, DHint.Reg, RegAll]

theorem zip_trans {f g h : DHint → DHint → R} : ∀ (as bs cs : List DHint), RegAll D as → RegAll D bs → RegAll D cs →
    zipAllE f as bs = .ok true → zipAllE g bs cs = .ok true → as.length = bs.length → bs.length = cs.length →
    (∀ a b c, a.Reg D → b.Reg D → c.Reg D → f a b = .ok true → g b c = .ok true → h a c ≠ .ok false) →
    zipAllE h as cs ≠ .ok false
  | [], _, _, _, _, _, _, _, _, _, _ => by simp [zipAllE]
  | _ :: _, [], _, _, _, _, _, _, hl, _, _ => by simp at hl
  | _ :: _, _ :: _, [], _, _, _, _, _, _, hl, _ => by simp at hl
  | a :: as, b :: bs, c :: cs, ha, hb, hc, hf, hg, hl1, hl2, hh => by
    simp only [RegAll] at ha hb hc
    simp only [zipAllE, andE_true] at hf hg
    intro hz
    simp only [zipAllE, andE_false] at hz
    rcases hz with hz | ⟨_, hz⟩
    · exact hh a b c ha.1 hb.1 hc.1 hf.1 hg.1 hz
    · exact zip_trans as bs cs ha.2 hb.2 hc.2 hf.2 hg.2 (by simpa using hl1) (by simpa using hl2) hh hz

theorem zip_all_trans {f g h : DHint → DHint → R} {hc : DHint} (hrc : hc.Reg D) : ∀ (as bs : List DHint), RegAll D as → RegAll D bs →
    zipAllE f as bs = .ok true → allE bs (fun b => g b hc) = .ok true → as.length = bs.length →
    (∀ a b c, a.Reg D → b.Reg D → c.Reg D → f a b = .ok true → g b c = .ok true → h a c ≠ .ok false) →
    allE as (fun a => h a hc) ≠ .ok false
  | [], _, _, _, _, _, _, _ => by simp [allE]
  | _ :: _, [], _, _, _, _, hl, _ => by simp at hl
  | a :: as, b :: bs, ha, hb, hf, hg, hl, hh => by
    simp only [RegAll] at ha hb
    simp only [zipAllE, andE_true] at hf
    simp only [allE, andE_true] at hg
    intro hz
    simp only [allE, andE_false] at hz
    rcases hz with hz | ⟨_, hz⟩
    · exact hh a b hc ha.1 hb.1 hrc hf.1 hg.1 hz
    · exact zip_all_trans hrc as bs ha.2 hb.2 hf.2 hg.2 (by simpa using hl) hh hz

theorem all_trans {f g h : DHint → DHint → R} {hb hc : DHint} (hrb : hb.Reg D) (hrc : hc.Reg D) (as : List DHint) (ha : RegAll D as)
    (hf : allE as (fun a => f a hb) = .ok true) (hg : g hb hc = .ok true)
    (hh : ∀ a b c, a.Reg D → b.Reg D → c.Reg D → f a b = .ok true → g b c = .ok true → h a c ≠ .ok false) :
    allE as (fun a => h a hc) ≠ .ok false := by
  intro hz
  obtain ⟨a, hm, hfa⟩ := allE_false hz
  exact hh a hb hc (regAll_mem D ha a hm) hrb hrc (allE_true.mp hf a hm) hg hfa

theorem zip_ignAll {le : DHint → DHint → R} (hle : IgnRel D le) : ∀ (bs cs : List DHint), RegAll D bs → RegAll D cs →
    bs.length = cs.length → zipAllE le bs cs = .ok true → ignAll D bs = true → ignAll D cs = true
  | [], [], _, _, _, _, _ => rfl
  | [], _ :: _, _, _, hl, _, _ => by simp at hl
  | _ :: _, [], _, _, hl, _, _ => by simp at hl
  | b :: bs, c :: cs, hb, hc, hl, hz, hi => by
    simp only [RegAll] at hb hc
    simp only [zipAllE, andE_true] at hz
    simp only [ignAll, Bool.and_eq_true] at hi ⊢
    exact ⟨hle b c hb.1 hc.1 hz.1 hi.1, zip_ignAll hle bs cs hb.2 hc.2 (by simpa using hl) hz.2 hi.2⟩

theorem litSubset_trans {a b c : List (Nat × Atom)} (h1 : litSubset a b = true) (h2 : litSubset b c = true) : litSubset a c = true := by
  simp only [litSubset, List.all_eq_true, litIn, List.any_eq_true, Bool.and_eq_true, beq_iff_eq] at *
  intro m hm
  obtain ⟨m', hm', e1, e2⟩ := h1 m hm
  obtain ⟨m'', hm'', e3, e4⟩ := h2 m' hm'
  exact ⟨m'', hm'', e1.trans e3, e2.trans e4⟩

/-- a non-annotated atomic hint is never below an `Annotated` -/
theorem not_le_annotated {n : Nat} {b hc : DHint} {md : List Nat} (hb : b.Reg D) (hub : b.isUnionLike = false)
    (hnb : ∀ h m, b ≠ .annotated h m) (hc' : (DHint.annotated hc md).Reg D) : leF D n b (.annotated hc md) ≠ .ok true := by
  cases n with
  | zero => simp [leF]
  | succ n =>
    cases hlb : b.isLiteral with
    | false =>
      rw [leF_atomic D hb hc' hub hlb rfl]
      cases b <;> simp_all [brLe, brBase, argsIgn, instOf, isUnionLike, DHint.Reg]
      all_goals (split <;> simp)
    | true =>
      cases b with
      | literal ms =>
        obtain ⟨t, _, he⟩ := leF_lit D (n := n) hb hc' rfl
        rw [he]
        cases n with
        | zero => simp [leF, orE]
        | succ n' =>
          rw [leF_cls_atomic D hc' rfl, baseSub_atomic D rfl (reg_not_any D hc')]
          simp [brLe, brBase, argsIgn, instOf, orE]
      | _ => simp [isLiteral] at hlb

/-- how a non-annotated atomic hint can be below a non-annotated atomic hint whose arguments are not all ignorable -/
theorem struct_cases {n : Nat} {b c : DHint} (hb : b.Reg D) (hc : c.Reg D) (hub : b.isUnionLike = false) (huc : c.isUnionLike = false)
    (hnb : ∀ h m, b ≠ .annotated h m) (hnc : ∀ h m, c ≠ .annotated h m) (hig : argsIgn D c = false)
    (h : leF D (n + 1) b c = .ok true) :
    (∃ msb msc, b = .literal msb ∧ c = .literal msc ∧ litSubset msb msc = true) ∨
    (∃ bs cs, b = .tupleFixed bs ∧ c = .tupleFixed cs ∧ bs.length = cs.length ∧ zipAllE (leF D n) bs cs = .ok true) ∨
    (∃ bs hc', b = .tupleFixed bs ∧ c = .tupleVar hc' ∧ allE bs (fun bi => leF D n bi hc') = .ok true) ∨
    (instOf c b = true ∧ D.W.sub (origin b) (origin c) = true ∧ (children b).length = (children c).length ∧
      zipAllE (leF D n) (children b) (children c) = .ok true) := by
  cases hlb : b.isLiteral with
  | true =>
    cases b with
    | literal msb =>
      cases hlc : c.isLiteral with
      | true =>
        cases c with
        | literal msc => rw [leF_lit_lit D hb hc] at h; exact Or.inl ⟨msb, msc, rfl, rfl, by simpa using h⟩
        | _ => simp [isLiteral] at hlc
      | false =>
        obtain ⟨t, _, he⟩ := leF_lit D (n := n) hb hc hlc
        rw [he] at h
        cases n with
        | zero => simp [leF, orE] at h
        | succ n' =>
          rw [leF_cls_atomic D hc huc, baseSub_atomic D huc (reg_not_any D hc)] at h
          have : brLe D (leF D (n' + 1)) (eqF D (n' + 1)) (.literal msb) c = .ok false := by
            cases c <;> simp_all [brLe, brBase, instOf, isLiteral]
            all_goals (split <;> simp)
          simp [hig, this, orE] at h
    | _ => simp [isLiteral] at hlb
  | false =>
    rw [leF_atomic D hb hc hub hlb huc] at h
    cases b with
    | any => simp [DHint.Reg] at hb
    | callable _ _ _ _ => simp [DHint.Reg] at hb
    | union _ => simp [isUnionLike] at hub
    | typevar _ => simp [isUnionLike] at hub
    | literal _ => simp [isLiteral] at hlb
    | annotated h' m' => exact absurd rfl (hnb h' m')
    | cls cb => simp [brLe, hig] at h
    | tupleFixed bs =>
      simp only [brLe, hig, Bool.false_eq_true, ↓reduceIte] at h
      cases c with
      | tupleVar hc' => exact Or.inr (Or.inr (Or.inl ⟨bs, hc', rfl, rfl, h⟩))
      | tupleFixed cs =>
        simp only at h
        split at h
        · cases h
        rename_i hl
        exact Or.inr (Or.inl ⟨bs, cs, rfl, rfl, by simpa using hl, h⟩)
      | _ => simp at h
    | cont k o hb' =>
      simp only [brLe, brBase, hig, Bool.false_eq_true, ↓reduceIte] at h
      split at h
      · cases h
      rename_i hs
      split at h
      · cases h
      rename_i hi
      split at h
      · cases h
      rename_i hl
      exact Or.inr (Or.inr (Or.inr ⟨by simpa using hi, by simpa using hs, by simpa using hl, h⟩))
    | mapping o k v =>
      simp only [brLe, brBase, hig, Bool.false_eq_true, ↓reduceIte] at h
      split at h
      · cases h
      rename_i hs
      split at h
      · cases h
      rename_i hi
      split at h
      · cases h
      rename_i hl
      exact Or.inr (Or.inr (Or.inr ⟨by simpa using hi, by simpa using hs, by simpa using hl, h⟩))
    | tupleVar hb' =>
      simp only [brLe, brBase, hig, Bool.false_eq_true, ↓reduceIte] at h
      split at h
      · cases h
      rename_i hs
      split at h
      · cases h
      rename_i hi
      split at h
      · cases h
      rename_i hl
      exact Or.inr (Or.inr (Or.inr ⟨by simpa using hi, by simpa using hs, by simpa using hl, h⟩))

theorem brLe_ann_nonann {le eq : DHint → DHint → R} {h c : DHint} {md : List Nat} (hn : ∀ h' m, c ≠ .annotated h' m) :
    brLe D le eq (.annotated h md) c = le h c := by
  cases c <;> simp_all [brLe]

theorem brLe_ann_ann_true {le eq : DHint → DHint → R} {h h' : DHint} {md md' : List Nat} :
    brLe D le eq (.annotated h md) (.annotated h' md') = .ok true ↔ le h h' = .ok true ∧ md = md' := by
  simp only [brLe, guardE]
  cases hl : le h h' with
  | error e => simp
  | ok b =>
    cases b with
    | false => simp
    | true =>
      simp only [Except.ok.injEq, Bool.and_eq_true, beq_iff_eq, true_and]
      constructor
      · intro h; exact h.2
      · intro h; subst h; simp

theorem argsIgn_sub_kind {b c : DHint} (hi : instOf c b = true) :
    argsIgn D b = ignAll D (children b) ∧ argsIgn D c = ignAll D (children c) := by
  cases b <;> cases c <;> simp_all [instOf, argsIgn]

theorem instOf_trans {a b c : DHint} (h1 : instOf b a = true) (h2 : instOf c b = true) : instOf c a = true := by
  cases a <;> cases b <;> simp_all [instOf] <;> cases c <;> simp_all

theorem brLe_sub_kind {le eq : DHint → DHint → R} {a b c : DHint} (h1 : instOf b a = true) :
    brLe D le eq a c = brBase D le a c ∧ a.isLiteral = false := by
  cases a <;> cases b <;> simp_all [instOf, brLe, isLiteral]

theorem trans_atomic (hD : D.Wf) {n1 n2 n3 : Nat} (IH : TransBelow D (n1 + 1 + (n2 + 1) + (n3 + 1)))
    {a b c : DHint} (ha : a.Reg D) (hb : b.Reg D) (hc : c.Reg D)
    (hua : a.isUnionLike = false) (hub : b.isUnionLike = false) (huc : c.isUnionLike = false)
    (h1 : leF D (n1 + 1) a b = .ok true) (h2 : leF D (n2 + 1) b c = .ok true) : leF D (n3 + 1) a c ≠ .ok false := by
  cases hig : argsIgn D c with
  | true =>
    have hub' := leF_under D hD (n2 + 1) b c (origin c) hb hc h2 (under_self D hD hc huc)
    have hua' := leF_under D hD (n1 + 1) a b (origin c) ha hb h1 hub'
    exact leF_rule1 D (n3 + 1) a c ha hc huc hig hua'
  | false =>
    by_cases hac : ∃ h m, a = .annotated h m
    · obtain ⟨ha', ma, rfl⟩ := hac
      have hra' : ha'.Reg D := by simpa [DHint.Reg] using ha
      by_cases hbc : ∃ h m, b = .annotated h m
      · obtain ⟨hb', mb, rfl⟩ := hbc
        have hrb' : hb'.Reg D := by simpa [DHint.Reg] using hb
        rw [leF_atomic D ha hb rfl rfl rfl, brLe_ann_ann_true] at h1
        obtain ⟨h1, rfl⟩ := h1
        by_cases hcc : ∃ h m, c = .annotated h m
        · obtain ⟨hc', mc, rfl⟩ := hcc
          have hrc' : hc'.Reg D := by simpa [DHint.Reg] using hc
          rw [leF_atomic D hb hc rfl rfl rfl, brLe_ann_ann_true] at h2
          obtain ⟨h2, rfl⟩ := h2
          rw [leF_atomic D ha hc rfl rfl rfl]
          have := IH n1 n2 n3 (by omega) ha' hb' hc' hra' hrb' hrc' h1 h2
          simp only [brLe, guardE]
          cases hl : leF D n3 ha' hc' with
          | error e => simp
          | ok x => cases x with
            | false => exact absurd hl this
            | true => simp
        · have hcc' : ∀ h m, c ≠ .annotated h m := fun h m e => hcc ⟨h, m, e⟩
          rw [leF_atomic D hb hc rfl rfl huc, brLe_ann_nonann D hcc'] at h2
          rw [leF_atomic D ha hc rfl rfl huc, brLe_ann_nonann D hcc']
          exact IH n1 n2 n3 (by omega) ha' hb' c hra' hrb' hc h1 h2
      · have hbc' : ∀ h m, b ≠ .annotated h m := fun h m e => hbc ⟨h, m, e⟩
        rw [leF_atomic D ha hb rfl rfl hub, brLe_ann_nonann D hbc'] at h1
        by_cases hcc : ∃ h m, c = .annotated h m
        · obtain ⟨hc', mc, rfl⟩ := hcc
          exact absurd h2 (not_le_annotated D hb hub hbc' hc)
        · have hcc' : ∀ h m, c ≠ .annotated h m := fun h m e => hcc ⟨h, m, e⟩
          rw [leF_atomic D ha hc rfl rfl huc, brLe_ann_nonann D hcc']
          exact IH n1 (n2 + 1) n3 (by omega) ha' b c hra' hb hc h1 h2
    · have hac' : ∀ h m, a ≠ .annotated h m := fun h m e => hac ⟨h, m, e⟩
      by_cases hbc : ∃ h m, b = .annotated h m
      · obtain ⟨hb', mb, rfl⟩ := hbc
        exact absurd h1 (not_le_annotated D ha hua hac' hb)
      · have hbc' : ∀ h m, b ≠ .annotated h m := fun h m e => hbc ⟨h, m, e⟩
        by_cases hcc : ∃ h m, c = .annotated h m
        · obtain ⟨hc', mc, rfl⟩ := hcc
          exact absurd h2 (not_le_annotated D hb hub hbc' hc)
        · have hcc' : ∀ h m, c ≠ .annotated h m := fun h m e => hcc ⟨h, m, e⟩
          have IH' : ∀ x y z, x.Reg D → y.Reg D → z.Reg D → leF D n1 x y = .ok true → leF D n2 y z = .ok true →
              leF D n3 x z ≠ .ok false := fun x y z hx hy hz => IH n1 n2 n3 (by omega) x y z hx hy hz
          -- all three are classes, subscripted hints, tuples or literals
          rcases struct_cases D hb hc hub huc hbc' hcc' hig h2 with
            ⟨msb, msc, rfl, rfl, hs2⟩ | ⟨bs, cs, rfl, rfl, hl2, hz2⟩ | ⟨bs, hc', rfl, rfl, hz2⟩ | ⟨hi2, hs2, hl2, hz2⟩
          · -- literal ≤ literal
            rcases struct_cases D ha hb hua hub hac' hbc' (by simp [argsIgn]) h1 with
              ⟨msa, _, rfl, e, hs1⟩ | ⟨_, _, _, e, _⟩ | ⟨_, _, _, e, _⟩ | ⟨hi1, _⟩
            · cases e
              rw [leF_lit_lit D ha hc]
              simp [litSubset_trans hs1 hs2]
            · cases e
            · cases e
            · cases a <;> simp [instOf] at hi1
          · -- fixed tuple ≤ fixed tuple
            rcases struct_cases D ha hb hua hub hac' hbc' (by simp [argsIgn]) h1 with
              ⟨_, _, _, e, _⟩ | ⟨as, _, rfl, e, hl1, hz1⟩ | ⟨_, _, _, e, _⟩ | ⟨hi1, _⟩
            · cases e
            · cases e
              rw [leF_atomic D ha hc rfl rfl rfl]
              simp only [brLe, argsIgn, Bool.false_eq_true, ↓reduceIte, hl1, hl2, bne_self_eq_false]
              exact zip_trans D as bs cs (by simpa [DHint.Reg] using ha) (by simpa [DHint.Reg] using hb)
                (by simpa [DHint.Reg] using hc) hz1 hz2 hl1 hl2 IH'
            · cases e
            · cases a <;> simp [instOf] at hi1
          · -- fixed tuple ≤ variadic tuple
            rcases struct_cases D ha hb hua hub hac' hbc' (by simp [argsIgn]) h1 with
              ⟨_, _, _, e, _⟩ | ⟨as, _, rfl, e, hl1, hz1⟩ | ⟨_, _, _, e, _⟩ | ⟨hi1, _⟩
            · cases e
            · cases e
              rw [leF_atomic D ha hc rfl rfl rfl]
              simp only [brLe, hig, Bool.false_eq_true, ↓reduceIte]
              exact zip_all_trans D (by simpa [DHint.Reg] using hc) as bs (by simpa [DHint.Reg] using ha)
                (by simpa [DHint.Reg] using hb) hz1 hz2 hl1 IH'
            · cases e
            · cases a <;> simp [instOf] at hi1
          · -- subscripted ≤ subscripted
            have higb : argsIgn D b = false := by
              cases hb' : argsIgn D b with
              | false => rfl
              | true =>
                obtain ⟨hkb, hkc⟩ := argsIgn_sub_kind D hi2
                rw [hkb] at hb'
                have := zip_ignAll D (leF_ign D hD n2) _ _ (reg_children D hb) (reg_children D hc) hl2 hz2 hb'
                rw [hkc, this] at hig; cases hig
            rcases struct_cases D ha hb hua hub hac' hbc' higb h1 with
              ⟨_, _, _, e, _⟩ | ⟨_, _, _, e, _⟩ | ⟨as, hb', rfl, rfl, hz1⟩ | ⟨hi1, hs1, hl1, hz1⟩
            · subst e; cases c <;> simp [instOf] at hi2
            · subst e; cases c <;> simp [instOf] at hi2
            · -- fixed tuple ≤ variadic tuple ≤ variadic tuple
              cases c with
              | tupleVar hc' =>
                simp only [children, zipAllE, andE_true, and_true] at hz2
                rw [leF_atomic D ha hc rfl rfl rfl]
                simp only [brLe, hig, Bool.false_eq_true, ↓reduceIte]
                exact all_trans D (by simpa [DHint.Reg] using hb) (by simpa [DHint.Reg] using hc) as
                  (by simpa [DHint.Reg] using ha) hz1 hz2 IH'
              | _ => simp [instOf] at hi2
            · obtain ⟨hka, hla⟩ := brLe_sub_kind D (le := leF D n3) (eq := eqF D n3) (c := c) hi1
              have hi3 : instOf c a = true := instOf_trans hi1 hi2
              rw [leF_atomic D ha hc hua hla huc, hka]
              unfold brBase
              simp only [hD.sub_trans _ _ _ hs1 hs2, Bool.not_true, Bool.false_eq_true, ↓reduceIte, hig, hi3,
                hl1.trans hl2, bne_self_eq_false]
              exact zip_trans D _ _ _ (reg_children D ha) (reg_children D hb) (reg_children D hc) hz1 hz2 hl1 hl2 IH'

/-! ### (6) unions: induction on the total fuel -/

theorem subBody_unionlike {le eq : DHint → DHint → R} {a b : DHint} (hu : a.isUnionLike = true) :
    subBody D le eq a b =
      allE (branches a) (fun ai => if b.isUnionLike then anyE (branches b) (fun bj => le ai bj) else le ai b) := by
  cases a <;> simp_all [subBody, isUnionLike, branches]

theorem trans_step (hD : D.Wf) {n1 n2 n3 : Nat} (IH : TransBelow D (n1 + n2 + n3)) {a b c : DHint}
    (ha : a.Reg D) (hb : b.Reg D) (hc : c.Reg D)
    (h1 : leF D n1 a b = .ok true) (h2 : leF D n2 b c = .ok true) : leF D n3 a c ≠ .ok false := by
  cases n1 with
  | zero => simp [leF] at h1
  | succ k1 =>
  cases n2 with
  | zero => simp [leF] at h2
  | succ k2 =>
  cases n3 with
  | zero => simp [leF]
  | succ k3 =>
  cases hua : a.isUnionLike with
  | true =>
    intro hf
    rw [leF_succ D ha hc, subBody_unionlike D hua] at hf
    obtain ⟨ai, hm, hfi⟩ := allE_false hf
    have hrai := reg_branch D ha hm
    rw [leF_succ D ha hb, subBody_unionlike D hua] at h1
    have h1i := allE_true.mp h1 ai hm
    cases hub : b.isUnionLike with
    | true =>
      simp only [hub, ↓reduceIte] at h1i
      obtain ⟨bj, hmb, h1j⟩ := anyE_true h1i
      have hrbj := reg_branch D hb hmb
      rw [leF_succ D hb hc, subBody_unionlike D hub] at h2
      have h2j := allE_true.mp h2 bj hmb
      cases huc : c.isUnionLike with
      | true =>
        simp only [huc, ↓reduceIte] at h2j hfi
        obtain ⟨ck, hmc, h2k⟩ := anyE_true h2j
        exact IH k1 k2 k3 (by omega) ai bj ck hrai.1 hrbj.1 (reg_branch D hc hmc).1 h1j h2k (anyE_false.mp hfi ck hmc)
      | false =>
        simp only [huc, Bool.false_eq_true, ↓reduceIte] at h2j hfi
        exact IH k1 k2 k3 (by omega) ai bj c hrai.1 hrbj.1 hc h1j h2j hfi
    | false =>
      simp only [hub, Bool.false_eq_true, ↓reduceIte] at h1i
      cases huc : c.isUnionLike with
      | true =>
        simp only [huc, ↓reduceIte] at hfi
        obtain ⟨ck, hmc, h2k⟩ := branch_true D hb hub hc huc h2
        exact IH k1 (k2 + 1) k3 (by omega) ai b ck hrai.1 hb (reg_branch D hc hmc).1 h1i h2k (anyE_false.mp hfi ck hmc)
      | false =>
        simp only [huc, Bool.false_eq_true, ↓reduceIte] at hfi
        exact IH k1 (k2 + 1) k3 (by omega) ai b c hrai.1 hb hc h1i h2 hfi
  | false =>
    cases hub : b.isUnionLike with
    | true =>
      obtain ⟨bj, hmb, h1j⟩ := branch_true D ha hua hb hub h1
      have hrbj := reg_branch D hb hmb
      rw [leF_succ D hb hc, subBody_unionlike D hub] at h2
      have h2j := allE_true.mp h2 bj hmb
      cases huc : c.isUnionLike with
      | true =>
        simp only [huc, ↓reduceIte] at h2j
        obtain ⟨ck, hmc, h2k⟩ := anyE_true h2j
        intro hf
        exact IH (k1 + 1) k2 (k3 + 1) (by omega) a bj ck ha hrbj.1 (reg_branch D hc hmc).1 h1j h2k
          (branch_false D ha hua hc huc hf ck hmc)
      | false =>
        simp only [huc, Bool.false_eq_true, ↓reduceIte] at h2j
        exact IH (k1 + 1) k2 (k3 + 1) (by omega) a bj c ha hrbj.1 hc h1j h2j
    | false =>
      cases huc : c.isUnionLike with
      | true =>
        obtain ⟨ck, hmc, h2k⟩ := branch_true D hb hub hc huc h2
        have hrck := reg_branch D hc hmc
        intro hf
        exact trans_atomic D hD IH ha hb hrck.1 hua hub hrck.2 h1 h2k (branch_false D ha hua hc huc hf ck hmc)
      | false => exact trans_atomic D hD IH ha hb hc hua hub huc h1 h2

theorem trans_all (hD : D.Wf) : ∀ N, TransBelow D N
  | 0 => by intro n1 n2 n3 h; omega
  | N + 1 => by
    intro n1 n2 n3 hlt a b c ha hb hc h1 h2
    have IH : TransBelow D (n1 + n2 + n3) := fun m1 m2 m3 hm => trans_all hD N m1 m2 m3 (by omega)
    exact trans_step D hD IH ha hb hc h1 h2

/-- **transitivity for every fuel** -/
theorem leF_trans (hD : D.Wf) {n1 n2 n3 : Nat} {a b c : DHint} (ha : a.Reg D) (hb : b.Reg D) (hc : c.Reg D)
    (h1 : leF D n1 a b = .ok true) (h2 : leF D n2 b c = .ok true) : leF D n3 a c ≠ .ok false :=
  trans_all D hD (n1 + n2 + n3 + 1) n1 n2 n3 (by omega) a b c ha hb hc h1 h2

end BearVerif.Door
