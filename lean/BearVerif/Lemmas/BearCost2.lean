import BearVerif.Lemmas.BearCost
/-! The bound of generated code is a constant of the hint alone. -/
namespace BearVerif.Bear

/-- worst-case items read by an expression, whatever it evaluates to -/
def Expr.cost (e : Expr) : Nat := max e.bound.1 e.bound.2

mutual
/-- **the constant fixed by the hint alone**: one item per container level reached (one
    key and one value for mappings), summed over the positions of fixed tuples and the
    members of unions -/
def levels : Hint → Nat
  | .any | .cls _ | .shallow _ | .literal _ | .typeOf _ => 0
  | .union hs => levelsSum hs
  | .tupleFixed hs => levelsTuple hs
  | .seq _ h | .reit _ h | .quasi _ h => if h.ignorable then 0 else 1 + levels h
  | .mapping _ k v => (if k.ignorable then 0 else 1 + levels k) + (if v.ignorable then 0 else 1 + levels v)
  | .annotated h _ => if h.ignorable then 0 else levels h
  | .generic _ bs => levelsSum bs
def levelsSum : List Hint → Nat
  | [] => 0
  | h :: hs => levels h + levelsSum hs
def levelsTuple : List Hint → Nat
  | [] => 0
  | h :: hs => (if h.ignorable then 0 else 1 + levels h) + levelsTuple hs
end

def Pith.cost : Pith → Nat
  | .var => 0
  | .complex e => e.cost
  | .assign e => e.cost

theorem raw_cost (p : Pith) (k : Nat) : (p.raw k).cost = p.cost := by
  cases p <;> simp [Pith.raw, Pith.cost, Expr.cost, Expr.bound]
theorem asg_cost (p : Pith) (k : Nat) : (p.asg k).cost = p.cost := by
  cases p <;> simp [Pith.asg, Pith.cost, Expr.cost, Expr.bound]
theorem down_cost (p : Pith) : p.down.cost = p.cost := by
  cases p <;> simp [Pith.down, Pith.cost]

theorem vale_cost (v : Vale) (t : Var) : (v.code t).cost = 0 := by
  induction v generalizing t with
  | isFn f => simp [Vale.code, Expr.cost, Expr.bound]
  | isAttr n v ih => have := ih (t.attr n); simp [Vale.code, Expr.cost, Expr.bound] at *; omega
  | isEqual a => simp [Vale.code, Expr.cost, Expr.bound]
  | isInstance cs => simp [Vale.code, Expr.cost, Expr.bound]
  | isSubclass cs => simp [Vale.code, Expr.cost, Expr.bound]
  | and v w ihv ihw => have := ihv t; have := ihw t; simp [Vale.code, Expr.cost, Expr.bound] at *; omega
  | or v w ihv ihw => have := ihv t; have := ihw t; simp [Vale.code, Expr.cost, Expr.bound] at *; omega
  | not v ih => have := ih t; simp [Vale.code, Expr.cost, Expr.bound] at *; omega

theorem vales_cost : ∀ (vs : List Vale) (t : Var), (valesCode vs t).cost = 0
  | [], t => by simp [valesCode, Expr.cost, Expr.bound]
  | [v], t => by simpa [valesCode] using vale_cost v t
  | v :: w :: vs, t => by
    have h1 := vale_cost v t
    have h2 := vales_cost (w :: vs) t
    simp [valesCode, Expr.cost, Expr.bound] at *; omega

def costSum (es : List Expr) : Nat := (es.map Expr.cost).sum

theorem and_cost_le (a b : Expr) : (Expr.and a b).cost ≤ a.cost + b.cost := by
  simp [Expr.cost, Expr.bound]; omega
theorem or_cost_le (a b : Expr) : (Expr.or a b).cost ≤ a.cost + b.cost := by
  simp [Expr.cost, Expr.bound]; omega

theorem orList_cost : ∀ (es : List Expr), (orList es).cost ≤ costSum es
  | [] => by simp [orList, Expr.cost, Expr.bound, costSum]
  | [e] => by simp [orList, costSum]
  | e :: e2 :: es => by
    have := orList_cost (e2 :: es)
    have h := or_cost_le e (orList (e2 :: es))
    simp [orList, costSum] at *; omega

theorem andList_cost : ∀ (es : List Expr), (andList es).cost ≤ costSum es
  | [] => by simp [andList, Expr.cost, Expr.bound, costSum]
  | [e] => by simp [andList, costSum]
  | e :: e2 :: es => by
    have := andList_cost (e2 :: es)
    have h := and_cost_le e (andList (e2 :: es))
    simp [andList, costSum] at *; omega

theorem costSum_append (a b : List Expr) : costSum (a ++ b) = costSum a + costSum b := by
  simp [costSum]

variable (conf : Conf)

theorem seqItem_cost (k : Nat) : (seqItem conf k).cost = 1 := by
  unfold seqItem; split <;> simp [Expr.cost, Expr.bound]

theorem literal_cost (ls : List (Nat × Atom)) (v : Var) :
    costSum (ls.map (fun l => Expr.eqAtom (.var v) l.2)) = 0 := by
  induction ls with
  | nil => simp [costSum]
  | cons l ls ih => simp [costSum, Expr.cost, Expr.bound] at *; exact ih

mutual
/-- the generated code reads at most `levels h` items beyond evaluating its pith -/
theorem gen_cost : ∀ (h : Hint) (p : Pith) (k : Nat), (gen conf h p k).cost ≤ p.cost + levels h
  | .any, p, k => by have := raw_cost p k; simp [gen, Expr.cost, Expr.bound, levels] at *; omega
  | .cls c, p, k => by have := raw_cost p k; simp [gen, Expr.cost, Expr.bound, levels] at *; omega
  | .shallow c, p, k => by have := raw_cost p k; simp [gen, Expr.cost, Expr.bound, levels] at *; omega
  | .typeOf cs, p, k => by have := asg_cost p k; simp [gen, Expr.cost, Expr.bound, levels] at *; omega
  | .literal ls, p, k => by
    have h1 := asg_cost p k
    have h2 := orList_cost (ls.map (fun l => Expr.eqAtom (.var (pv (p.idx k))) l.2))
    rw [literal_cost] at h2
    have h3 := and_cost_le (.isinst (p.asg k) (ls.map (·.1))) (orList (ls.map (fun l => Expr.eqAtom (.var (pv (p.idx k))) l.2)))
    have h4 : (Expr.isinst (p.asg k) (ls.map (·.1))).cost = p.cost := by simpa [Expr.cost, Expr.bound] using h1
    simp only [gen, levels]; omega
  | .tupleFixed hs, p, k => by
    have h1 := asg_cost p k
    simp only [gen, levels]
    split
    · simp [Expr.cost, Expr.bound] at *; omega
    · have h2 := andList_cost (.isinst (p.asg k) [cTuple] :: .lenEq (.var (pv (p.idx k))) hs.length :: genTuple conf hs (p.idx k) 0)
      have h3 := genTuple_cost hs (p.idx k) 0
      have h4 : (Expr.isinst (p.asg k) [cTuple]).cost = p.cost := by simpa [Expr.cost, Expr.bound] using h1
      have h5 : (Expr.lenEq (.var (pv (p.idx k))) hs.length).cost = 0 := by simp [Expr.cost, Expr.bound]
      simp only [costSum, List.map_cons, List.sum_cons] at h2
      simp only [costSum] at h3
      omega
  | .seq o h, p, k => by
    simp only [gen, levels]
    split
    · have := raw_cost p k; simp [Expr.cost, Expr.bound] at *; omega
    · have h1 := asg_cost p k
      have h2 := gen_cost h (.complex (seqItem conf (p.idx k))) (p.idx k)
      have h3 := seqItem_cost conf (p.idx k)
      simp [Pith.cost, Expr.cost, Expr.bound] at *; omega
  | .reit o h, p, k => by
    simp only [gen, levels]
    split
    · have := raw_cost p k; simp [Expr.cost, Expr.bound] at *; omega
    · have h1 := asg_cost p k
      have h2 := gen_cost h (.complex (.nextIter (.var (pv (p.idx k))))) (p.idx k)
      simp [Pith.cost, Expr.cost, Expr.bound] at *; omega
  | .quasi o h, p, k => by
    simp only [gen, levels]
    split
    · have := raw_cost p k; simp [Expr.cost, Expr.bound] at *; omega
    · have h1 := asg_cost p k
      have h2 := gen_cost h .var (p.idx k + 1)
      have h3 := seqItem_cost conf (p.idx k)
      simp [Pith.cost, Expr.cost, Expr.bound] at *; omega
  | .mapping o kh vh, p, k => by
    simp only [gen, levels]
    have h0 := raw_cost p k
    have h1 := asg_cost p k
    cases hk : kh.ignorable <;> cases hv : vh.ignorable <;> simp only [Bool.and_true, Bool.and_false, Bool.false_eq_true, ↓reduceIte]
    · have h2 := gen_cost kh .var (p.idx k + 1)
      have h3 := gen_cost vh (.complex (.idxKey (.var (pv (p.idx k))) (pv (p.idx k + 1)))) (p.idx k + 1)
      simp [Pith.cost, Expr.cost, Expr.bound] at *; omega
    · have h2 := gen_cost kh (.complex (.nextIter (.var (pv (p.idx k))))) (p.idx k)
      simp [Pith.cost, Expr.cost, Expr.bound] at *; omega
    · have h2 := gen_cost vh (.complex (.nextIterValues (.var (pv (p.idx k))))) (p.idx k)
      simp [Pith.cost, Expr.cost, Expr.bound] at *; omega
    · simp [Expr.cost, Expr.bound] at *; omega
  | .annotated h vs, p, k => by
    simp only [gen, levels]
    split
    · cases p with
      | var => have := vales_cost vs (pv k); simp [Pith.cost] at *; omega
      | complex e =>
        have := vales_cost vs (pv (Pith.idx (.complex e) k))
        have h2 := and_cost_le (.bind (pv (Pith.idx (.complex e) k)) e) (valesCode vs (pv (Pith.idx (.complex e) k)))
        simp [Pith.cost, Expr.cost, Expr.bound] at *; omega
      | assign e =>
        have := vales_cost vs (pv (Pith.idx (.assign e) k))
        have h2 := and_cost_le (.bind (pv (Pith.idx (.assign e) k)) e) (valesCode vs (pv (Pith.idx (.assign e) k)))
        simp [Pith.cost, Expr.cost, Expr.bound] at *; omega
    · have h1 := gen_cost h p.down (p.idx k)
      have h2 := vales_cost vs (pv (p.idx k))
      have h3 := and_cost_le (gen conf h p.down (p.idx k)) (valesCode vs (pv (p.idx k)))
      rw [down_cost] at h1
      omega
  | .union hs, p, k => by
    simp only [gen, levels]
    have h0 := raw_cost p k
    have h1 := asg_cost p k
    have hor := orList_cost ((if (hs.filterMap Hint.cls?).isEmpty then [] else
      [Expr.isinst (if (hs.filter (fun h => h.cls?.isNone)).isEmpty then p.raw k else p.asg k) (hs.filterMap Hint.cls?)]) ++
      genUnion conf hs (if (hs.filterMap Hint.cls?).isEmpty then p.down else .var) (p.idx k))
    rw [costSum_append] at hor
    refine Nat.le_trans hor ?_
    split
    · have := genUnion_cost hs p.down (p.idx k)
      rw [down_cost] at this
      simp [costSum] at *; omega
    · have := genUnion_cost hs .var (p.idx k)
      split <;> simp [costSum, Pith.cost, Expr.cost, Expr.bound] at * <;> omega
  | .generic c bs, p, k => by
    have h1 := asg_cost p k
    have h2 := andList_cost (.isinst (p.asg k) [c] :: genBases conf bs (p.idx k))
    have h3 := genBases_cost bs (p.idx k)
    have h4 : (Expr.isinst (p.asg k) [c]).cost = p.cost := by simpa [Expr.cost, Expr.bound] using h1
    simp only [costSum, List.map_cons, List.sum_cons] at h2
    simp only [costSum] at h3
    simp only [gen, levels]; omega
theorem genBases_cost : ∀ (hs : List Hint) (k : Nat), costSum (genBases conf hs k) ≤ levelsSum hs
  | [], k => by simp [genBases, costSum, levelsSum]
  | h :: hs, k => by
    have h1 := gen_cost h .var k
    have h2 := genBases_cost hs k
    simp [genBases, costSum, levelsSum, Pith.cost] at *; omega
theorem genUnion_cost : ∀ (hs : List Hint) (q : Pith) (k : Nat), costSum (genUnion conf hs q k) ≤ q.cost + levelsSum hs
  | [], q, k => by simp [genUnion, costSum]
  | h :: hs, q, k => by
    simp only [genUnion, levelsSum]
    split
    · have := genUnion_cost hs q k; omega
    · have h1 := gen_cost h q k
      have h2 := genUnion_cost hs .var k
      simp [costSum, Pith.cost] at *; omega
theorem genTuple_cost : ∀ (hs : List Hint) (k i : Nat), costSum (genTuple conf hs k i) ≤ levelsTuple hs
  | [], k, i => by simp [genTuple, costSum, levelsTuple]
  | h :: hs, k, i => by
    simp only [genTuple, levelsTuple]
    split
    · have := genTuple_cost hs k (i + 1); omega
    · have h1 := gen_cost h (.complex (.idxConst (.var (pv k)) i)) k
      have h2 := genTuple_cost hs k (i + 1)
      simp [costSum, Pith.cost, Expr.cost, Expr.bound] at *; omega
end

end BearVerif.Bear
