import BearVerif.Core.BearErr
/-!
  Cost of the explanation path (C09, second half: "the violation message is built at a cost independent of the
  container's size"). `causeRC` is `hasCause` instrumented with the number of container ITEMS the finder looks at under
  the default O1 strategy (short-circuit evaluation: what is not evaluated is not read). `causeRC_fst`: the
  instrumented finder finds exactly what `hasCause` finds. `causeRC_le`: the items read are bounded by
  `causeBound h`, a function of the HINT alone.
-/
namespace BearVerif.Bear

variable (W : World) (conf : Conf) (r : Nat)

/-- `a || b` with short-circuit cost -/
def orC (a : Bool × Nat) (b : Bool × Nat) : Bool × Nat := if a.1 then (true, a.2) else (b.1, a.2 + b.2)
/-- `a && b` with short-circuit cost -/
def andC (a : Bool × Nat) (b : Bool × Nat) : Bool × Nat := if a.1 then (b.1, a.2 + b.2) else (false, a.2)
/-- a free test (class tests, lengths, emptiness: no item is read) -/
def free (b : Bool) : Bool × Nat := (b, 0)
/-- one item read, then the finder on it -/
def item (c : Bool × Nat) : Bool × Nat := (c.1, c.2 + 1)

mutual
def causeRC : Hint → Obj → Bool × Nat
  | .any, _ => free false
  | .cls c, x | .shallow c, x => free (!W.sub x.cls c)
  | .union hs, x => unionRC hs x
  | .literal ls, x => free (if ls.any (fun l => W.sub x.cls l.1 && x.atom.pyEq l.2) then false else true)
  | .tupleFixed hs, x =>
      orC (free (!W.sub x.cls cTuple)) (orC (free (x.items.length != hs.length)) (zipRC hs x.items))
  | .seq o h, x =>
      orC (free (!W.sub x.cls o)) (andC (free (!x.items.isEmpty && !h.ignorable && W.sub x.cls cCollection))
        (match x.items[pickIdx conf r x.items.length]? with | none => free false | some y => item (causeRC h y)))
  | .reit o h, x =>
      orC (free (!W.sub x.cls o)) (andC (free (!x.items.isEmpty && !h.ignorable && W.sub x.cls cCollection))
        (match x.items.head? with | none => free false | some y => item (causeRC h y)))
  | .quasi o h, x =>
      orC (free (!W.sub x.cls o)) (andC (free (W.sub x.cls cCollection && !x.items.isEmpty && !h.ignorable))
        (match (if W.sub x.cls cSequence then x.items[pickIdx conf r x.items.length]? else x.items.head?) with
         | none => free false | some y => item (causeRC h y)))
  | .mapping o k v, x =>
      orC (free (!W.sub x.cls o)) (andC (free (!x.items.isEmpty))
        (match x.items.head?, x.vals.head? with
         | some k0, some v0 =>
             -- the first (key, value) pair is read once; each side is examined only if its hint is unignorable
             item (item (orC (andC (free (!k.ignorable)) (causeRC k k0)) (andC (free (!v.ignorable)) (causeRC v v0))))
         | _, _ => free false))
  | .typeOf cs, x => free (!typeOfTest W cs x)
  | .annotated h vs, x => orC (andC (free (!h.ignorable)) (causeRC h x)) (free (!vs.all (fun v => v.holds W x)))
  | .generic c bs, x => orC (free (!W.sub x.cls c)) (basesRC bs x)
def unionRC : List Hint → Obj → Bool × Nat
  | [], _ => free true
  | h :: hs, x =>
    if h.ignorable then unionRC hs x
    else match h.origin? with
      | some o => if !W.sub x.cls o then unionRC hs x else andC (causeRC h x) (unionRC hs x)
      | none => andC (causeRC h x) (unionRC hs x)
def basesRC : List Hint → Obj → Bool × Nat
  | [], _ => free false
  | h :: hs, x => orC (causeRC h x) (basesRC hs x)
def zipRC : List Hint → List Obj → Bool × Nat
  | h :: hs, y :: ys => orC (andC (free (!h.ignorable)) (item (causeRC h y))) (zipRC hs ys)
  | _, _ => free false
end

mutual
/-- items the explanation path may read, as a function of the hint alone -/
def causeBound : Hint → Nat
  | .union hs => causeBoundL hs
  | .tupleFixed hs => hs.length + causeBoundL hs
  | .seq _ h | .reit _ h | .quasi _ h => 1 + causeBound h
  | .mapping _ k v => 2 + causeBound k + causeBound v
  | .annotated h _ => causeBound h
  | .generic _ bs => causeBoundL bs
  | _ => 0
def causeBoundL : List Hint → Nat
  | [] => 0
  | h :: hs => causeBound h + causeBoundL hs
end

@[simp] theorem orC_fst (a b : Bool × Nat) : (orC a b).1 = (a.1 || b.1) := by
  unfold orC; cases a.1 <;> simp
@[simp] theorem andC_fst (a b : Bool × Nat) : (andC a b).1 = (a.1 && b.1) := by
  unfold andC; cases a.1 <;> simp
@[simp] theorem free_fst (b : Bool) : (free b).1 = b := rfl
@[simp] theorem item_fst (c : Bool × Nat) : (item c).1 = c.1 := rfl
theorem orC_snd_le (a b : Bool × Nat) : (orC a b).2 ≤ a.2 + b.2 := by
  unfold orC; split <;> simp
theorem andC_snd_le (a b : Bool × Nat) : (andC a b).2 ≤ a.2 + b.2 := by
  unfold andC; split <;> simp
@[simp] theorem free_snd (b : Bool) : (free b).2 = 0 := rfl
@[simp] theorem item_snd (c : Bool × Nat) : (item c).2 = c.2 + 1 := rfl

end BearVerif.Bear

namespace BearVerif.Bear
variable (W : World) (conf : Conf) (r : Nat)

mutual
theorem causeRC_fst : ∀ (h : Hint) (x : Obj), (causeRC W conf r h x).1 = hasCause W conf r .O1 h x
  | .any, _ => by simp [causeRC, hasCause]
  | .cls _, _ => by simp [causeRC, hasCause]
  | .shallow _, _ => by simp [causeRC, hasCause]
  | .union hs, x => by simp only [causeRC, hasCause]; exact unionRC_fst hs x
  | .literal _, _ => by simp [causeRC, hasCause]
  | .tupleFixed hs, x => by
    simp only [causeRC, hasCause, orC_fst, free_fst]; rw [zipRC_fst hs x.items]
  | .seq o h, x => by
    simp only [causeRC, hasCause, orC_fst, andC_fst, free_fst]
    cases x.items[pickIdx conf r x.items.length]? with
    | none => simp
    | some y => simp [causeRC_fst h y]
  | .reit o h, x => by
    simp only [causeRC, hasCause, orC_fst, andC_fst, free_fst]
    cases x.items.head? with
    | none => simp
    | some y => simp [causeRC_fst h y]
  | .quasi o h, x => by
    simp only [causeRC, hasCause, orC_fst, andC_fst, free_fst]
    cases (if W.sub x.cls cSequence then x.items[pickIdx conf r x.items.length]? else x.items.head?) with
    | none => simp
    | some y => simp [causeRC_fst h y]
  | .mapping o k v, x => by
    simp only [causeRC, hasCause, orC_fst, andC_fst, free_fst]
    cases x.items.head? with
    | none => simp
    | some k0 =>
      cases x.vals.head? with
      | none => simp
      | some v0 => simp [causeRC_fst k k0, causeRC_fst v v0]
  | .typeOf _, _ => by simp [causeRC, hasCause]
  | .annotated h vs, x => by simp [causeRC, hasCause, causeRC_fst h x]
  | .generic c bs, x => by simp only [causeRC, hasCause, orC_fst, free_fst]; rw [basesRC_fst bs x]
theorem unionRC_fst : ∀ (hs : List Hint) (x : Obj), (unionRC W conf r hs x).1 = unionCause W conf r .O1 hs x
  | [], _ => by simp [unionRC, unionCause]
  | h :: hs, x => by
    have ih := unionRC_fst hs x
    have hh := causeRC_fst h x
    simp only [unionRC, unionCause]
    by_cases hi : h.ignorable = true
    · simp only [hi, if_true]; exact ih
    · simp only [hi, if_false]
      cases ho : h.origin? with
      | none => simp [hh, ih]
      | some o =>
        by_cases hsub : W.sub x.cls o = true
        · simp [hsub, hh, ih]
        · simp [hsub, ih]
theorem basesRC_fst : ∀ (hs : List Hint) (x : Obj), (basesRC W conf r hs x).1 = basesCause W conf r .O1 hs x
  | [], _ => by simp [basesRC, basesCause]
  | h :: hs, x => by simp [basesRC, basesCause, causeRC_fst h x, basesRC_fst hs x]
theorem zipRC_fst : ∀ (hs : List Hint) (ys : List Obj), (zipRC W conf r hs ys).1 = zipCause W conf r .O1 hs ys
  | [], _ => by simp [zipRC, zipCause]
  | _ :: _, [] => by simp [zipRC, zipCause]
  | h :: hs, y :: ys => by simp [zipRC, zipCause, causeRC_fst h y, zipRC_fst hs ys]
end

mutual
theorem causeRC_le : ∀ (h : Hint) (x : Obj), (causeRC W conf r h x).2 ≤ causeBound h
  | .any, _ => by simp [causeRC, causeBound]
  | .cls _, _ => by simp [causeRC, causeBound]
  | .shallow _, _ => by simp [causeRC, causeBound]
  | .union hs, x => by simp only [causeRC, causeBound]; exact unionRC_le hs x
  | .literal _, _ => by simp [causeRC, causeBound]
  | .tupleFixed hs, x => by
    simp only [causeRC, causeBound]
    have h1 := orC_snd_le (free (!W.sub x.cls cTuple)) (orC (free (x.items.length != hs.length)) (zipRC W conf r hs x.items))
    have h2 := orC_snd_le (free (x.items.length != hs.length)) (zipRC W conf r hs x.items)
    have h3 := zipRC_le hs x.items
    simp only [free_snd] at h1 h2; omega
  | .seq o h, x => by
    simp only [causeRC, causeBound]
    refine Nat.le_trans (orC_snd_le _ _) (Nat.le_trans (Nat.add_le_add_left (andC_snd_le _ _) _) ?_)
    simp only [free_snd]
    cases x.items[pickIdx conf r x.items.length]? with
    | none => simp
    | some y => have := causeRC_le h y; simp only [item_snd]; omega
  | .reit o h, x => by
    simp only [causeRC, causeBound]
    refine Nat.le_trans (orC_snd_le _ _) (Nat.le_trans (Nat.add_le_add_left (andC_snd_le _ _) _) ?_)
    simp only [free_snd]
    cases x.items.head? with
    | none => simp
    | some y => have := causeRC_le h y; simp only [item_snd]; omega
  | .quasi o h, x => by
    simp only [causeRC, causeBound]
    refine Nat.le_trans (orC_snd_le _ _) (Nat.le_trans (Nat.add_le_add_left (andC_snd_le _ _) _) ?_)
    simp only [free_snd]
    cases (if W.sub x.cls cSequence then x.items[pickIdx conf r x.items.length]? else x.items.head?) with
    | none => simp
    | some y => have := causeRC_le h y; simp only [item_snd]; omega
  | .mapping o k v, x => by
    simp only [causeRC, causeBound]
    refine Nat.le_trans (orC_snd_le _ _) (Nat.le_trans (Nat.add_le_add_left (andC_snd_le _ _) _) ?_)
    simp only [free_snd]
    cases x.items.head? with
    | none => simp
    | some k0 =>
      cases x.vals.head? with
      | none => simp
      | some v0 =>
        have hk := causeRC_le k k0
        have hv := causeRC_le v v0
        have h1 := orC_snd_le (andC (free (!k.ignorable)) (causeRC W conf r k k0)) (andC (free (!v.ignorable)) (causeRC W conf r v v0))
        have h2 := andC_snd_le (free (!k.ignorable)) (causeRC W conf r k k0)
        have h3 := andC_snd_le (free (!v.ignorable)) (causeRC W conf r v v0)
        simp only [free_snd] at h2 h3
        simp only [item_snd]; omega
  | .typeOf _, _ => by simp [causeRC, causeBound]
  | .annotated h vs, x => by
    simp only [causeRC, causeBound]
    have h1 := orC_snd_le (andC (free (!h.ignorable)) (causeRC W conf r h x)) (free (!vs.all (fun v => v.holds W x)))
    have h2 := andC_snd_le (free (!h.ignorable)) (causeRC W conf r h x)
    have h3 := causeRC_le h x
    simp only [free_snd] at h1 h2; omega
  | .generic c bs, x => by
    simp only [causeRC, causeBound]
    have h1 := orC_snd_le (free (!W.sub x.cls c)) (basesRC W conf r bs x)
    have h2 := basesRC_le bs x
    simp only [free_snd] at h1; omega
theorem unionRC_le : ∀ (hs : List Hint) (x : Obj), (unionRC W conf r hs x).2 ≤ causeBoundL hs
  | [], _ => by simp [unionRC, causeBoundL]
  | h :: hs, x => by
    have ih := unionRC_le hs x
    have hh := causeRC_le h x
    have ha := andC_snd_le (causeRC W conf r h x) (unionRC W conf r hs x)
    simp only [unionRC, causeBoundL]
    split
    · omega
    · split
      · split
        · omega
        · omega
      · omega
theorem basesRC_le : ∀ (hs : List Hint) (x : Obj), (basesRC W conf r hs x).2 ≤ causeBoundL hs
  | [], _ => by simp [basesRC, causeBoundL]
  | h :: hs, x => by
    have ih := basesRC_le hs x
    have hh := causeRC_le h x
    have ha := orC_snd_le (causeRC W conf r h x) (basesRC W conf r hs x)
    simp only [basesRC, causeBoundL]; omega
theorem zipRC_le : ∀ (hs : List Hint) (ys : List Obj), (zipRC W conf r hs ys).2 ≤ hs.length + causeBoundL hs
  | [], _ => by simp [zipRC, causeBoundL]
  | _ :: _, [] => by simp [zipRC]
  | h :: hs, y :: ys => by
    have ih := zipRC_le hs ys
    have hh := causeRC_le h y
    have h1 := orC_snd_le (andC (free (!h.ignorable)) (item (causeRC W conf r h y))) (zipRC W conf r hs ys)
    have h2 := andC_snd_le (free (!h.ignorable)) (item (causeRC W conf r h y))
    simp only [free_snd, item_snd] at h2
    simp only [zipRC, causeBoundL, List.length_cons]; omega
end

end BearVerif.Bear
