import BearVerif.Core.Memo
/-!
  C14 — helper lemmas: table soundness is preserved by every operation of every
  discipline (the invariant of DESIGN §4 C14: "every cached pair `(k, v)` has
  `v = f k'` for all `k'` with `keyEq k k'`").
-/
namespace BearVerif.Memo

variable {K A V : Type}

/-! ### tables -/

theorem find_mem {keyEq : K → K → Bool} {t : Table K A} {q : K} {v : A} (h : find keyEq t q = some v) :
    ∃ k, (k, v) ∈ t ∧ keyEq k q = true := by
  induction t with
  | nil => simp [find] at h
  | cons e t ih =>
    obtain ⟨k, a⟩ := e
    simp only [find] at h
    by_cases hk : keyEq k q = true
    · simp only [hk, ↓reduceIte, Option.some.injEq] at h
      exact ⟨k, by simp [h], hk⟩
    · simp only [hk, Bool.false_eq_true, ↓reduceIte] at h
      obtain ⟨k', hm, he⟩ := ih h
      exact ⟨k', List.mem_cons_of_mem _ hm, he⟩

theorem find_sound {f : K → A} {keyEq : K → K → Bool} {t : Table K A} (hs : Sound f keyEq t) {q : K} {v : A}
    (h : find keyEq t q = some v) : v = f q := by
  obtain ⟨k, hm, he⟩ := find_mem h
  exact hs k v hm q he

theorem sound_nil (f : K → A) (keyEq : K → K → Bool) : Sound f keyEq [] := by
  intro k v h; simp at h

theorem sound_cons {f : K → A} {keyEq : K → K → Bool} (hc : KeyCongruent f keyEq) {t : Table K A}
    (hs : Sound f keyEq t) (q : K) : Sound f keyEq ((q, f q) :: t) := by
  intro k v hm k' he
  rcases List.mem_cons.mp hm with h | h
  · cases h; exact hc _ _ he
  · exact hs k v h k' he

/-! ### `callable_cached` -/

/-- both dictionaries of a `callable_cached` closure are sound -/
def SoundE (f : K → A) (keyEq : K → K → Bool) (s : Cached K A) : Prop :=
  Sound f keyEq s.vals ∧ Sound f keyEq s.excs

theorem callCached_spec {f : K → A} {isExc : A → Bool} {hashable : K → Bool} {keyEq : K → K → Bool}
    (hc : KeyCongruent f keyEq) {s : Cached K A} (hs : SoundE f keyEq s) (q : K) :
    (callCached f isExc hashable keyEq s q).1 = f q ∧ SoundE f keyEq (callCached f isExc hashable keyEq s q).2 := by
  unfold callCached
  split
  · split
    · next e he => exact ⟨find_sound hs.2 he, hs⟩
    · split
      · next v hv => exact ⟨find_sound hs.1 hv, hs⟩
      · split
        · exact ⟨rfl, hs.1, sound_cons hc hs.2 q⟩
        · exact ⟨rfl, sound_cons hc hs.1 q, hs.2⟩
  · exact ⟨rfl, hs⟩

theorem stepE_sound {f : K → A} {isExc : A → Bool} {hashable : K → Bool} {keyEq : K → K → Bool} {clearable : Bool}
    (hc : KeyCongruent f keyEq) {s : Cached K A} (hs : SoundE f keyEq s) (op : Op K) :
    SoundE f keyEq (stepE f isExc hashable keyEq clearable s op) := by
  cases op with
  | query q => exact (callCached_spec hc hs q).2
  | failingQuery q => exact (callCached_spec hc hs q).2
  | gc o => exact hs
  | redefine c => exact hs
  | clearCaches =>
    simp only [stepE]
    split
    · exact ⟨sound_nil _ _, sound_nil _ _⟩
    · exact hs

theorem foldl_stepE_sound {f : K → A} {isExc : A → Bool} {hashable : K → Bool} {keyEq : K → K → Bool} {clearable : Bool}
    (hc : KeyCongruent f keyEq) (hist : List (Op K)) {s : Cached K A} (hs : SoundE f keyEq s) :
    SoundE f keyEq (hist.foldl (stepE f isExc hashable keyEq clearable) s) := by
  induction hist generalizing s with
  | nil => exact hs
  | cons op r ih => exact ih (stepE_sound hc hs op)

theorem runE_sound {f : K → A} {isExc : A → Bool} {hashable : K → Bool} {keyEq : K → K → Bool} {clearable : Bool}
    (hc : KeyCongruent f keyEq) (hist : List (Op K)) : SoundE f keyEq (runE f isExc hashable keyEq clearable hist) :=
  foldl_stepE_sound hc hist ⟨sound_nil _ _, sound_nil _ _⟩

/-! ### the checker pipeline -/

/-- invariant of the repr table under a predicate `P` on hints: every entry is filed under its own repr
    and satisfies `P` -/
def ReprInv (L : Lang V) (P : V → Prop) (t : Table String V) : Prop :=
  ∀ r v, (r, v) ∈ t → r = L.repr v ∧ P v

/-- the repaired coercion returns the passed hint or one that `==` it — whatever the table holds -/
theorem coerce_checked (L : Lang V) (t : Table String V) (v : V) :
    (coerce L true t v).1 = v ∨ L.pyEq (coerce L true t v).1 v = true := by
  unfold coerce
  split
  · split
    · exact Or.inl rfl
    · next v0 _ =>
      by_cases h : L.pyEq v0 v = true
      · simp [h]
      · simp [h]
  · exact Or.inl rfl

/-- the coercion as found returns the passed hint or one that `==` it PROVIDED `repr` is faithful on the
    hints involved -/
theorem coerce_raw {L : Lang V} {P : V → Prop} (hP : ∀ v v', P v → P v' → L.repr v = L.repr v' → L.pyEq v v' = true)
    {t : Table String V} (ht : ReprInv L P t) {v : V} (hv : P v) (checked : Bool) :
    ((coerce L checked t v).1 = v ∨ L.pyEq (coerce L checked t v).1 v = true) ∧ ReprInv L P (coerce L checked t v).2 := by
  have hcons : ReprInv L P ((L.repr v, v) :: t) := by
    intro r w hm
    rcases List.mem_cons.mp hm with h | h
    · cases h; exact ⟨rfl, hv⟩
    · exact ht r w h
  unfold coerce
  split
  · split
    · exact ⟨Or.inl rfl, hcons⟩
    · next v0 h0 =>
      obtain ⟨k, hm, hk⟩ := find_mem h0
      have hk' : k = L.repr v := by simpa using hk
      obtain ⟨hr, hp0⟩ := ht k v0 hm
      have heq : L.pyEq v0 v = true := hP v0 v hp0 hv (by rw [← hr, hk'])
      split
      · exact ⟨Or.inl rfl, hcons⟩
      · exact ⟨Or.inr heq, ht⟩
  · exact ⟨Or.inl rfl, ht⟩

theorem ckey_congr {L : Lang V} {f : CKey V → A} (hc : KeyCongruent f (ckeyEq L)) {v' v : V} (n : Nat)
    (h : v' = v ∨ L.pyEq v' v = true) : f (v', n) = f (v, n) := by
  rcases h with h | h
  · rw [h]
  · exact hc (v', n) (v, n) (by simp [ckeyEq, h])

/-- one `make_func_checker` call from a sound state whose coercion is harmless -/
theorem askBear_spec {L : Lang V} {checked : Bool} {f : CKey V → A} (hc : KeyCongruent f (ckeyEq L))
    {s : BearState V A} (hs : Sound f (ckeyEq L) s.checker) (q : CKey V)
    (hco : (coerce L checked s.reprT q.1).1 = q.1 ∨ L.pyEq (coerce L checked s.reprT q.1).1 q.1 = true) :
    (askBear L checked f s q).1 = f q ∧ Sound f (ckeyEq L) (askBear L checked f s q).2.checker := by
  have hq : f ((coerce L checked s.reprT q.1).1, q.2) = f q := ckey_congr hc q.2 hco
  unfold askBear
  split
  · split
    · next c h => exact ⟨find_sound hs h, hs⟩
    · simp only [hq]
      exact ⟨trivial, sound_cons hc hs q⟩
  · simp only [hq]
    exact ⟨trivial, hs⟩

theorem askBear_reprT (L : Lang V) (checked : Bool) (f : CKey V → A) (s : BearState V A) (q : CKey V) :
    (askBear L checked f s q).2.reprT = s.reprT ∨
    (askBear L checked f s q).2.reprT = (coerce L checked s.reprT q.1).2 := by
  unfold askBear
  split
  · split
    · exact Or.inl rfl
    · exact Or.inr rfl
  · exact Or.inr rfl

/-! ### context-relative hints -/

theorem foldl_and_not (visit : List Bool) (b : Bool) :
    visit.foldl (fun acc rel => acc && !rel) b = (b && !visit.any id) := by
  induction visit generalizing b with
  | nil => simp
  | cons r t ih =>
    simp only [List.foldl_cons, ih, List.any_cons, id]
    cases b <;> cases r <;> simp

/-- the accumulated flag says exactly "no hint of the tree is context-relative", whatever the visiting order -/
theorem treeCacheable_eq (visit : List Bool) : treeCacheable visit = !mentionsRel visit := by
  simp [treeCacheable, mentionsRel, foldl_and_not]

/-- invariant of a table shared by all contexts: a cached pair answers every key it matches in EVERY context -/
def SoundC (L : Lang V) (f : Nat → CKey V → A) (t : Table (CKey V) A) : Prop :=
  ∀ k v, (k, v) ∈ t → ∀ k', ckeyEq L k k' = true → ∀ c, v = f c k'

/-- every key of the table is context-free -/
def FreeKeys (visit : V → List Bool) (t : Table (CKey V) A) : Prop :=
  ∀ k v, (k, v) ∈ t → mentionsRel (visit k.1) = false

theorem askBearC_spec {L : Lang V} {visit : V → List Bool} {checked : Bool} {f : Nat → CKey V → A}
    (hc : ∀ c, KeyCongruent (f c) (ckeyEq L))
    (hrel : ∀ a b, L.pyEq a b = true → mentionsRel (visit a) = mentionsRel (visit b))
    (hctx : ∀ c c' k, mentionsRel (visit k.1) = false → f c k = f c' k)
    {s : BearState V A} (hs : SoundC L f s.checker) (c : Nat) (q : CKey V)
    (hco : (coerce L checked s.reprT q.1).1 = q.1 ∨ L.pyEq (coerce L checked s.reprT q.1).1 q.1 = true) :
    (askBearC L visit treeCacheable checked f s c q).1 = f c q ∧
    SoundC L f (askBearC L visit treeCacheable checked f s c q).2.checker := by
  have hq : f c ((coerce L checked s.reprT q.1).1, q.2) = f c q := ckey_congr (hc c) q.2 hco
  unfold askBearC
  split
  · split
    · next a h =>
      obtain ⟨k, hm, he⟩ := find_mem h
      exact ⟨hs k a hm q he c, hs⟩
    · refine ⟨hq, ?_⟩
      simp only []
      split
      · next hacc =>
        have hfree0 : mentionsRel (visit (coerce L checked s.reprT q.1).1) = false := by
          rw [treeCacheable_eq] at hacc; simpa using hacc
        have hfreeq : mentionsRel (visit q.1) = false := by
          rcases hco with h | h
          · rw [← h]; exact hfree0
          · rw [← hrel _ _ h]; exact hfree0
        intro k v hm k' he c'
        rcases List.mem_cons.mp hm with h | h
        · cases h
          have hpe : L.pyEq q.1 k'.1 = true := by
            simp only [ckeyEq, Bool.and_eq_true] at he; exact he.1
          have hfreek : mentionsRel (visit k'.1) = false := by rw [← hrel _ _ hpe]; exact hfreeq
          rw [hq, hc c q k' he]
          exact hctx c c' k' hfreek
        · exact hs k v h k' he c'
      · exact hs
  · exact ⟨hq, hs⟩

theorem askBearC_freeKeys {L : Lang V} {visit : V → List Bool} {checked : Bool} {f : Nat → CKey V → A}
    (hrel : ∀ a b, L.pyEq a b = true → mentionsRel (visit a) = mentionsRel (visit b))
    {s : BearState V A} (hs : FreeKeys visit s.checker) (c : Nat) (q : CKey V)
    (hco : (coerce L checked s.reprT q.1).1 = q.1 ∨ L.pyEq (coerce L checked s.reprT q.1).1 q.1 = true) :
    FreeKeys visit (askBearC L visit treeCacheable checked f s c q).2.checker := by
  unfold askBearC
  split
  · split
    · exact hs
    · simp only []
      split
      · next hacc =>
        have hfree0 : mentionsRel (visit (coerce L checked s.reprT q.1).1) = false := by
          rw [treeCacheable_eq] at hacc; simpa using hacc
        have hfreeq : mentionsRel (visit q.1) = false := by
          rcases hco with h | h
          · rw [← h]; exact hfree0
          · rw [← hrel _ _ h]; exact hfree0
        intro k v hm
        rcases List.mem_cons.mp hm with h | h
        · cases h; exact hfreeq
        · exact hs k v h
      · exact hs
  · exact hs

/-- a history of contextual queries keeps both invariants (repaired coercion) -/
theorem foldl_stepC_inv {L : Lang V} {visit : V → List Bool} {f : Nat → CKey V → A}
    (hc : ∀ c, KeyCongruent (f c) (ckeyEq L))
    (hrel : ∀ a b, L.pyEq a b = true → mentionsRel (visit a) = mentionsRel (visit b))
    (hctx : ∀ c c' k, mentionsRel (visit k.1) = false → f c k = f c' k)
    (hist : List (COp V)) {s : BearState V A} (hs : SoundC L f s.checker) :
    SoundC L f (hist.foldl (stepC L visit treeCacheable true f) s).checker := by
  induction hist generalizing s with
  | nil => exact hs
  | cons op r ih =>
    apply ih
    cases op with
    | ask c q => exact (askBearC_spec hc hrel hctx hs c q (coerce_checked L _ _)).2
    | clearCaches => intro k v h; simp [stepC, BearState.empty] at h

theorem foldl_stepC_free {L : Lang V} {visit : V → List Bool} {f : Nat → CKey V → A}
    (hrel : ∀ a b, L.pyEq a b = true → mentionsRel (visit a) = mentionsRel (visit b))
    (hist : List (COp V)) {s : BearState V A} (hs : FreeKeys visit s.checker) :
    FreeKeys visit (hist.foldl (stepC L visit treeCacheable true f) s).checker := by
  induction hist generalizing s with
  | nil => exact hs
  | cons op r ih =>
    apply ih
    cases op with
    | ask c q => exact askBearC_freeKeys hrel hs c q (coerce_checked L _ _)
    | clearCaches => intro k v h; simp [stepC, BearState.empty] at h

/-! ### the id discipline -/

theorem heapGet_heapDel_ne (h : Heap V) {a x : Nat} (hne : x ≠ a) : heapGet (heapDel h a) x = heapGet h x := by
  induction h with
  | nil => rfl
  | cons e h ih =>
    obtain ⟨b, v⟩ := e
    simp only [heapDel]
    by_cases hb : b = a
    · subst hb
      simp only [beq_self_eq_true, ↓reduceIte, heapGet]
      have : (b == x) = false := by simp; exact fun h => hne h.symm
      simp [this, ih]
    · have : (b == a) = false := by simp [hb]
      simp only [this, Bool.false_eq_true, ↓reduceIte, heapGet, ih]

theorem find_idKey_mem {t : Table (Nat × Nat) A} {a b : Nat} {r : A} (h : find idKeyEq t (a, b) = some r) :
    ((a, b), r) ∈ t := by
  obtain ⟨k, hm, hk⟩ := find_mem h
  obtain ⟨k1, k2⟩ := k
  simp only [idKeyEq, Bool.and_eq_true, beq_iff_eq] at hk
  obtain ⟨h1, h2⟩ := hk
  subst h1; subst h2
  exact hm

/-- every entry of the id table was computed for the two objects that live at its addresses NOW -/
def IdInv (g : V → V → A) (s : IdState V A) : Prop :=
  ∀ a b r, ((a, b), r) ∈ s.tbl → ∃ va vb, heapGet s.heap a = some va ∧ heapGet s.heap b = some vb ∧ r = g va vb

theorem keyed_false {t : Table (Nat × Nat) A} {x : Nat} (h : keyed t x = false) {a b : Nat} {r : A}
    (hm : ((a, b), r) ∈ t) : a ≠ x ∧ b ≠ x := by
  simp only [keyed, List.any_eq_false] at h
  have := h _ hm
  simp only [Bool.or_eq_true, beq_iff_eq, not_or] at this
  exact this

/-- dropping an address that no entry uses keeps the invariant -/
theorem idInv_drop_unkeyed {g : V → V → A} {s : IdState V A} (hs : IdInv g s) {x : Nat} (hk : keyed s.tbl x = false) :
    IdInv g { s with heap := heapDel s.heap x } := by
  intro a b r hm
  obtain ⟨va, vb, ha, hb, hr⟩ := hs a b r hm
  obtain ⟨hax, hbx⟩ := keyed_false hk hm
  exact ⟨va, vb, by simp [heapGet_heapDel_ne _ hax, ha], by simp [heapGet_heapDel_ne _ hbx, hb], hr⟩

theorem stepI_inv {pinned : Bool} {g : V → V → A} {s : IdState V A} (hs : IdInv g s) (op : IdOp V)
    (hok : pinned = true ∨ isDrop op = false) : IdInv g (stepI pinned g s op).1 := by
  cases op with
  | new x v =>
    simp only [stepI]
    split
    · exact hs
    · next hfree =>
      intro a b r hm
      obtain ⟨va, vb, ha, hb, hr⟩ := hs a b r hm
      have hax : (x == a) = false := by
        cases hxa : (x == a) with
        | false => rfl
        | true => have : x = a := by simpa using hxa
                  subst this; simp [ha] at hfree
      have hbx : (x == b) = false := by
        cases hxb : (x == b) with
        | false => rfl
        | true => have : x = b := by simpa using hxb
                  subst this; simp [hb] at hfree
      exact ⟨va, vb, by simp [heapGet, hax, ha], by simp [heapGet, hbx, hb], hr⟩
  | drop x =>
    simp only [stepI]
    split
    · exact hs
    · next hcond =>
      rcases hok with hp | hd
      · subst hp
        have hk : keyed s.tbl x = false := by
          cases hk : keyed s.tbl x with
          | false => rfl
          | true => simp [hk] at hcond
        exact idInv_drop_unkeyed hs hk
      · simp [isDrop] at hd
  | ask a b =>
    simp only [stepI]
    split
    · next va vb ha hb =>
      split
      · exact hs
      · intro a' b' r hm
        rcases List.mem_cons.mp hm with h | h
        · cases h; exact ⟨va, vb, ha, hb, rfl⟩
        · exact hs a' b' r h
    · exact hs

theorem foldl_stepI_inv {pinned : Bool} {g : V → V → A} (hist : List (IdOp V))
    (hok : pinned = true ∨ hist.all (fun op => !isDrop op) = true) {s : IdState V A} (hs : IdInv g s) :
    IdInv g (hist.foldl (fun s op => (stepI pinned g s op).1) s) := by
  induction hist generalizing s with
  | nil => exact hs
  | cons op r ih =>
    have h1 : pinned = true ∨ isDrop op = false := by
      rcases hok with h | h
      · exact Or.inl h
      · simp only [List.all_cons, Bool.and_eq_true, Bool.not_eq_true'] at h; exact Or.inr h.1
    have h2 : pinned = true ∨ r.all (fun op => !isDrop op) = true := by
      rcases hok with h | h
      · exact Or.inl h
      · simp only [List.all_cons, Bool.and_eq_true] at h; exact Or.inr h.2
    exact ih h2 (stepI_inv hs op h1)

theorem answerI_of_inv {pinned : Bool} {g : V → V → A} {s : IdState V A} (hs : IdInv g s) {a b : Nat} {va vb : V}
    (ha : heapGet s.heap a = some va) (hb : heapGet s.heap b = some vb) :
    answerI pinned g s a b = some (g va vb) := by
  simp only [answerI, stepI, ha, hb]
  split
  · next r hr =>
    obtain ⟨va', vb', ha', hb', hr'⟩ := hs a b r (find_idKey_mem hr)
    rw [ha] at ha'; rw [hb] at hb'
    cases ha'; cases hb'
    simp [hr']
  · rfl

/-! ### forward references -/

/-- every remembered referent is what the name is bound to NOW -/
def FwdInv (s : FwdState) : Prop :=
  ∀ p c, (p, c) ∈ s.resolved → envGet s.env p.name = some c

theorem find_proxy_mem {t : Table Proxy Nat} {p : Proxy} {c : Nat} (h : find (fun a b => a == b) t p = some c) :
    (p, c) ∈ t := by
  obtain ⟨k, hm, hk⟩ := find_mem h
  have : k = p := by simpa using hk
  subst this; exact hm

theorem find_proxy_ne_none {t : Table Proxy Nat} {p : Proxy} {c : Nat} (hm : (p, c) ∈ t) :
    find (fun a b => a == b) t p ≠ none := by
  induction t with
  | nil => simp at hm
  | cons e r ih =>
    obtain ⟨k, v⟩ := e
    simp only [find]
    by_cases hk : (k == p) = true
    · simp [hk]
    · simp only [hk, Bool.false_eq_true, ↓reduceIte]
      rcases List.mem_cons.mp hm with h | h
      · cases h; simp at hk
      · exact ih h

theorem answerF_of_inv {s : FwdState} (hs : FwdInv s) (p : Proxy) : answerF s p = some (freshF s p) := by
  simp only [answerF, stepF, freshF]
  split
  · next c hc => rw [hs p c (find_proxy_mem hc)]
  · split <;> rfl

theorem noteBeartyped_resolved (s : FwdState) (n : String) {p : Proxy} {c : Nat}
    (h : (p, c) ∈ (noteBeartyped s n).resolved) : (p, c) ∈ s.resolved := by
  unfold noteBeartyped at h
  split at h
  · simp at h
  · exact h

theorem noteBeartyped_env (s : FwdState) (n : String) : (noteBeartyped s n).env = s.env := by
  unfold noteBeartyped; split <;> rfl

/-- binding a name that was never bound keeps every remembered referent current -/
theorem stepF_inv {s : FwdState} (hs : FwdInv s) {seen : List String}
    (hseen : ∀ n, envGet s.env n ≠ none → n ∈ seen) (op : FwdOp)
    (hop : ∀ n c bt, op = .define n c bt → n ∉ seen) :
    FwdInv (stepF s op).1 ∧
    (∀ n, envGet (stepF s op).1.env n ≠ none → n ∈ (match op with | .define n _ _ => n :: seen | _ => seen)) := by
  cases op with
  | define n c bt =>
    have hn : n ∉ seen := hop n c bt rfl
    have henv : (stepF s (.define n c bt)).1.env = (n, c) :: s.env := by
      simp only [stepF]; split <;> simp [noteBeartyped_env]
    have hres : ∀ p c', (p, c') ∈ (stepF s (.define n c bt)).1.resolved → (p, c') ∈ s.resolved := by
      intro p c' h
      simp only [stepF] at h
      split at h
      · exact noteBeartyped_resolved s n h
      · exact h
    constructor
    · intro p c' hm
      have h0 := hs p c' (hres p c' hm)
      rw [henv]
      have hne : (n == p.name) = false := by
        cases hb : (n == p.name) with
        | false => rfl
        | true =>
          have : n = p.name := by simpa using hb
          exact absurd (hseen p.name (by rw [h0]; simp)) (this ▸ hn)
      simp [envGet, hne, h0]
    · intro m hm
      rw [henv] at hm
      simp only [envGet] at hm
      by_cases hb : (n == m) = true
      · have : n = m := by simpa using hb
        subst this; exact List.mem_cons_self
      · simp only [hb, Bool.false_eq_true, ↓reduceIte] at hm
        exact List.mem_cons_of_mem _ (hseen m hm)
  | call p =>
    constructor
    · simp only [stepF]
      split
      · exact hs
      · split
        · exact hs
        · next c hc =>
          intro p' c' hm
          rcases List.mem_cons.mp hm with h | h
          · cases h; exact hc
          · exact hs p' c' h
    · intro n hn
      apply hseen n
      simp only [stepF] at hn
      split at hn
      · exact hn
      · split at hn <;> exact hn
  | clear =>
    constructor
    · intro p c hm; simp [stepF] at hm
    · intro n hn; exact hseen n (by simpa [stepF] using hn)

theorem foldl_stepF_inv (hist : List FwdOp) {s : FwdState} (hs : FwdInv s) {seen : List String}
    (hseen : ∀ n, envGet s.env n ≠ none → n ∈ seen) (hno : noRedefinition hist seen = true) :
    FwdInv (hist.foldl (fun s op => (stepF s op).1) s) := by
  induction hist generalizing s seen with
  | nil => exact hs
  | cons op r ih =>
    cases op with
    | define n c bt =>
      simp only [noRedefinition, Bool.and_eq_true, Bool.not_eq_true'] at hno
      have hn : n ∉ seen := by
        intro h
        have : seen.contains n = true := by simpa using h
        rw [this] at hno; exact absurd hno.1 (by simp)
      obtain ⟨h1, h2⟩ := stepF_inv hs hseen (.define n c bt) (by intro n' c' bt' he; cases he; exact hn)
      exact ih h1 h2 hno.2
    | call p =>
      obtain ⟨h1, h2⟩ := stepF_inv hs hseen (.call p) (by intro n' c' bt' he; cases he)
      exact ih h1 h2 (by simpa [noRedefinition] using hno)
    | clear =>
      obtain ⟨h1, h2⟩ := stepF_inv hs hseen .clear (by intro n' c' bt' he; cases he)
      exact ih h1 h2 (by simpa [noRedefinition] using hno)


/-! ### the concrete hint language: meaning respects `==` -/

theorem litSubset_contains {a b : List LitV} (h : litSubset a b = true) {v : LitV} (hv : a.contains v = true) :
    b.contains v = true := by
  simp only [litSubset, List.all_eq_true] at h
  have hm : v ∈ a := by simpa using hv
  exact h v hm

theorem satAtom_congr {a b : Atom} (h : atomEq a b = true) (x : PyObj) : satAtom a x = satAtom b x := by
  cases a with
  | cls n u =>
    cases b with
    | cls n' u' =>
      have hu : u = u' := by simpa [atomEq] using h
      subst hu
      cases x <;> simp [satAtom]
    | lit vs => simp [atomEq] at h
    | noneType => simp [atomEq] at h
  | lit vs =>
    cases b with
    | cls n u => simp [atomEq] at h
    | lit vs' =>
      simp only [atomEq, Bool.and_eq_true] at h
      cases x with
      | lit v =>
        simp only [satAtom]
        cases h1 : vs.contains v with
        | true => exact (litSubset_contains h.1 h1).symm
        | false =>
          cases h2 : vs'.contains v with
          | false => rfl
          | true => rw [litSubset_contains h.2 h2] at h1; exact absurd h1 (by simp)
      | inst c => rfl
      | list xs => rfl
      | none => rfl
    | noneType => simp [atomEq] at h
  | noneType =>
    cases b with
    | cls n u => simp [atomEq] at h
    | lit vs => simp [atomEq] at h
    | noneType => rfl

theorem any_satAtom_of_cover {ms ms' : List Atom} {x : PyObj}
    (hcover : ∀ a ∈ ms, ∃ b ∈ ms', satAtom a x = satAtom b x)
    (h : ms.any (fun a => satAtom a x) = true) : ms'.any (fun a => satAtom a x) = true := by
  obtain ⟨a, ha, hs⟩ := List.any_eq_true.mp h
  obtain ⟨b, hb, he⟩ := hcover a ha
  exact List.any_eq_true.mpr ⟨b, hb, by rw [← he]; exact hs⟩

/-- **`KeyCongruent` for the `==` discipline, proved**: hints that `typing` calls equal accept the same objects. -/
theorem sat_congr : ∀ (h h' : Hint), hintEq h h' = true → ∀ x, sat h x = sat h' x := by
  intro h
  induction h with
  | atom a =>
    intro h' he x
    cases h' with
    | atom b => exact satAtom_congr (by simpa [hintEq] using he) x
    | union ms => simp [hintEq] at he
    | list585 g => simp [hintEq] at he
    | list484 g => simp [hintEq] at he
  | union ms =>
    intro h' he x
    cases h' with
    | atom b => simp [hintEq] at he
    | union ms' =>
      simp only [hintEq, Bool.and_eq_true, List.all_eq_true, List.any_eq_true] at he
      obtain ⟨h1, h2⟩ := he
      simp only [sat]
      have c1 : ∀ a ∈ ms, ∃ b ∈ ms', satAtom a x = satAtom b x := by
        intro a ha
        obtain ⟨b, hb, hab⟩ := h1 a ha
        exact ⟨b, hb, satAtom_congr hab x⟩
      have c2 : ∀ b ∈ ms', ∃ a ∈ ms, satAtom b x = satAtom a x := by
        intro b hb
        obtain ⟨a, ha, hab⟩ := h2 b hb
        exact ⟨a, ha, (satAtom_congr hab x).symm⟩
      cases hl : ms.any (fun a => satAtom a x) with
      | true => exact (any_satAtom_of_cover c1 hl).symm
      | false =>
        cases hr : ms'.any (fun a => satAtom a x) with
        | false => rfl
        | true => rw [any_satAtom_of_cover c2 hr] at hl; exact absurd hl (by simp)
    | list585 g => simp [hintEq] at he
    | list484 g => simp [hintEq] at he
  | list585 g ih =>
    intro h' he x
    cases h' with
    | atom b => simp [hintEq] at he
    | union ms => simp [hintEq] at he
    | list585 g' =>
      have hg := ih g' (by simpa [hintEq] using he)
      cases x with
      | list xs => simp only [sat]; congr 1; funext y; exact hg y
      | lit v => rfl
      | inst c => rfl
      | none => rfl
    | list484 g' => simp [hintEq] at he
  | list484 g ih =>
    intro h' he x
    cases h' with
    | atom b => simp [hintEq] at he
    | union ms => simp [hintEq] at he
    | list585 g' => simp [hintEq] at he
    | list484 g' =>
      have hg := ih g' (by simpa [hintEq] using he)
      cases x with
      | list xs => simp only [sat]; congr 1; funext y; exact hg y
      | lit v => rfl
      | inst c => rfl
      | none => rfl

end BearVerif.Memo
