import BearVerif.Core.ClawAst
/-!
  Helper lemmas for C05 (`Core/ClawAst.lean`): list plumbing, the decorator-placement loop equals the
  declarative placement, the import index loop equals `takeWhile`/`dropWhile`, and the mutual structural
  inductions over statements / bodies / body lists.
-/
set_option linter.unusedSimpArgs false
set_option linter.unusedVariables false

namespace BearVerif.ClawAst

/-! ### lists -/

theorem take_len_takeWhile {α} (p : α → Bool) : ∀ l : List α, l.take (l.takeWhile p).length = l.takeWhile p
  | [] => rfl
  | a :: r => by
    by_cases h : p a = true
    · simp [List.takeWhile_cons, h, take_len_takeWhile p r]
    · simp [List.takeWhile_cons, h]

theorem drop_len_takeWhile {α} (p : α → Bool) : ∀ l : List α, l.drop (l.takeWhile p).length = l.dropWhile p
  | [] => rfl
  | a :: r => by
    by_cases h : p a = true
    · simp [List.takeWhile_cons, List.dropWhile_cons, h, drop_len_takeWhile p r]
    · simp [List.takeWhile_cons, List.dropWhile_cons, h]

theorem mem_takeWhile_pred {α} (p : α → Bool) : ∀ (l : List α) (x : α), x ∈ l.takeWhile p → p x = true
  | [], x, h => by simp at h
  | a :: r, x, h => by
    by_cases hp : p a = true
    · simp only [List.takeWhile_cons, hp, ↓reduceIte, List.mem_cons] at h
      rcases h with h | h
      · rw [h]; exact hp
      · exact mem_takeWhile_pred p r x h
    · simp [List.takeWhile_cons, hp] at h

theorem insertAt_eq {α} (i : Nat) (x : α) (l : List α) : insertAt i x l = l.take i ++ x :: l.drop i := rfl

/-! ### decorator placement: the code's index loop is the declarative rule -/

theorem scanHostile_eq (env : Env) : ∀ (ds : List Deco) (i : Nat),
    scanHostile env ds i = i + (ds.takeWhile (isHostile env)).length
  | [], i => by simp [scanHostile]
  | d :: r, i => by
    by_cases h : isHostile env d = true
    · simp [scanHostile, List.takeWhile_cons, h, scanHostile_eq env r (i + 1)]; omega
    · simp [scanHostile, List.takeWhile_cons, h]

theorem isScoped_nil (names : List String) : isScoped [] names = .no := by simp [isScoped]

theorem isHostile_nil (d : Deco) : isHostile [] d = false := by
  cases d <;> simp [isHostile, isScoped_nil, Res.isYes]

theorem takeWhile_hostile_nil (ds : List Deco) : ds.takeWhile (isHostile []) = [] := by
  cases ds with
  | nil => rfl
  | cons d r => simp [List.takeWhile_cons, isHostile_nil]

theorem dropWhile_hostile_nil (ds : List Deco) : ds.dropWhile (isHostile []) = ds := by
  cases ds with
  | nil => rfl
  | cons d r => simp [List.dropWhile_cons, isHostile_nil]

theorem takeWhile_length_le {α} (p : α → Bool) (l : List α) : (l.takeWhile p).length ≤ l.length := by
  induction l with
  | nil => simp
  | cons a r ih => by_cases h : p a = true <;> simp [List.takeWhile_cons, h]; omega

theorem takeWhile_eq_self_of_length {α} (p : α → Bool) : ∀ l : List α, (l.takeWhile p).length = l.length →
    l.takeWhile p = l ∧ l.dropWhile p = []
  | [], _ => ⟨rfl, rfl⟩
  | a :: r, h => by
    by_cases hp : p a = true
    · simp only [List.takeWhile_cons, hp, ↓reduceIte, List.length_cons, Nat.add_right_cancel_iff] at h
      have := takeWhile_eq_self_of_length p r h
      simp [List.takeWhile_cons, List.dropWhile_cons, hp, this.1, this.2]
    · simp [List.takeWhile_cons, hp] at h

/-- `_decorate_node_beartype` = the declarative placement rule -/
theorem decorate_eq_placeSpec (c : ClawConf) (env : Env) (isClass : Bool) (ln : Nat) (ds : List Deco) :
    decorate c env isClass ln ds = placeSpec (placeOf c isClass) (isHostile env) (.bt ln (!c.isDefault)) ds := by
  unfold decorate placeSpec
  cases hp : placeOf c isClass with
  | first => rfl
  | last => rfl
  | lastBeforeHostile =>
    simp only []
    by_cases hd : ds = []
    · subst hd; simp
    · by_cases he : env = []
      · subst he; simp [takeWhile_hostile_nil, dropWhile_hostile_nil]
      · have hde : (ds.isEmpty || List.isEmpty env) = false := by
          cases ds <;> cases env <;> simp_all
        simp only [hde, Bool.false_eq_true, ↓reduceIte, scanHostile_eq, Nat.zero_add]
        by_cases hlt : (ds.takeWhile (isHostile env)).length < ds.length
        · simp only [hlt, ↓reduceIte, insertAt_eq, take_len_takeWhile, drop_len_takeWhile]
        · have hle := takeWhile_length_le (isHostile env) ds
          have heq : (ds.takeWhile (isHostile env)).length = ds.length := by omega
          have := takeWhile_eq_self_of_length (isHostile env) ds heq
          simp [hlt, this.1, this.2]

def cleanDecos (ds : List Deco) : Bool := ds.all (fun d => !d.isAdded)

theorem eraseDecos_placeSpec (p : Place) (h : Deco → Bool) (ln : Nat) (cf : Bool) (ds : List Deco) :
    eraseDecos (placeSpec p h (.bt ln cf) ds) = eraseDecos ds := by
  cases p with
  | first => simp [placeSpec, eraseDecos, Deco.isAdded]
  | last => simp [placeSpec, eraseDecos, Deco.isAdded]
  | lastBeforeHostile =>
    simp only [placeSpec, eraseDecos, List.filter_append, List.filter_cons, Deco.isAdded, Bool.not_true,
      Bool.false_eq_true, ↓reduceIte]
    rw [← List.filter_append, List.takeWhile_append_dropWhile]

theorem btCount_placeSpec (p : Place) (h : Deco → Bool) (ln : Nat) (cf : Bool) (ds : List Deco) :
    btCount (placeSpec p h (.bt ln cf) ds) = btCount ds + 1 := by
  cases p with
  | first => simp [placeSpec, btCount, List.filter_cons, Deco.isAdded]
  | last => simp [placeSpec, btCount, List.filter_cons, Deco.isAdded]
  | lastBeforeHostile =>
    have : ds.filter Deco.isAdded = (ds.takeWhile h ++ ds.dropWhile h).filter Deco.isAdded := by
      rw [List.takeWhile_append_dropWhile]
    simp only [placeSpec, btCount, List.filter_append, List.filter_cons, Deco.isAdded, ↓reduceIte,
      List.length_append, List.length_cons, this]
    omega

theorem btCount_clean (ds : List Deco) (h : cleanDecos ds = true) : btCount ds = 0 := by
  induction ds with
  | nil => rfl
  | cons d r ih =>
    simp only [cleanDecos, List.all_cons, Bool.and_eq_true, Bool.not_eq_eq_eq_not, Bool.not_true] at h
    simp only [btCount, List.filter_cons, h.1, Bool.false_eq_true, ↓reduceIte]
    exact ih (by simpa [cleanDecos] using h.2)

theorem eraseDecos_clean (ds : List Deco) (h : cleanDecos ds = true) : eraseDecos ds = ds := by
  induction ds with
  | nil => rfl
  | cons d r ih =>
    simp only [cleanDecos, List.all_cons, Bool.and_eq_true, Bool.not_eq_eq_eq_not, Bool.not_true] at h
    simp only [eraseDecos, List.filter_cons, h.1, Bool.not_false, ↓reduceIte, List.cons.injEq, true_and]
    exact ih (by simpa [cleanDecos] using h.2)

theorem decoLinesOK_placeSpec (p : Place) (h : Deco → Bool) (ln : Nat) (cf : Bool) (ds : List Deco)
    (hc : cleanDecos ds = true) : decoLinesOK ln (placeSpec p h (.bt ln cf) ds) = true := by
  have hall : ∀ l : List Deco, (∀ d ∈ l, d ∈ ds) → decoLinesOK ln l = true := by
    intro l hl
    simp only [decoLinesOK, List.all_eq_true]
    intro d hd
    have hdd := hl d hd
    simp only [cleanDecos, List.all_eq_true] at hc
    have := hc d hdd
    cases d with
    | orig => rfl
    | bt => simp [Deco.isAdded] at this
  cases p with
  | first =>
    have := hall ds (fun _ h => h)
    simp only [decoLinesOK] at this
    simp [placeSpec, decoLinesOK, this]
  | last =>
    have := hall ds (fun _ h => h)
    simp only [decoLinesOK] at this
    simp [placeSpec, decoLinesOK, this]
  | lastBeforeHostile =>
    have h1 := hall (ds.takeWhile h) (fun d hd => List.takeWhile_subset h hd)
    have h2 := hall (ds.dropWhile h) (fun d hd => List.dropWhile_subset h hd)
    simp only [decoLinesOK] at h1 h2
    simp [placeSpec, decoLinesOK, h1, h2]

theorem occ_placeSpec (p : Place) (h : Deco → Bool) (ln : Nat) (cf : Bool) (ds : List Deco) :
    (placeSpec p h (.bt ln cf) ds).flatMap Deco.occ = ds.flatMap Deco.occ := by
  cases p with
  | first => simp [placeSpec, Deco.occ]
  | last => simp [placeSpec, Deco.occ]
  | lastBeforeHostile =>
    simp only [placeSpec, List.flatMap_append, List.flatMap_cons, Deco.occ, List.nil_append]
    rw [← List.flatMap_append, List.takeWhile_append_dropWhile]

theorem funcDecos_eq (c : ClawConf) (k : Bool) (env : Env) (ln : Nat) (ty : Bool) (ds : List Deco) :
    funcDecos c k env ln ty ds =
      if (ty && !k) = true then placeSpec c.placeFunc (isHostile env) (.bt ln (!c.isDefault)) ds else ds := by
  unfold funcDecos
  rw [decorate_eq_placeSpec]
  cases k <;> cases ty <;> simp [placeOf]

theorem eraseDecos_funcDecos (c : ClawConf) (k : Bool) (env : Env) (ln : Nat) (ty : Bool) (ds : List Deco) :
    eraseDecos (funcDecos c k env ln ty ds) = eraseDecos ds := by
  rw [funcDecos_eq]; split
  · exact eraseDecos_placeSpec ..
  · rfl

theorem occ_funcDecos (c : ClawConf) (k : Bool) (env : Env) (ln : Nat) (ty : Bool) (ds : List Deco) :
    (funcDecos c k env ln ty ds).flatMap Deco.occ = ds.flatMap Deco.occ := by
  rw [funcDecos_eq]; split
  · exact occ_placeSpec ..
  · rfl

theorem decoLinesOK_clean (ln : Nat) (ds : List Deco) (hc : cleanDecos ds = true) : decoLinesOK ln ds = true := by
  simp only [cleanDecos, List.all_eq_true] at hc
  simp only [decoLinesOK, List.all_eq_true]
  intro d hd
  have := hc d hd
  cases d with
  | orig => rfl
  | bt => simp [Deco.isAdded] at this

theorem decoLinesOK_funcDecos (c : ClawConf) (k : Bool) (env : Env) (ln : Nat) (ty : Bool) (ds : List Deco)
    (hc : cleanDecos ds = true) : decoLinesOK ln (funcDecos c k env ln ty ds) = true := by
  rw [funcDecos_eq]; split
  · exact decoLinesOK_placeSpec _ _ _ _ _ hc
  · exact decoLinesOK_clean ln ds hc

theorem btCount_funcDecos (c : ClawConf) (k : Bool) (env : Env) (ln : Nat) (ty : Bool) (ds : List Deco)
    (hc : cleanDecos ds = true) : btCount (funcDecos c k env ln ty ds) = if (ty && !k) = true then 1 else 0 := by
  rw [funcDecos_eq]; split
  · rw [btCount_placeSpec, btCount_clean ds hc]
  · exact btCount_clean ds hc

/-! ### the import position: the code's loop is `takeWhile` / `dropWhile` -/

theorem importIdx_eq : ∀ m : List Stmt, importIdx m = (m.takeWhile Stmt.isPrefix).length
  | [] => rfl
  | s :: r => by
    by_cases h : s.isPrefix = true
    · simp [importIdx, List.takeWhile_cons, h, importIdx_eq r]
    · simp [importIdx, List.takeWhile_cons, h]

theorem lineAt_takeWhile (m : List Stmt) :
    lineAt m (m.takeWhile Stmt.isPrefix).length = headLine (m.dropWhile Stmt.isPrefix) := by
  simp [lineAt, drop_len_takeWhile]

theorem addImport_eq_spec (m : Module) : addImport m = addImportSpec m := by
  unfold addImport addImportSpec
  simp only [importIdx_eq, insertAt_eq, take_len_takeWhile, drop_len_takeWhile, lineAt_takeWhile]
  cases hd : m.dropWhile Stmt.isPrefix with
  | nil =>
    have hlen : (m.takeWhile Stmt.isPrefix).length = m.length := by
      have := congrArg List.length (List.takeWhile_append_dropWhile (p := Stmt.isPrefix) (l := m))
      simp [hd] at this
      exact this
    simp [hlen]
  | cons s rest =>
    have hlen : (m.takeWhile Stmt.isPrefix).length ≠ m.length := by
      have := congrArg List.length (List.takeWhile_append_dropWhile (p := Stmt.isPrefix) (l := m))
      simp [hd] at this
      omega
    simp [hlen, headLine]

/-! ### prefix statements pass through unchanged -/

theorem xStmt_prefix (c : ClawConf) (st : List ScopeKind) (env : Env) (s : Stmt) (h : s.isPrefix = true) :
    xStmt c st env s = [s] ∧ envStmt c env s = env := by
  cases s <;> simp_all [Stmt.isPrefix, xStmt, envStmt]

theorem xBody_prefix_append (c : ClawConf) (st : List ScopeKind) (env : Env) :
    ∀ (pre rest : List Stmt), (∀ s ∈ pre, s.isPrefix = true) →
      xBody c st env (pre ++ rest) = pre ++ xBody c st env rest
  | [], _, _ => rfl
  | s :: r, rest, h => by
    have hs := xStmt_prefix c st env s (h s (by simp))
    simp only [List.cons_append, xBody, hs.1, hs.2, List.singleton_append, List.cons.injEq, true_and]
    exact xBody_prefix_append c st env r rest (fun x hx => h x (by simp [hx]))

theorem xBody_nil (c : ClawConf) (st : List ScopeKind) (env : Env) : xBody c st env [] = [] := by simp [xBody]

/-- shape of the transformed module -/
theorem xform_shape (c : ClawConf) (m : Module) :
    (m.dropWhile Stmt.isPrefix = [] → xform c m = m) ∧
    (∀ s rest, m.dropWhile Stmt.isPrefix = s :: rest →
      xform c m = m.takeWhile Stmt.isPrefix ++ .btImport s.line :: xBody c [.module] [] (s :: rest)) := by
  have hpre : ∀ x ∈ m.takeWhile Stmt.isPrefix, x.isPrefix = true := fun x hx => mem_takeWhile_pred _ _ x hx
  constructor
  · intro h
    have hm : m = m.takeWhile Stmt.isPrefix := by
      have := List.takeWhile_append_dropWhile (p := Stmt.isPrefix) (l := m)
      rw [h, List.append_nil] at this
      exact this.symm
    unfold xform
    rw [addImport_eq_spec]
    simp only [addImportSpec, h]
    have := xBody_prefix_append c [.module] [] (m.takeWhile Stmt.isPrefix) [] hpre
    rw [List.append_nil, xBody_nil, List.append_nil, ← hm] at this
    exact this
  · intro s rest h
    unfold xform
    rw [addImport_eq_spec]
    simp only [addImportSpec, h]
    rw [xBody_prefix_append c [.module] [] _ _ hpre]
    simp [xBody, xStmt, envStmt]

/-! ### bodies: append lemmas -/

theorem eraseBody_append : ∀ a b : List Stmt, eraseBody (a ++ b) = eraseBody a ++ eraseBody b
  | [], b => by simp [eraseBody]
  | s :: r, b => by
    by_cases h : s.isAdded = true <;> simp [eraseBody, h, eraseBody_append r b]

theorem cleanBody_append : ∀ a b : List Stmt, cleanBody (a ++ b) = (cleanBody a && cleanBody b)
  | [], b => by simp [cleanBody]
  | s :: r, b => by simp [cleanBody, cleanBody_append r b, Bool.and_assoc]

theorem occBody_append : ∀ a b : List Stmt, occBody (a ++ b) = occBody a ++ occBody b
  | [], b => by simp [occBody]
  | s :: r, b => by simp [occBody, occBody_append r b]

theorem pureBody_append : ∀ a b : List Stmt, pureBody (a ++ b) = (pureBody a && pureBody b)
  | [], b => by simp [pureBody]
  | s :: r, b => by simp [pureBody, pureBody_append r b, Bool.and_assoc]

theorem noSubBody_append : ∀ a b : List Stmt, noSubBody (a ++ b) = (noSubBody a && noSubBody b)
  | [], b => by simp [noSubBody]
  | s :: r, b => by simp [noSubBody, noSubBody_append r b, Bool.and_assoc]

theorem decoBody_append (k : Bool) : ∀ a b : List Stmt, decoBody k (a ++ b) = (decoBody k a && decoBody k b)
  | [], b => by simp [decoBody]
  | s :: r, b => by simp [decoBody, decoBody_append k r b, Bool.and_assoc]

theorem importsBody_append : ∀ a b : List Stmt, importsBody (a ++ b) = importsBody a + importsBody b
  | [], b => by simp [importsBody]
  | s :: r, b => by simp [importsBody, importsBody_append r b, Nat.add_assoc]

theorem split_prefix (m : List Stmt) : m = m.takeWhile Stmt.isPrefix ++ m.dropWhile Stmt.isPrefix :=
  (List.takeWhile_append_dropWhile).symm

/-! ### only additions -/

theorem eraseBody_annAssignOut (c : ClawConf) (k : Bool) (ln : Nat) (t : Target) (ann : E) (an : List String)
    (v : Option E) : eraseBody (annAssignOut c k ln t ann an v) = [.annAssign ln t ann an v] := by
  unfold annAssignOut
  split
  · simp [eraseBody, Stmt.isAdded, eraseStmt]
  · cases t <;> simp [eraseBody, Stmt.isAdded, eraseStmt]

mutual
theorem erase_xStmt (c : ClawConf) : ∀ (st : List ScopeKind) (env : Env) (s : Stmt),
    eraseBody (xStmt c st env s) = eraseBody [s]
  | st, env, .funcDef ln a nm ds ty hs body => by
    have ih := erase_xBody c (.func :: st) env body
    simp [xStmt, eraseBody, Stmt.isAdded, eraseStmt, ih, eraseDecos_funcDecos]
  | st, env, .classDef ln nm ds hs body => by
    have ih := erase_xBody c (.cls :: st) env body
    simp [xStmt, eraseBody, Stmt.isAdded, eraseStmt, ih, decorate_eq_placeSpec, eraseDecos_placeSpec]
  | st, env, .annAssign ln t ann an v => by
    simp [xStmt, eraseBody_annAssignOut, eraseBody, Stmt.isAdded, eraseStmt]
  | st, env, .compound ln k hs bodies => by
    have ih := erase_xBodies c st env bodies
    simp [xStmt, eraseBody, Stmt.isAdded, eraseStmt, ih]
  | _, _, .assign .. => by simp [xStmt]
  | _, _, .importMod .. => by simp [xStmt]
  | _, _, .importFrom .. => by simp [xStmt]
  | _, _, .futureImport .. => by simp [xStmt]
  | _, _, .docExpr .. => by simp [xStmt]
  | _, _, .simple .. => by simp [xStmt]
  | _, _, .btImport .. => by simp [xStmt]
  | _, _, .dieIf .. => by simp [xStmt]
theorem erase_xBody (c : ClawConf) : ∀ (st : List ScopeKind) (env : Env) (b : List Stmt),
    eraseBody (xBody c st env b) = eraseBody b
  | _, _, [] => by simp [xBody]
  | st, env, s :: r => by
    have h1 := erase_xStmt c st env s
    have h2 := erase_xBody c st (envStmt c env s) r
    have : eraseBody (s :: r) = eraseBody [s] ++ eraseBody r := eraseBody_append [s] r
    rw [xBody, eraseBody_append, h1, h2, this]
theorem erase_xBodies (c : ClawConf) : ∀ (st : List ScopeKind) (env : Env) (bs : List (List Stmt)),
    eraseBodies (xBodies c st env bs) = eraseBodies bs
  | _, _, [] => by simp [xBodies]
  | st, env, b :: r => by
    simp [xBodies, eraseBodies, erase_xBody c st env b, erase_xBodies c st (envBody c env b) r]
end

theorem eraseBody_addImportSpec (m : Module) : eraseBody (addImportSpec m) = eraseBody m := by
  unfold addImportSpec
  cases hd : m.dropWhile Stmt.isPrefix with
  | nil => rfl
  | cons s rest =>
    simp only []
    conv => rhs; rw [split_prefix m, hd]
    simp [eraseBody_append, eraseBody, Stmt.isAdded]

mutual
theorem erase_clean_stmt : ∀ s : Stmt, cleanStmt s = true → eraseStmt s = s ∧ s.isAdded = false
  | .funcDef ln a nm ds ty hs body, h => by
    simp only [cleanStmt, Bool.and_eq_true] at h
    simp [eraseStmt, Stmt.isAdded, eraseDecos_clean ds h.1, erase_clean_body body h.2]
  | .classDef ln nm ds hs body, h => by
    simp only [cleanStmt, Bool.and_eq_true] at h
    simp [eraseStmt, Stmt.isAdded, eraseDecos_clean ds h.1, erase_clean_body body h.2]
  | .compound ln k hs bodies, h => by
    simp only [cleanStmt] at h
    simp [eraseStmt, Stmt.isAdded, erase_clean_bodies bodies h]
  | .annAssign .., _ => by simp [eraseStmt, Stmt.isAdded]
  | .assign .., _ => by simp [eraseStmt, Stmt.isAdded]
  | .importMod .., _ => by simp [eraseStmt, Stmt.isAdded]
  | .importFrom .., _ => by simp [eraseStmt, Stmt.isAdded]
  | .futureImport .., _ => by simp [eraseStmt, Stmt.isAdded]
  | .docExpr .., _ => by simp [eraseStmt, Stmt.isAdded]
  | .simple .., _ => by simp [eraseStmt, Stmt.isAdded]
  | .btImport .., h => by simp [cleanStmt] at h
  | .dieIf .., h => by simp [cleanStmt] at h
theorem erase_clean_body : ∀ b : List Stmt, cleanBody b = true → eraseBody b = b
  | [], _ => by simp [eraseBody]
  | s :: r, h => by
    simp only [cleanBody, Bool.and_eq_true] at h
    have hs := erase_clean_stmt s h.1
    simp [eraseBody, hs.1, hs.2, erase_clean_body r h.2]
theorem erase_clean_bodies : ∀ bs : List (List Stmt), cleanBodies bs = true → eraseBodies bs = bs
  | [], _ => by simp [eraseBodies]
  | b :: r, h => by
    simp only [cleanBodies, Bool.and_eq_true] at h
    simp [eraseBodies, erase_clean_body b h.1, erase_clean_bodies r h.2]
end

/-! ### the scope stack is the flag "nearest enclosing def/class is a class" -/

theorem annAssignOut_eq (c : ClawConf) (k : Bool) (ln : Nat) (t : Target) (ann : E) (an : List String) (v : Option E)
    (ht : t.isSub = false) :
    annAssignOut c k ln t ann an v =
      if (c.pep526 && v.isSome && !k) = true then [.annAssign ln t ann an v, .dieIf ln t ann (!c.isDefault)]
      else [.annAssign ln t ann an v] := by
  unfold annAssignOut
  cases hp : c.pep526 <;> cases hv : v.isSome <;> cases k <;> cases t <;> simp_all [Target.isSub]

mutual
theorem x_eq_h_stmt (c : ClawConf) : ∀ (st : List ScopeKind) (k : Bool) (env : Env) (s : Stmt),
    isScopeClass st = k → noSubStmt s = true → xStmt c st env s = hStmt c k env s
  | st, k, env, .funcDef ln a nm ds ty hs body, hk, hn => by
    simp only [noSubStmt] at hn
    have ih := x_eq_h_body c (.func :: st) false env body rfl hn
    simp only [xStmt, hStmt, ih, hk, funcDecos_eq]
  | st, k, env, .classDef ln nm ds hs body, hk, hn => by
    simp only [noSubStmt] at hn
    have ih := x_eq_h_body c (.cls :: st) true env body rfl hn
    simp [xStmt, hStmt, ih, decorate_eq_placeSpec, placeOf]
  | st, k, env, .annAssign ln t ann an v, hk, hn => by
    simp only [noSubStmt, Bool.not_eq_eq_eq_not, Bool.not_true] at hn
    simp only [xStmt, hStmt, hk, annAssignOut_eq c k ln t ann an v hn]
  | st, k, env, .compound ln kd hs bodies, hk, hn => by
    simp only [noSubStmt] at hn
    simp [xStmt, hStmt, x_eq_h_bodies c st k env bodies hk hn]
  | _, _, _, .assign .., _, _ => by simp [xStmt, hStmt]
  | _, _, _, .importMod .., _, _ => by simp [xStmt, hStmt]
  | _, _, _, .importFrom .., _, _ => by simp [xStmt, hStmt]
  | _, _, _, .futureImport .., _, _ => by simp [xStmt, hStmt]
  | _, _, _, .docExpr .., _, _ => by simp [xStmt, hStmt]
  | _, _, _, .simple .., _, _ => by simp [xStmt, hStmt]
  | _, _, _, .btImport .., _, _ => by simp [xStmt, hStmt]
  | _, _, _, .dieIf .., _, _ => by simp [xStmt, hStmt]
theorem x_eq_h_body (c : ClawConf) : ∀ (st : List ScopeKind) (k : Bool) (env : Env) (b : List Stmt),
    isScopeClass st = k → noSubBody b = true → xBody c st env b = hBody c k env b
  | _, _, _, [], _, _ => by simp [xBody, hBody]
  | st, k, env, s :: r, hk, hn => by
    simp only [noSubBody, Bool.and_eq_true] at hn
    simp [xBody, hBody, x_eq_h_stmt c st k env s hk hn.1, x_eq_h_body c st k (envStmt c env s) r hk hn.2]
theorem x_eq_h_bodies (c : ClawConf) : ∀ (st : List ScopeKind) (k : Bool) (env : Env) (bs : List (List Stmt)),
    isScopeClass st = k → noSubBodies bs = true → xBodies c st env bs = hBodies c k env bs
  | _, _, _, [], _, _ => by simp [xBodies, hBodies]
  | st, k, env, b :: r, hk, hn => by
    simp only [noSubBodies, Bool.and_eq_true] at hn
    simp [xBodies, hBodies, x_eq_h_body c st k env b hk hn.1, x_eq_h_bodies c st k (envBody c env b) r hk hn.2]
end

theorem noSubBody_addImportSpec (m : Module) : noSubBody (addImportSpec m) = noSubBody m := by
  unfold addImportSpec
  cases hd : m.dropWhile Stmt.isPrefix with
  | nil => rfl
  | cons s rest =>
    simp only []
    conv => rhs; rw [split_prefix m, hd]
    simp [noSubBody_append, noSubBody, noSubStmt]

/-! ### heads of transformed statements -/

theorem xStmt_head (c : ClawConf) (st : List ScopeKind) (env : Env) (s : Stmt) (h : s.isAdded = false) :
    ∃ s' tl, xStmt c st env s = s' :: tl ∧ s'.line = s.line ∧ s'.isAdded = false ∧ s'.isPrefix = s.isPrefix := by
  cases s with
  | annAssign ln t ann an v =>
    simp only [xStmt, annAssignOut]
    split
    · exact ⟨_, [], rfl, rfl, rfl, rfl⟩
    · cases t <;> exact ⟨_, _, rfl, rfl, rfl, rfl⟩
  | btImport => simp [Stmt.isAdded] at h
  | dieIf => simp [Stmt.isAdded] at h
  | funcDef => simp only [xStmt]; exact ⟨_, [], rfl, rfl, rfl, rfl⟩
  | classDef => simp only [xStmt]; exact ⟨_, [], rfl, rfl, rfl, rfl⟩
  | compound => simp only [xStmt]; exact ⟨_, [], rfl, rfl, rfl, rfl⟩
  | assign => simp only [xStmt]; exact ⟨_, [], rfl, rfl, rfl, rfl⟩
  | importMod => simp only [xStmt]; exact ⟨_, [], rfl, rfl, rfl, rfl⟩
  | importFrom => simp only [xStmt]; exact ⟨_, [], rfl, rfl, rfl, rfl⟩
  | futureImport => simp only [xStmt]; exact ⟨_, [], rfl, rfl, rfl, rfl⟩
  | docExpr => simp only [xStmt]; exact ⟨_, [], rfl, rfl, rfl, rfl⟩
  | simple => simp only [xStmt]; exact ⟨_, [], rfl, rfl, rfl, rfl⟩

/-! ### added imports -/

mutual
theorem imports_xStmt (c : ClawConf) : ∀ (st : List ScopeKind) (env : Env) (s : Stmt),
    importsBody (xStmt c st env s) = importsStmt s
  | st, env, .funcDef ln a nm ds ty hs body => by
    simp [xStmt, importsBody, importsStmt, imports_xBody c (.func :: st) env body]
  | st, env, .classDef ln nm ds hs body => by
    simp [xStmt, importsBody, importsStmt, imports_xBody c (.cls :: st) env body]
  | st, env, .annAssign ln t ann an v => by
    simp only [xStmt, annAssignOut]
    split
    · simp [importsBody, importsStmt]
    · cases t <;> simp [importsBody, importsStmt]
  | st, env, .compound ln k hs bodies => by
    simp [xStmt, importsBody, importsStmt, imports_xBodies c st env bodies]
  | _, _, .assign .. => by simp [xStmt, importsBody, importsStmt]
  | _, _, .importMod .. => by simp [xStmt, importsBody, importsStmt]
  | _, _, .importFrom .. => by simp [xStmt, importsBody, importsStmt]
  | _, _, .futureImport .. => by simp [xStmt, importsBody, importsStmt]
  | _, _, .docExpr .. => by simp [xStmt, importsBody, importsStmt]
  | _, _, .simple .. => by simp [xStmt, importsBody, importsStmt]
  | _, _, .btImport .. => by simp [xStmt, importsBody, importsStmt]
  | _, _, .dieIf .. => by simp [xStmt, importsBody, importsStmt]
theorem imports_xBody (c : ClawConf) : ∀ (st : List ScopeKind) (env : Env) (b : List Stmt),
    importsBody (xBody c st env b) = importsBody b
  | _, _, [] => by simp [xBody]
  | st, env, s :: r => by
    simp [xBody, importsBody_append, importsBody, imports_xStmt c st env s, imports_xBody c st (envStmt c env s) r]
theorem imports_xBodies (c : ClawConf) : ∀ (st : List ScopeKind) (env : Env) (bs : List (List Stmt)),
    importsBodies (xBodies c st env bs) = importsBodies bs
  | _, _, [] => by simp [xBodies]
  | st, env, b :: r => by
    simp [xBodies, importsBodies, imports_xBody c st env b, imports_xBodies c st (envBody c env b) r]
end

mutual
theorem imports_clean_stmt : ∀ s : Stmt, cleanStmt s = true → importsStmt s = 0
  | .funcDef _ _ _ _ _ _ body, h => by
    simp only [cleanStmt, Bool.and_eq_true] at h
    simp [importsStmt, imports_clean_body body h.2]
  | .classDef _ _ _ _ body, h => by
    simp only [cleanStmt, Bool.and_eq_true] at h
    simp [importsStmt, imports_clean_body body h.2]
  | .compound _ _ _ bodies, h => by
    simp only [cleanStmt] at h
    simp [importsStmt, imports_clean_bodies bodies h]
  | .annAssign .., _ => by simp [importsStmt]
  | .assign .., _ => by simp [importsStmt]
  | .importMod .., _ => by simp [importsStmt]
  | .importFrom .., _ => by simp [importsStmt]
  | .futureImport .., _ => by simp [importsStmt]
  | .docExpr .., _ => by simp [importsStmt]
  | .simple .., _ => by simp [importsStmt]
  | .btImport .., h => by simp [cleanStmt] at h
  | .dieIf .., _ => by simp [importsStmt]
theorem imports_clean_body : ∀ b : List Stmt, cleanBody b = true → importsBody b = 0
  | [], _ => by simp [importsBody]
  | s :: r, h => by
    simp only [cleanBody, Bool.and_eq_true] at h
    simp [importsBody, imports_clean_stmt s h.1, imports_clean_body r h.2]
theorem imports_clean_bodies : ∀ bs : List (List Stmt), cleanBodies bs = true → importsBodies bs = 0
  | [], _ => by simp [importsBodies]
  | b :: r, h => by
    simp only [cleanBodies, Bool.and_eq_true] at h
    simp [importsBodies, imports_clean_body b h.1, imports_clean_bodies r h.2]
end

/-! ### methods once through their class, nested functions themselves -/

mutual
theorem deco_xStmt (c : ClawConf) : ∀ (st : List ScopeKind) (k : Bool) (env : Env) (s : Stmt),
    isScopeClass st = k → cleanStmt s = true → decoBody k (xStmt c st env s) = true
  | st, k, env, .funcDef ln a nm ds ty hs body, hk, hc => by
    simp only [cleanStmt, Bool.and_eq_true] at hc
    have ih := deco_xBody c (.func :: st) false env body rfl hc.2
    simp [xStmt, decoBody, decoStmt, ih, hk, btCount_funcDecos c k env ln ty ds hc.1]
  | st, k, env, .classDef ln nm ds hs body, hk, hc => by
    simp only [cleanStmt, Bool.and_eq_true] at hc
    have ih := deco_xBody c (.cls :: st) true env body rfl hc.2
    have h0 := btCount_clean ds hc.1
    simp [xStmt, decoBody, decoStmt, ih, decorate_eq_placeSpec, btCount_placeSpec, h0]
  | st, k, env, .annAssign ln t ann an v, _, _ => by
    simp only [xStmt, annAssignOut]
    split
    · simp [decoBody, decoStmt]
    · cases t <;> simp [decoBody, decoStmt]
  | st, k, env, .compound ln kd hs bodies, hk, hc => by
    simp only [cleanStmt] at hc
    simp [xStmt, decoBody, decoStmt, deco_xBodies c st k env bodies hk hc]
  | _, _, _, .assign .., _, _ => by simp [xStmt, decoBody, decoStmt]
  | _, _, _, .importMod .., _, _ => by simp [xStmt, decoBody, decoStmt]
  | _, _, _, .importFrom .., _, _ => by simp [xStmt, decoBody, decoStmt]
  | _, _, _, .futureImport .., _, _ => by simp [xStmt, decoBody, decoStmt]
  | _, _, _, .docExpr .., _, _ => by simp [xStmt, decoBody, decoStmt]
  | _, _, _, .simple .., _, _ => by simp [xStmt, decoBody, decoStmt]
  | _, _, _, .btImport .., _, _ => by simp [xStmt, decoBody, decoStmt]
  | _, _, _, .dieIf .., _, _ => by simp [xStmt, decoBody, decoStmt]
theorem deco_xBody (c : ClawConf) : ∀ (st : List ScopeKind) (k : Bool) (env : Env) (b : List Stmt),
    isScopeClass st = k → cleanBody b = true → decoBody k (xBody c st env b) = true
  | _, _, _, [], _, _ => by simp [xBody, decoBody]
  | st, k, env, s :: r, hk, hc => by
    simp only [cleanBody, Bool.and_eq_true] at hc
    simp [xBody, decoBody_append, deco_xStmt c st k env s hk hc.1, deco_xBody c st k (envStmt c env s) r hk hc.2]
theorem deco_xBodies (c : ClawConf) : ∀ (st : List ScopeKind) (k : Bool) (env : Env) (bs : List (List Stmt)),
    isScopeClass st = k → cleanBodies bs = true → decoBodies k (xBodies c st env bs) = true
  | _, _, _, [], _, _ => by simp [xBodies, decoBodies]
  | st, k, env, b :: r, hk, hc => by
    simp only [cleanBodies, Bool.and_eq_true] at hc
    simp [xBodies, decoBodies, deco_xBody c st k env b hk hc.1, deco_xBodies c st k (envBody c env b) r hk hc.2]
end

theorem decoBody_prefix (k : Bool) : ∀ pre : List Stmt, (∀ s ∈ pre, s.isPrefix = true) → decoBody k pre = true
  | [], _ => by simp [decoBody]
  | s :: r, h => by
    have hs := h s (by simp)
    have hr := decoBody_prefix k r (fun x hx => h x (by simp [hx]))
    cases s <;> simp_all [Stmt.isPrefix, decoBody, decoStmt]

/-! ### locations of added nodes -/

theorem linesFrom_cons_plain (prev : Option Stmt) (s : Stmt) (r : List Stmt) (h : s.isAdded = false) :
    linesFrom prev (s :: r) = (linesStmt s && linesFrom (some s) r) := by
  cases s <;> simp_all [linesFrom, Stmt.isAdded]

mutual
theorem lines_xStmt (c : ClawConf) : ∀ (st : List ScopeKind) (env : Env) (s : Stmt) (prev : Option Stmt)
    (rest : List Stmt), cleanStmt s = true → (∀ p, linesFrom p rest = true) →
    linesFrom prev (xStmt c st env s ++ rest) = true
  | st, env, .funcDef ln a nm ds ty hs body, prev, rest, hc, hr => by
    simp only [cleanStmt, Bool.and_eq_true] at hc
    have ih := lines_xBody c (.func :: st) env body none hc.2
    have hd := decoLinesOK_funcDecos c (isScopeClass st) env ln ty ds hc.1
    simp only [xStmt, List.singleton_append]
    rw [linesFrom_cons_plain _ _ _ rfl]
    simp [linesStmt, ih, hd, hr]
  | st, env, .classDef ln nm ds hs body, prev, rest, hc, hr => by
    simp only [cleanStmt, Bool.and_eq_true] at hc
    have ih := lines_xBody c (.cls :: st) env body none hc.2
    have hd : decoLinesOK ln (decorate c env true ln ds) = true := by
      rw [decorate_eq_placeSpec]; exact decoLinesOK_placeSpec _ _ _ _ _ hc.1
    simp only [xStmt, List.singleton_append]
    rw [linesFrom_cons_plain _ _ _ rfl]
    simp [linesStmt, ih, hd, hr]
  | st, env, .annAssign ln t ann an v, prev, rest, _, hr => by
    simp only [xStmt, annAssignOut]
    split
    · simp [linesFrom, linesStmt, hr]
    · rename_i hcond
      have hv : ∃ e, v = some e := by
        cases v with
        | none => simp at hcond
        | some e => exact ⟨e, rfl⟩
      obtain ⟨e, rfl⟩ := hv
      cases t <;> simp [linesFrom, linesStmt, dieMatches, hr]
  | st, env, .compound ln kd hs bodies, prev, rest, hc, hr => by
    simp only [cleanStmt] at hc
    simp only [xStmt, List.singleton_append]
    rw [linesFrom_cons_plain _ _ _ rfl]
    simp [linesStmt, lines_xBodies c st env bodies hc, hr]
  | _, _, .assign .., _, _, _, hr => by simp [xStmt, linesFrom, linesStmt, hr]
  | _, _, .importMod .., _, _, _, hr => by simp [xStmt, linesFrom, linesStmt, hr]
  | _, _, .importFrom .., _, _, _, hr => by simp [xStmt, linesFrom, linesStmt, hr]
  | _, _, .futureImport .., _, _, _, hr => by simp [xStmt, linesFrom, linesStmt, hr]
  | _, _, .docExpr .., _, _, _, hr => by simp [xStmt, linesFrom, linesStmt, hr]
  | _, _, .simple .., _, _, _, hr => by simp [xStmt, linesFrom, linesStmt, hr]
  | _, _, .btImport .., _, _, hc, _ => by simp [cleanStmt] at hc
  | _, _, .dieIf .., _, _, hc, _ => by simp [cleanStmt] at hc
theorem lines_xBody (c : ClawConf) : ∀ (st : List ScopeKind) (env : Env) (b : List Stmt) (prev : Option Stmt),
    cleanBody b = true → linesFrom prev (xBody c st env b) = true
  | _, _, [], _, _ => by simp [xBody, linesFrom]
  | st, env, s :: r, prev, hc => by
    simp only [cleanBody, Bool.and_eq_true] at hc
    rw [xBody]
    exact lines_xStmt c st env s prev _ hc.1 (fun p => lines_xBody c st (envStmt c env s) r p hc.2)
theorem lines_xBodies (c : ClawConf) : ∀ (st : List ScopeKind) (env : Env) (bs : List (List Stmt)),
    cleanBodies bs = true → linesBodies (xBodies c st env bs) = true
  | _, _, [], _ => by simp [xBodies, linesBodies]
  | st, env, b :: r, hc => by
    simp only [cleanBodies, Bool.and_eq_true] at hc
    simp [xBodies, linesBodies, lines_xBody c st env b none hc.1, lines_xBodies c st (envBody c env b) r hc.2]
end

theorem linesFrom_prefix_append : ∀ (pre z : List Stmt) (prev : Option Stmt), (∀ s ∈ pre, s.isPrefix = true) →
    (∀ p, linesFrom p z = true) → linesFrom prev (pre ++ z) = true
  | [], z, prev, _, hz => hz prev
  | s :: r, z, prev, h, hz => by
    have hs := h s (by simp)
    have ih := linesFrom_prefix_append r z (some s) (fun x hx => h x (by simp [hx])) hz
    cases s <;> simp_all [Stmt.isPrefix, linesFrom, linesStmt]

/-! ### evaluation occurrences -/

theorem count_pure_zero (e : E) (he : e.pure = false) (l : List E) (hl : ∀ x ∈ l, x.pure = true) : l.count e = 0 := by
  apply List.count_eq_zero.mpr
  intro hmem
  have := hl e hmem
  simp [he] at this

mutual
theorem once_xStmt (c : ClawConf) (e : E) (he : e.pure = false) : ∀ (st : List ScopeKind) (env : Env) (s : Stmt),
    pureStmt s = true → (occBody (xStmt c st env s)).count e = (occStmt s).count e
  | st, env, .funcDef ln a nm ds ty hs body, hp => by
    simp only [pureStmt] at hp
    have ih := once_xBody c e he (.func :: st) env body hp
    simp [xStmt, occBody, occStmt, List.count_append, ih, occ_funcDecos]
  | st, env, .classDef ln nm ds hs body, hp => by
    simp only [pureStmt] at hp
    have ih := once_xBody c e he (.cls :: st) env body hp
    simp [xStmt, occBody, occStmt, List.count_append, ih, decorate_eq_placeSpec, occ_placeSpec]
  | st, env, .annAssign ln t ann an v, hp => by
    simp only [pureStmt, Bool.and_eq_true, List.all_eq_true] at hp
    have h1 : t.occ.count e = 0 := count_pure_zero e he _ hp.2
    have h2 : [ann].count e = 0 := count_pure_zero e he _ (by intro x hx; simp at hx; rw [hx]; exact hp.1)
    simp only [xStmt, annAssignOut]
    split
    · simp [occBody, occStmt]
    · cases t <;> simp only [occBody, occStmt, List.append_nil, List.count_append] <;> omega
  | st, env, .compound ln kd hs bodies, hp => by
    simp only [pureStmt] at hp
    simp [xStmt, occBody, occStmt, List.count_append, once_xBodies c e he st env bodies hp]
  | _, _, .assign .., _ => by simp [xStmt, occBody]
  | _, _, .importMod .., _ => by simp [xStmt, occBody]
  | _, _, .importFrom .., _ => by simp [xStmt, occBody]
  | _, _, .futureImport .., _ => by simp [xStmt, occBody]
  | _, _, .docExpr .., _ => by simp [xStmt, occBody]
  | _, _, .simple .., _ => by simp [xStmt, occBody]
  | _, _, .btImport .., _ => by simp [xStmt, occBody]
  | _, _, .dieIf .., _ => by simp [xStmt, occBody]
theorem once_xBody (c : ClawConf) (e : E) (he : e.pure = false) : ∀ (st : List ScopeKind) (env : Env) (b : List Stmt),
    pureBody b = true → (occBody (xBody c st env b)).count e = (occBody b).count e
  | _, _, [], _ => by simp [xBody]
  | st, env, s :: r, hp => by
    simp only [pureBody, Bool.and_eq_true] at hp
    simp [xBody, occBody_append, occBody, List.count_append, once_xStmt c e he st env s hp.1,
      once_xBody c e he st (envStmt c env s) r hp.2]
theorem once_xBodies (c : ClawConf) (e : E) (he : e.pure = false) : ∀ (st : List ScopeKind) (env : Env)
    (bs : List (List Stmt)), pureBodies bs = true → (occBodies (xBodies c st env bs)).count e = (occBodies bs).count e
  | _, _, [], _ => by simp [xBodies]
  | st, env, b :: r, hp => by
    simp only [pureBodies, Bool.and_eq_true] at hp
    simp [xBodies, occBodies, List.count_append, once_xBody c e he st env b hp.1,
      once_xBodies c e he st (envBody c env b) r hp.2]
end

theorem occBody_addImportSpec (m : Module) : occBody (addImportSpec m) = occBody m := by
  unfold addImportSpec
  cases hd : m.dropWhile Stmt.isPrefix with
  | nil => rfl
  | cons s rest =>
    simp only []
    conv => rhs; rw [split_prefix m, hd]
    simp [occBody_append, occBody, occStmt]

theorem pureBody_addImportSpec (m : Module) : pureBody (addImportSpec m) = pureBody m := by
  unfold addImportSpec
  cases hd : m.dropWhile Stmt.isPrefix with
  | nil => rfl
  | cons s rest =>
    simp only []
    conv => rhs; rw [split_prefix m, hd]
    simp [pureBody_append, pureBody, pureStmt]

end BearVerif.ClawAst
