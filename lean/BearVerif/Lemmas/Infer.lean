import BearVerif.Core.Infer
/-!
  Helper lemmas for C20: structural equality of hints is equality, de-duplication keeps every
  hint, meaning of `mkUnion`, the item-level step of the round trip, the FSM walk, the guard.
-/
namespace BearVerif.Infer
open BearVerif.Bear

/-! ### hintEq is equality -/

mutual
theorem hintEq_eq : ∀ (a b : Hint), hintEq a b = true → a = b
  | .any, b, h => by cases b <;> simp_all [hintEq]
  | .cls _, b, h => by cases b <;> simp_all [hintEq]
  | .shallow _, b, h => by cases b <;> simp_all [hintEq]
  | .union as, b, h => by
    cases b <;> simp only [hintEq, reduceCtorEq] at h <;> try contradiction
    rename_i bs; rw [hintsEq_eq as bs h]
  | .literal _, b, h => by cases b <;> simp_all [hintEq]
  | .tupleFixed as, b, h => by
    cases b <;> simp only [hintEq, reduceCtorEq] at h <;> try contradiction
    rename_i bs; rw [hintsEq_eq as bs h]
  | .seq o x, b, h => by
    cases b <;> simp only [hintEq, reduceCtorEq, Bool.and_eq_true, beq_iff_eq] at h <;> try contradiction
    rename_i o' y; rw [h.1, hintEq_eq x y h.2]
  | .reit o x, b, h => by
    cases b <;> simp only [hintEq, reduceCtorEq, Bool.and_eq_true, beq_iff_eq] at h <;> try contradiction
    rename_i o' y; rw [h.1, hintEq_eq x y h.2]
  | .quasi o x, b, h => by
    cases b <;> simp only [hintEq, reduceCtorEq, Bool.and_eq_true, beq_iff_eq] at h <;> try contradiction
    rename_i o' y; rw [h.1, hintEq_eq x y h.2]
  | .mapping o k v, b, h => by
    cases b <;> simp only [hintEq, reduceCtorEq, Bool.and_eq_true, beq_iff_eq] at h <;> try contradiction
    rename_i o' k' v'; rw [h.1.1, hintEq_eq k k' h.1.2, hintEq_eq v v' h.2]
  | .typeOf _, b, h => by cases b <;> simp_all [hintEq]
  | .annotated x vs, b, h => by
    cases b <;> simp only [hintEq, reduceCtorEq, Bool.and_eq_true, beq_iff_eq] at h <;> try contradiction
    rename_i y ws; rw [hintEq_eq x y h.1, h.2]
theorem hintsEq_eq : ∀ (as bs : List Hint), hintsEq as bs = true → as = bs
  | [], [], _ => rfl
  | [], _ :: _, h => by simp [hintsEq] at h
  | _ :: _, [], h => by simp [hintsEq] at h
  | a :: as, b :: bs, h => by
    simp only [hintsEq, Bool.and_eq_true] at h
    rw [hintEq_eq a b h.1, hintsEq_eq as bs h.2]
end

/-! ### de-duplication and unions -/

theorem mem_dedup : ∀ (hs : List Hint) (h : Hint), h ∈ hs → h ∈ dedup hs
  | [], _, hm => by simp at hm
  | a :: hs, h, hm => by
    simp only [dedup, List.mem_cons, List.mem_filter, Bool.not_eq_true']
    rcases List.mem_cons.mp hm with rfl | hin
    · exact Or.inl rfl
    · by_cases he : hintEq a h = true
      · exact Or.inl (hintEq_eq a h he).symm
      · exact Or.inr ⟨mem_dedup hs h hin, by simpa using he⟩

theorem dedup_subset : ∀ (hs : List Hint) (h : Hint), h ∈ dedup hs → h ∈ hs
  | [], _, hm => by simp [dedup] at hm
  | a :: hs, h, hm => by
    simp only [dedup, List.mem_cons, List.mem_filter] at hm
    rcases hm with rfl | ⟨hin, _⟩
    · exact List.mem_cons_self
    · exact List.mem_cons_of_mem _ (dedup_subset hs h hin)

variable (W : World)

theorem satAny_iff : ∀ (hs : List Hint) (x : Obj), satAny W hs x = true ↔ ∃ h ∈ hs, sat W h x = true
  | [], x => by simp [satAny]
  | h :: hs, x => by
    simp only [satAny, Bool.or_eq_true, List.mem_cons, satAny_iff hs x]
    constructor
    · rintro (h1 | ⟨g, hg, hs⟩)
      · exact ⟨h, Or.inl rfl, h1⟩
      · exact ⟨g, Or.inr hg, hs⟩
    · rintro ⟨g, rfl | hg, hs⟩
      · exact Or.inl hs
      · exact Or.inr ⟨g, hg, hs⟩

theorem sat_mkUnion (hs : List Hint) (x : Obj) : sat W (mkUnion hs) x = true ↔ ∃ h ∈ hs, sat W h x = true := by
  match hs with
  | [] => simp [mkUnion, sat, satAny]
  | [h] => simp [mkUnion]
  | a :: b :: r => simp only [mkUnion, sat]; exact satAny_iff W _ x

/-- the union over the de-duplicated item hints accepts whatever one of the item hints accepts -/
theorem sat_union_dedup (hs : List Hint) (x : Obj) (h : Hint) (hm : h ∈ hs) (hs' : sat W h x = true) :
    sat W (mkUnion (dedup hs)) x = true :=
  (sat_mkUnion W _ x).mpr ⟨h, mem_dedup hs h hm, hs'⟩

/-! ### inferList -/

variable (I : InferWorld) (strat : Strategy)

theorem inferList_eq_map (d : Nat) : ∀ ys : List Obj, inferList W I strat d ys = ys.map (infer W I strat d)
  | [] => by simp [inferList]
  | y :: ys => by simp [inferList, inferList_eq_map d ys]

theorem inferableList_mem : ∀ (ys : List Obj), inferableList W I ys = true → ∀ y ∈ ys, Inferable W I y = true
  | [], _, y, hy => by simp at hy
  | a :: ys, h, y, hy => by
    simp only [inferableList, Bool.and_eq_true] at h
    rcases List.mem_cons.mp hy with rfl | hin
    · exact h.1
    · exact inferableList_mem ys h.2 y hin

theorem satZip_map (f : Obj → Hint) : ∀ ys : List Obj, (∀ y ∈ ys, sat W (f y) y = true) → satZip W (ys.map f) ys = true
  | [], _ => by simp [satZip]
  | y :: ys, h => by
    simp only [List.map_cons, satZip, Bool.and_eq_true]
    exact ⟨h y List.mem_cons_self, satZip_map f ys (fun z hz => h z (List.mem_cons_of_mem _ hz))⟩

/-! ### the item-level step: `infer_hint_collection_items` produces a hint its container satisfies -/

theorem sat_cls_intro (o : Nat) (x : Obj) (hsub : W.sub x.cls o = true) : sat W (.cls o) x = true := by
  simpa [sat] using hsub

theorem sat_shallow_intro (o : Nat) (x : Obj) (hsub : W.sub x.cls o = true) : sat W (.shallow o) x = true := by
  simpa [sat] using hsub

theorem sat_seq_intro (o : Nat) (h : Hint) (x : Obj) (hsub : W.sub x.cls o = true)
    (hall : ∀ y ∈ x.items, sat W h y = true) : sat W (.seq o h) x = true := by
  simp only [sat, hsub, Bool.true_and, List.all_eq_true]; exact hall

theorem sat_reit_intro (o : Nat) (h : Hint) (x : Obj) (hsub : W.sub x.cls o = true)
    (hall : ∀ y ∈ x.items, sat W h y = true) : sat W (.reit o h) x = true := by
  simp only [sat, hsub, Bool.true_and, List.all_eq_true]; exact hall

theorem sat_quasi_intro (o : Nat) (h : Hint) (x : Obj) (hsub : W.sub x.cls o = true)
    (hall : ∀ y ∈ x.items, sat W h y = true) : sat W (.quasi o h) x = true := by
  simp only [sat, hsub, Bool.true_and, Bool.or_eq_true, List.all_eq_true]; exact Or.inr hall

theorem sat_mapping_intro (o : Nat) (k v : Hint) (x : Obj) (hsub : W.sub x.cls o = true)
    (hlen : x.vals.length = x.items.length)
    (hK : ∀ y ∈ x.items, sat W k y = true) (hV : ∀ y ∈ x.vals, sat W v y = true) : sat W (.mapping o k v) x = true := by
  simp only [sat, hsub, hlen, Bool.true_and, BEq.rfl, Bool.and_eq_true, List.all_eq_true]; exact ⟨hK, hV⟩

theorem sat_annotated_intro (h : Hint) (vs : List Vale) (x : Obj) (h1 : sat W h x = true)
    (h2 : vs.all (fun v => v.holds W x) = true) : sat W (.annotated h vs) x = true := by
  simp only [sat, h1, h2, Bool.and_self]

theorem sat_subscript1 (o : Nat) (h : Hint) (x : Obj)
    (hsub : W.sub x.cls o = true) (hall : ∀ y ∈ x.items, sat W h y = true) :
    sat W (subscript1 I o h) x = true := by
  unfold subscript1
  split
  · exact sat_seq_intro W o h x hsub hall
  · exact sat_seq_intro W o h x hsub hall
  · exact sat_reit_intro W o h x hsub hall
  · exact sat_quasi_intro W o h x hsub hall
  · exact sat_shallow_intro W o x hsub

theorem sat_subscript2 (o : Nat) (hk hv : Hint) (x : Obj)
    (hsub : W.sub x.cls o = true) (hlen : x.vals.length = x.items.length)
    (hK : ∀ y ∈ x.items, sat W hk y = true) (hV : ∀ y ∈ x.vals, sat W hv y = true) :
    sat W (subscript2 I o hk hv) x = true := by
  unfold subscript2
  split
  · exact sat_mapping_intro W o hk hv x hsub hlen hK hV
  · split
    · rename_i hc
      have : hv = .cls I.cInt := by
        cases hv <;> simp [isCls] at hc
        rw [hc]
      subst this
      exact sat_mapping_intro W o hk _ x hsub hlen hK hV
    · exact sat_cls_intro W o x hsub
  · exact sat_shallow_intro W o x hsub

theorem sat_mapHint (o : Nat) (hk hv : Hint) (x : Obj)
    (hsub : W.sub x.cls o = true) (hlen : x.vals.length = x.items.length)
    (hK : ∀ y ∈ x.items, sat W hk y = true) (hV : ∀ y ∈ x.vals, sat W hv y = true) :
    sat W (mapHint I o hk hv) x = true := by
  unfold mapHint
  split
  · exact sat_cls_intro W o x hsub
  · exact sat_subscript2 W I o hk hv x hsub hlen hK hV

theorem sat_reitHint (o : Nat) (h : Hint) (x : Obj)
    (hsub : W.sub x.cls o = true) (hall : ∀ y ∈ x.items, sat W h y = true) :
    sat W (reitHint I o h) x = true := by
  unfold reitHint
  split
  · exact sat_cls_intro W o x hsub
  · exact sat_subscript1 W I o h x hsub hall

/-- the hint for the items under On — the single item's hint, or the union of all item hints —
    is satisfied by every item (`n` = number of items) -/
theorem sat_sampledOr_On (f : Obj → Hint) (ys : List Obj) (hf : ∀ y ∈ ys, sat W (f y) y = true) (one : Hint)
    (hone : ∀ z, ys = [z] → one = f z) :
    ∀ y ∈ ys, sat W (sampledOr .On ys.length one (ys.map f)) y = true := by
  intro y hy
  unfold sampledOr
  split
  · rename_i h1
    simp only [Strategy.isO1, Bool.or_false, beq_iff_eq] at h1
    match ys, h1, hone with
    | [z], _, hone =>
      simp only [List.mem_singleton] at hy; subst hy
      rw [hone y rfl]; exact hf y (by simp)
  · exact sat_union_dedup W _ y (f y) (List.mem_map_of_mem hy) (hf y hy)

theorem itemsHint_sat (hI : I.Wf W) (f : Obj → Hint) (d o originType c : Nat) (a : Atom) (items vals : List Obj)
    (attrs : List (String × Obj))
    (hsub : W.sub c o = true)
    (hlen : W.sub originType I.cMapping = true → vals.length = items.length)
    (hfi : ∀ y ∈ items, sat W (f y) y = true) (hfv : ∀ y ∈ vals, sat W (f y) y = true) :
    sat W (itemsHint W I .On d o originType c (items.map f) (vals.map f)) (.mk c a items vals attrs) = true := by
  unfold itemsHint
  split
  · exact sat_cls_intro W o _ hsub
  · split
    · rename_i hm
      have hl := hlen hm
      have hK := sat_sampledOr_On W f items hfi ((items.map f).headD .any) (by intro z hz; subst hz; rfl)
      have hV := sat_sampledOr_On W f vals hfv ((vals.map f).headD .any) (by intro z hz; subst hz; rfl)
      rw [hl] at hV
      simp only [List.length_map]
      exact sat_mapHint W I o _ _ (.mk c a items vals attrs) hsub hl hK hV
    · split
      · rename_i ht
        simp only [rootTuple, Bool.and_eq_true, beq_iff_eq] at ht
        have ho := hI.tuple_only o ht.1.1
        subst ho
        have hz := satZip_map W f items hfi
        simp only [sat, Bool.and_eq_true]
        exact ⟨hsub, hz⟩
      · have hA := sat_sampledOr_On W f items hfi (pickHint W .On c (items.map f))
            (by intro z hz; subst hz; rfl)
        simp only [List.length_map]
        exact sat_reitHint W I o _ (.mk c a items vals attrs) hsub hA

/-! ### the round trip, by induction on the object -/

theorem typeOf_self (hW : W.Wf) (c k : Nat) (items vals : List Obj) (attrs : List (String × Obj))
    (hc : W.sub c cType = true) : sat W (.typeOf [k]) (.mk c (.klass k) items vals attrs) = true := by
  simp [sat, typeOfTest, Obj.cls, Obj.atom, hc, hW.sub_refl]

mutual
theorem infer_roundtrip (hW : W.Wf) (hI : I.Wf W) : ∀ (x : Obj) (d : Nat), Inferable W I x = true →
    sat W (infer W I .On d x) x = true
  | .mk c a items vals attrs, d, hx => by
    simp only [Inferable, Bool.and_eq_true, Bool.or_eq_true, Bool.not_eq_true', beq_iff_eq] at hx
    obtain ⟨⟨⟨⟨hk, hm⟩, habc⟩, hii⟩, hiv⟩ := hx
    have hfi : ∀ y ∈ items, sat W (infer W I .On (d + 1) y) y = true :=
      fun y hy => infer_roundtrip hW hI y (d + 1) (inferableList_mem W I items hii y hy)
    have hfv : ∀ y ∈ vals, sat W (infer W I .On (d + 1) y) y = true :=
      fun y hy => infer_roundtrip hW hI y (d + 1) (inferableList_mem W I vals hiv y hy)
    simp only [infer, inferList_eq_map]
    by_cases hty : W.sub c cType = true
    · simp only [hty, if_true]
      rcases hk with hk | hk
      · rw [hk] at hty; exact absurd hty (by simp)
      · cases a <;> simp at hk
        exact typeOf_self W hW c _ items vals attrs hty
    · simp only [hty]
      by_cases hcl : W.sub c I.cCallable = true
      · simp only [hcl, if_true]
        exact sat_shallow_intro W _ _ hcl
      · simp only [hcl]
        by_cases hsc : I.scalar c = true
        · simp only [hsc, if_true]
          exact sat_cls_intro W c _ (hW.sub_refl c)
        · simp only [hsc]
          cases hb : I.builtin c with
          | some o =>
            simp only []
            refine itemsHint_sat W I hI _ d o c c a items vals attrs (hI.builtin_sub c o hb) ?_ hfi hfv
            intro hmp
            rcases hm with hm | hm
            · simp [usesMapping, hb, hmp] at hm
            · exact hm
          | none =>
            simp only []
            cases ha : I.abc c with
            | some o =>
              simp only []
              have hreach : reachesAbc W I c = true := by
                simp [reachesAbc, hb]
                exact ⟨⟨by simpa using hty, by simpa using hcl⟩, by simpa using hsc⟩
              have hsub : W.sub c o = true := by
                rcases habc with h | h
                · rw [hreach] at h; exact absurd h (by simp)
                · simpa [abcOk, ha] using h
              have hinner : sat W (if W.sub c cCollection = true
                  then itemsHint W I .On d o o c (items.map (infer W I .On (d + 1))) (vals.map (infer W I .On (d + 1)))
                  else .cls o) (.mk c a items vals attrs) = true := by
                split
                · refine itemsHint_sat W I hI _ d o o c a items vals attrs hsub ?_ hfi hfv
                  intro hmp
                  rcases hm with hm | hm
                  · simp [usesMapping, hb, ha, hmp] at hm
                  · exact hm
                · exact sat_cls_intro W o _ hsub
              refine sat_annotated_intro W _ _ _ hinner ?_
              simp only [List.all_cons, List.all_nil, Bool.and_true, Vale.holds, List.any_cons, List.any_nil, Bool.or_false]
              exact hW.sub_refl c
            | none =>
              dsimp only
              by_cases hco : (c == I.cObject) = true
              · rw [if_pos hco]; unfold sat; rfl
              · rw [if_neg hco]; exact sat_cls_intro W c (.mk c a items vals attrs) (hW.sub_refl c)
end

/-! ### converse: a protocol the class is not a subclass of makes the inferred hint reject the object -/

theorem sat_subscript1_false (o : Nat) (h : Hint) (x : Obj) (hsub : W.sub x.cls o = false) :
    sat W (subscript1 I o h) x = false := by
  unfold subscript1
  split <;> simp [sat, hsub]

theorem sat_subscript2_false (o : Nat) (hk hv : Hint) (x : Obj) (hsub : W.sub x.cls o = false) :
    sat W (subscript2 I o hk hv) x = false := by
  unfold subscript2
  split
  · simp [sat, hsub]
  · split <;> simp [sat, hsub]
  · simp [sat, hsub]

theorem itemsHint_unsat (hI : I.Wf W) (d o originType c : Nat) (a : Atom) (items vals : List Obj)
    (attrs : List (String × Obj)) (hi hv : List Hint) (hsub : W.sub c o = false) :
    sat W (itemsHint W I strat d o originType c hi hv) (.mk c a items vals attrs) = false := by
  have hx : W.sub (Obj.mk c a items vals attrs).cls o = false := hsub
  unfold itemsHint
  split
  · simp [sat, hx]
  · split
    · unfold mapHint
      split
      · simp [sat, hx]
      · exact sat_subscript2_false W I o _ _ _ hx
    · split
      · rename_i ht
        simp only [rootTuple, Bool.and_eq_true, beq_iff_eq] at ht
        have ho := hI.tuple_only o ht.1.1
        subst ho
        simp [sat, hx]
      · unfold reitHint
        split
        · simp [sat, hx]
        · exact sat_subscript1_false W I o _ _ hx

theorem infer_abc_mismatch (hI : I.Wf W) (d c o : Nat) (a : Atom) (items vals : List Obj) (attrs : List (String × Obj))
    (hr : reachesAbc W I c = true) (ha : I.abc c = some o) (hsub : W.sub c o = false) :
    sat W (infer W I strat d (.mk c a items vals attrs)) (.mk c a items vals attrs) = false := by
  simp only [reachesAbc, Bool.and_eq_true, Bool.not_eq_true', Option.isNone_iff_eq_none] at hr
  obtain ⟨⟨⟨h1, h2⟩, h3⟩, h4⟩ := hr
  simp only [infer, h1, h2, h3, h4, ha, Bool.false_eq_true, if_false]
  have hinner : sat W (if W.sub c cCollection = true
      then itemsHint W I strat d o o c (inferList W I strat (d + 1) items) (inferList W I strat (d + 1) vals)
      else .cls o) (.mk c a items vals attrs) = false := by
    split
    · exact itemsHint_unsat W I strat hI d o o c a items vals attrs _ _ hsub
    · have hx : W.sub (Obj.mk c a items vals attrs).cls o = false := hsub
      simp [sat, hx]
  simp only [sat, hinner, Bool.false_and]

/-! ### the FSM walk returns the factory of a node of the machine -/

mutual
/-- every factory named in the machine -/
def fsmFactories : FsmNode → List String
  | .mk f next => (match f with | some s => [s] | none => []) ++ fsmFactoriesList next
def fsmFactoriesList : List (List String × FsmNode) → List String
  | [] => []
  | (_, n) :: r => fsmFactories n ++ fsmFactoriesList r
end

mutual
theorem fsmWalk_mem (methods : List String) : ∀ (n : FsmNode) (s : String), fsmWalk methods n = some s → s ∈ fsmFactories n
  | .mk f next, s, h => by
    simp only [fsmFactories, List.mem_append]
    have hself : f = some s → (s ∈ (match f with | some s => [s] | none => [])) := by
      intro hf; subst hf; simp
    simp only [fsmWalk] at h
    split at h
    · exact Or.inl (hself h)
    · split at h
      · rename_i r hr; exact Or.inr (fsmExact_mem methods _ next r s hr h)
      · split at h
        · rename_i r hr; exact Or.inr (fsmFirst_mem methods next r s hr h)
        · exact Or.inl (hself h)
theorem fsmExact_mem (methods names : List String) : ∀ (next : List (List String × FsmNode)) (r : Option String) (s : String),
    fsmExact methods names next = some r → r = some s → s ∈ fsmFactoriesList next
  | [], _, _, h, _ => by simp [fsmExact] at h
  | (k, n) :: rest, r, s, h, hs => by
    unfold fsmExact at h
    simp only [fsmFactoriesList, List.mem_append]
    split at h
    · simp only [Option.some.injEq] at h
      exact Or.inl (fsmWalk_mem methods n s (by rw [h, hs]))
    · exact Or.inr (fsmExact_mem methods names rest r s h hs)
theorem fsmFirst_mem (methods : List String) : ∀ (next : List (List String × FsmNode)) (r : Option String) (s : String),
    fsmFirst methods next = some r → r = some s → s ∈ fsmFactoriesList next
  | [], _, _, h, _ => by simp [fsmFirst] at h
  | (k, n) :: rest, r, s, h, hs => by
    unfold fsmFirst at h
    simp only [fsmFactoriesList, List.mem_append]
    split at h
    · simp only [Option.some.injEq] at h
      exact Or.inl (fsmWalk_mem methods n s (by rw [h, hs]))
    · exact Or.inr (fsmFirst_mem methods rest r s h hs)
end

/-! ### the id-set guard: the traversal of a finite heap finishes -/

/-- how many of the addresses `0 … n-1` are not yet on the path -/
def freeCount (seen : List Nat) : Nat → Nat
  | 0 => 0
  | n + 1 => freeCount seen n + (if seen.contains n then 0 else 1)

theorem freeCount_nil : ∀ n, freeCount [] n = n
  | 0 => rfl
  | n + 1 => by simp [freeCount, freeCount_nil n]

theorem freeCount_cons_le (seen : List Nat) (a : Nat) : ∀ n, freeCount (a :: seen) n ≤ freeCount seen n
  | 0 => by simp [freeCount]
  | n + 1 => by
    have ih := freeCount_cons_le seen a n
    simp only [freeCount, List.contains_cons]
    by_cases h1 : seen.contains n = true <;> by_cases h2 : (n == a) = true <;> simp_all <;> omega

theorem freeCount_cons_lt (seen : List Nat) (a : Nat) (hn : seen.contains a = false) :
    ∀ n, a < n → freeCount (a :: seen) n < freeCount seen n
  | 0, h => by omega
  | n + 1, h => by
    simp only [freeCount, List.contains_cons]
    by_cases hna : n = a
    · subst hna
      have hle := freeCount_cons_le seen n n
      have hn' : n ∉ seen := by simpa using hn
      simp [hn']; omega
    · have ih := freeCount_cons_lt seen a hn n (by omega)
      have hne : (n == a) = false := by simpa using hna
      simp only [hne, Bool.false_or]
      omega

theorem mapOpt_isSome (f : Nat → Option Obj) (h : ∀ a, (f a).isSome = true) : ∀ as, (mapOpt f as).isSome = true
  | [] => by simp [mapOpt]
  | a :: as => by
    have h1 := h a
    have h2 := mapOpt_isSome f h as
    simp only [mapOpt]
    cases hh : f a with
    | none => rw [hh] at h1; simp at h1
    | some y =>
      cases hl : mapOpt f as with
      | none => rw [hl] at h2; simp at h2
      | some ys => simp

/-- with more fuel than addresses not yet on the path, the guarded traversal finishes -/
theorem unfoldGuard_isSome (H : Heap) (m : Nat) : ∀ (fuel : Nat) (seen : List Nat) (a : Nat),
    freeCount seen H.length < fuel → (unfoldGuard H m fuel seen a).isSome = true
  | 0, _, _, h => by omega
  | fuel + 1, seen, a, h => by
    simp only [unfoldGuard]
    split
    · rfl
    · rename_i hns
      split
      · rfl
      · rename_i n hn
        have ha : a < H.length := by
          have := List.getElem?_eq_some_iff.mp hn
          exact this.1
        have hlt := freeCount_cons_lt seen a (by simpa using hns) H.length ha
        have hrec : ∀ b, (unfoldGuard H m fuel (a :: seen) b).isSome = true :=
          fun b => unfoldGuard_isSome H m fuel (a :: seen) b (by omega)
        have h1 := mapOpt_isSome _ hrec n.items
        have h2 := mapOpt_isSome _ hrec n.vals
        cases hi : mapOpt (unfoldGuard H m fuel (a :: seen)) n.items with
        | none => rw [hi] at h1; simp at h1
        | some is =>
          cases hv : mapOpt (unfoldGuard H m fuel (a :: seen)) n.vals with
          | none => rw [hv] at h2; simp at h2
          | some vs => simp

end BearVerif.Infer
