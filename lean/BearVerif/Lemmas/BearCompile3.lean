import BearVerif.Lemmas.BearCompile2
/-! Compiler correctness, main induction (`compile_correct`). -/
namespace BearVerif.Bear

variable (W : World) (conf : Conf) (r : Nat)

theorem drop_cons_getElem {α} {l : List α} {i : Nat} {y : α} {ys : List α} (h : l.drop i = y :: ys) :
    l[i]? = some y ∧ l.drop (i + 1) = ys := by
  induction l generalizing i with
  | nil => simp at h
  | cons a l ih =>
    cases i with
    | zero => simp at h; simp [h.1, h.2]
    | succ i => simp at h; simpa using ih h

theorem post_trans_keep {env env₁ env₂ : Env} {p : Pith} {k m : Nat}
    (h1 : ∀ j, j < p.keep k → env₁ (pv j) = env (pv j)) (hm : p.keep k ≤ m)
    (h2 : ∀ j, j < m → env₂ (pv j) = env₁ (pv j)) : ∀ j, j < p.keep k → env₂ (pv j) = env (pv j) :=
  fun j hj => by rw [h2 j (Nat.lt_of_lt_of_le hj hm), h1 j hj]

theorem binds_idx {p : Pith} {k : Nat} (h : p.binds = true) : p.idx k = k := by
  cases p <;> simp_all [Pith.binds, Pith.idx]

theorem post_of_asg {env env₁ : Env} {p : Pith} {k : Nat} {x : Obj} (hk' : env₁ (pv (p.idx k)) = some x)
    (hf : ∀ j, j < p.keep k → env₁ (pv j) = env (pv j)) : Post env env₁ p k x :=
  ⟨hf, fun hb => by have := binds_idx (k := k) hb; rw [this] at hk'; exact hk'⟩

theorem binds_keep {p : Pith} {k : Nat} {x : Obj} {env₁ env₂ : Env} (hk' : env₁ (pv (p.idx k)) = some x)
    (hf₂ : ∀ j, j < p.idx k + 1 → env₂ (pv j) = env₁ (pv j)) : p.binds = true → env₂ (pv k) = some x := by
  intro hb
  have := binds_idx (k := k) hb
  rw [this] at hk' hf₂
  rw [hf₂ k (by omega)]; exact hk'

theorem pickIdx_lt {n : Nat} (hn : 0 < n) : pickIdx conf r n < n := by
  unfold pickIdx; split
  · exact Nat.mod_lt _ hn
  · exact hn

theorem pick_none_nil {x : Obj} (hy : x.items[pickIdx conf r x.items.length]? = none) : x.items = [] := by
  cases hx : x.items with
  | nil => rfl
  | cons a b =>
    rw [hx] at hy
    have := pickIdx_lt conf r (n := (a :: b).length) (by simp)
    rw [List.getElem?_eq_none_iff] at hy
    omega

theorem chk_seq_ign (o : Nat) (h : Hint) (x : Obj) (hig : h.ignorable = true) :
    chk W conf r (.seq o h) x = W.sub x.cls o := by
  simp only [chk]
  split
  · simp
  · simp [chk_ignorable W conf r h _ hig]

theorem chk_reit_ign (o : Nat) (h : Hint) (x : Obj) (hig : h.ignorable = true) :
    chk W conf r (.reit o h) x = W.sub x.cls o := by
  simp only [chk]
  split
  · simp
  · simp [chk_ignorable W conf r h _ hig]

theorem filter_pep_of_nonpep_nil {hs : List Hint} (h : hs.filterMap Hint.cls? = []) :
    hs.filter (fun h => h.cls?.isNone) = hs := by
  induction hs with
  | nil => rfl
  | cons a hs ih =>
    cases hc : a.cls? with
    | some c => simp [List.filterMap_cons, hc] at h
    | none =>
      simp only [List.filterMap_cons, hc] at h
      simp [List.filter_cons, hc, ih h]

theorem genUnion_nil {hs : List Hint} {q : Pith} {k : Nat} (h : hs.filter (fun h => h.cls?.isNone) = []) :
    genUnion conf hs q k = [] := by
  induction hs generalizing q with
  | nil => rfl
  | cons a hs ih =>
    cases hc : a.cls? with
    | some c =>
      simp only [List.filter_cons, hc, Option.isNone_some, Bool.false_eq_true, ↓reduceIte] at h
      simp [genUnion, hc, ih h]
    | none => simp [List.filter_cons, hc] at h

theorem genUnion_ne_nil {hs : List Hint} {q : Pith} {k : Nat} (h : hs.filter (fun h => h.cls?.isNone) ≠ []) :
    genUnion conf hs q k ≠ [] := by
  induction hs generalizing q with
  | nil => exact absurd rfl h
  | cons a hs ih =>
    cases hc : a.cls? with
    | some c =>
      simp only [List.filter_cons, hc, Option.isNone_some, Bool.false_eq_true, ↓reduceIte] at h
      simp only [genUnion, hc, Option.isSome_some, ↓reduceIte]; exact ih h
    | none => simp [genUnion, hc]

theorem chk_quasi_ign (o : Nat) (h : Hint) (x : Obj) (hig : h.ignorable = true) :
    chk W conf r (.quasi o h) x = W.sub x.cls o := by
  simp only [chk]
  split
  · simp
  · simp [chk_ignorable W conf r h _ hig]

theorem chk_map_ign (o : Nat) (kh vh : Hint) (x : Obj) (hw : x.wf W = true) (hcap : CapMap W o)
    (hk : kh.ignorable = true) (hv : vh.ignorable = true) :
    chk W conf r (.mapping o kh vh) x = W.sub x.cls o := by
  simp only [chk]
  cases hsub : W.sub x.cls o with
  | false => simp
  | true =>
    obtain ⟨_, _, hmp⟩ := hcap _ hsub
    have hvl := Obj.wf_map hw hmp
    cases hx : x.items with
    | nil => simp
    | cons k0 ks =>
      cases hxv : x.vals with
      | nil => rw [hx, hxv] at hvl; simp at hvl
      | cons v0 vs => simp [chk_ignorable W conf r kh k0 hk, chk_ignorable W conf r vh v0 hv]

mutual
theorem compile_correct (hW : W.Wf) : ∀ (h : Hint) (p : Pith) (k : Nat) (env : Env) (x : Obj),
    h.WfIn W → h.ignorable = false → x.wf W = true → PithOK W r env p k x →
    ∃ env' n, eval W r env (gen conf h p k) = some (.bool (chk W conf r h x), env', n) ∧ Post env env' p k x
  | .any, _, _, _, _, _, hi, _, _ => by simp [Hint.ignorable] at hi
  | .cls c, p, k, env, x, _, _, _, hp => by
    obtain ⟨env₁, n, he, hf, hb⟩ := raw_ok W r hp
    exact ⟨env₁, n, by simp [gen, eval, he, chk], hf, hb⟩
  | .shallow c, p, k, env, x, _, _, _, hp => by
    obtain ⟨env₁, n, he, hf, hb⟩ := raw_ok W r hp
    exact ⟨env₁, n, by simp [gen, eval, he, chk], hf, hb⟩
  | .typeOf cs, p, k, env, x, _, _, hw, hp => by
    obtain ⟨env₁, n, he, hk', hf⟩ := asg_ok W r hp
    have hpost : Post env env₁ p k x := post_of_asg hk' hf
    simp only [gen, chk, typeOfTest]
    cases hs : W.sub x.cls cType with
    | false => exact ⟨env₁, n, by rw [and_first_false W r he (by simp [hs])]; simp, hpost⟩
    | true =>
      obtain ⟨d, hd⟩ := Obj.wf_klass hw hs
      refine ⟨env₁, n + 0, ?_, hpost⟩
      rw [and_first_true W r he (by simp [hs]) (v := .bool (cs.any (W.sub d))) (env₂ := env₁) (m := 0)
        (by simp [eval, hk', hd])]
      simp [hd]
  | .literal ls, p, k, env, x, hwf, _, _, hp => by
    obtain ⟨env₁, n, he, hk', hf⟩ := asg_ok W r hp
    have hpost : Post env env₁ p k x := post_of_asg hk' hf
    simp only [Hint.WfIn] at hwf
    simp only [gen, chk]
    have hany : (ls.map (·.1)).any (W.sub x.cls) = ls.any (fun l => W.sub x.cls l.1) := by
      simp [List.any_map, Function.comp_def]
    cases hs : ls.any (fun l => W.sub x.cls l.1) with
    | false => exact ⟨env₁, n, by rw [and_first_false W r he (by rw [hany]; exact hs)]; simp, hpost⟩
    | true =>
      have hor : ∀ (ms : List (Nat × Atom)), evalOr W r env₁ (ms.map (fun l => Expr.eqAtom (.var (pv (p.idx k))) l.2))
          = some (ms.any (fun l => x.atom.pyEq l.2), env₁, 0) := by
        intro ms
        induction ms with
        | nil => simp [evalOr]
        | cons m ms ih =>
          simp only [List.map_cons, evalOr, eval, hk', Option.map_some, List.any_cons]
          cases x.atom.pyEq m.2 <;> simp [ih]
      have hne : ls.map (fun l => Expr.eqAtom (.var (pv (p.idx k))) l.2) ≠ [] := by
        cases ls with
        | nil => exact absurd rfl hwf
        | cons a b => simp
      refine ⟨env₁, n + 0, ?_, hpost⟩
      rw [and_first_true W r he (by rw [hany]; exact hs) (eval_orList W r _ _ _ _ _ hne (hor ls))]
      simp
  | .tupleFixed hs, p, k, env, x, hwf, _, hw, hp => by
    obtain ⟨env₁, n, he, hk', hf⟩ := asg_ok W r hp
    have hpost : Post env env₁ p k x := post_of_asg hk' hf
    simp only [Hint.WfIn] at hwf
    simp only [gen, chk]
    cases hsub : W.sub x.cls cTuple with
    | false =>
      refine ⟨env₁, n, ?_, hpost⟩
      split
      · rw [and_first_false W r he (by simp [hsub])]; simp
      · rw [andList, and_first_false W r he (by simp [hsub])]; simp
        intro h; simp at h
    | true =>
      obtain ⟨hidx, hsz⟩ := hW.tuple_cap _ hsub
      cases hs with
      | nil =>
        refine ⟨env₁, n + 0, ?_, hpost⟩
        simp only [List.isEmpty_nil, ↓reduceIte]
        rw [and_first_true W r he (by simp [hsub]) (v := .bool (x.items.length == 0)) (env₂ := env₁) (m := 0)
          (by simp [eval, hk', hsz])]
        simp [chkZip]
      | cons h0 hs0 =>
        simp only [List.isEmpty_cons, Bool.false_eq_true, ↓reduceIte]
        by_cases hlen : x.items.length = hs0.length + 1
        · obtain ⟨env₂, m, hev, hfr⟩ := compile_tuple hW (h0 :: hs0) (p.idx k) 0 env₁ x x.items hwf hw hk' hidx
            (by simp) (by simpa using hlen)
          have hall : evalAnd W r env (Expr.isinst (p.asg k) [cTuple] :: Expr.lenEq (.var (pv (p.idx k))) (h0 :: hs0).length ::
              genTuple conf (h0 :: hs0) (p.idx k) 0) = some (chkZip W conf r (h0 :: hs0) x.items, env₂, n + (0 + m)) := by
            simp [evalAnd, eval, he, hsub, hk', hsz, hlen, hev]
          refine ⟨env₂, n + (0 + m), ?_, ?_⟩
          · rw [eval_andList W r _ _ _ _ _ (by simp) hall]
            simp [hlen]
          · exact ⟨post_trans_keep hf (idx_le p k) hfr, binds_keep hk' hfr⟩
        · have hall : evalAnd W r env (Expr.isinst (p.asg k) [cTuple] :: Expr.lenEq (.var (pv (p.idx k))) (h0 :: hs0).length ::
              genTuple conf (h0 :: hs0) (p.idx k) 0) = some (false, env₁, n + 0) := by
            have : (x.items.length == hs0.length + 1) = false := by simpa using hlen
            simp [evalAnd, eval, he, hsub, hk', hsz, this]
          refine ⟨env₁, n + 0, ?_, hpost⟩
          rw [eval_andList W r _ _ _ _ _ (by simp) hall]
          have : (x.items.length == hs0.length + 1) = false := by simpa using hlen
          simp [this]
  | .seq o h, p, k, env, x, hwf, _, hw, hp => by
    simp only [Hint.WfIn] at hwf
    obtain ⟨hwfh, hcap⟩ := hwf
    simp only [gen, chk]
    by_cases hig : h.ignorable = true
    · obtain ⟨env₁, n, he, hf, hb⟩ := raw_ok W r hp
      refine ⟨env₁, n, ?_, hf, hb⟩
      have := chk_seq_ign W conf r o h x hig
      simp only [chk] at this
      simp [hig, eval, he, this]
    · have hig' : h.ignorable = false := by simpa using hig
      obtain ⟨env₁, n, he, hk', hf⟩ := asg_ok W r hp
      have hpost : Post env env₁ p k x := post_of_asg hk' hf
      simp only [hig', Bool.false_eq_true, ↓reduceIte]
      cases hsub : W.sub x.cls o with
      | false => exact ⟨env₁, n, by rw [and_first_false W r he (by simp [hsub])]; simp, hpost⟩
      | true =>
        obtain ⟨hidx, hsz⟩ := hcap _ hsub
        cases hy : x.items[pickIdx conf r x.items.length]? with
        | none =>
          have hnil : x.items = [] := pick_none_nil conf r hy
          refine ⟨env₁, n + 0, ?_, hpost⟩
          rw [and_first_true W r he (by simp [hsub]) (notlen_or_empty W r hk' hsz hnil)]
          simp
        | some y =>
          have hne : x.items ≠ [] := by intro h0; simp [h0] at hy
          have hwy : y.wf W = true := wfList_mem (Obj.wf_items hw) y (List.mem_of_getElem? hy)
          have hpy : PithOK W r env₁ (.complex (seqItem conf (p.idx k))) (p.idx k) y :=
            read_ok W r (fun env' hag => ⟨1, seqItem_ok W conf r (by rw [hag]; exact hk') hidx hsz hy⟩)
          obtain ⟨env₂, m, hev, hf₂, _⟩ := compile_correct hW h _ (p.idx k) env₁ y hwfh hig' hwy hpy
          refine ⟨env₂, n + m, ?_, post_trans_keep hf (idx_le p k) hf₂, binds_keep hk' hf₂⟩
          rw [and_first_true W r he (by simp [hsub]) (notlen_or_nonempty W r hk' hsz hne hev)]
          simp
  | .reit o h, p, k, env, x, hwf, _, hw, hp => by
    simp only [Hint.WfIn] at hwf
    obtain ⟨hwfh, hcap⟩ := hwf
    simp only [gen, chk]
    by_cases hig : h.ignorable = true
    · obtain ⟨env₁, n, he, hf, hb⟩ := raw_ok W r hp
      refine ⟨env₁, n, ?_, hf, hb⟩
      have := chk_reit_ign W conf r o h x hig
      simp only [chk] at this
      simp [hig, eval, he, this]
    · have hig' : h.ignorable = false := by simpa using hig
      obtain ⟨env₁, n, he, hk', hf⟩ := asg_ok W r hp
      have hpost : Post env env₁ p k x := post_of_asg hk' hf
      simp only [hig', Bool.false_eq_true, ↓reduceIte]
      cases hsub : W.sub x.cls o with
      | false => exact ⟨env₁, n, by rw [and_first_false W r he (by simp [hsub])]; simp, hpost⟩
      | true =>
        obtain ⟨hsz, hri⟩ := hcap _ hsub
        cases hx : x.items with
        | nil =>
          refine ⟨env₁, n + 0, ?_, hpost⟩
          rw [and_first_true W r he (by simp [hsub]) (notlen_or_empty W r hk' hsz hx)]
          simp
        | cons y ys =>
          have hne : x.items ≠ [] := by simp [hx]
          have hwy : y.wf W = true := wfList_mem (Obj.wf_items hw) y (by simp [hx])
          have hpy : PithOK W r env₁ (.complex (.nextIter (.var (pv (p.idx k))))) (p.idx k) y :=
            read_ok W r (fun env' hag => ⟨0 + 1, by simp [eval, hag, hk', hri, hx]⟩)
          obtain ⟨env₂, m, hev, hf₂, _⟩ := compile_correct hW h _ (p.idx k) env₁ y hwfh hig' hwy hpy
          refine ⟨env₂, n + m, ?_, post_trans_keep hf (idx_le p k) hf₂, binds_keep hk' hf₂⟩
          rw [and_first_true W r he (by simp [hsub]) (notlen_or_nonempty W r hk' hsz hne hev)]
          simp
  | .quasi o h, p, k, env, x, hwf, _, hw, hp => by
    simp only [Hint.WfIn] at hwf
    by_cases hig : h.ignorable = true
    · obtain ⟨env₁, n, he, hf, hb⟩ := raw_ok W r hp
      refine ⟨env₁, n, ?_, hf, hb⟩
      rw [chk_quasi_ign W conf r o h x hig]
      simp [gen, hig, eval, he]
    · have hig' : h.ignorable = false := by simpa using hig
      obtain ⟨env₁, n, he, hk', hf⟩ := asg_ok W r hp
      have hpost : Post env env₁ p k x := post_of_asg hk' hf
      simp only [gen, hig', Bool.false_eq_true, ↓reduceIte]
      cases hsub : W.sub x.cls o with
      | false => exact ⟨env₁, n, by rw [and_first_false W r he (by simp [hsub])]; simp [chk, hsub], hpost⟩
      | true =>
        cases hcoll : W.sub x.cls cCollection with
        | false =>
          refine ⟨env₁, n + 0, ?_, hpost⟩
          have hnc' : eval W r env₁ (.not (.isinst (.var (pv (p.idx k))) [cCollection])) = some (.bool true, env₁, 0) := by
            rw [not_isinst W r hk']; simp [hcoll]
          rw [and_first_true W r he (by simp [hsub]) (or_true W r hnc')]
          simp [chk, hsub, hcoll]
        | true =>
          obtain ⟨hsz, hri⟩ := hW.coll_cap _ hcoll
          have hnc : eval W r env₁ (.not (.isinst (.var (pv (p.idx k))) [cCollection])) = some (.bool false, env₁, 0) := by
            rw [not_isinst W r hk']; simp [hcoll]
          cases hx : x.items with
          | nil =>
            refine ⟨env₁, n + (0 + 0), ?_, hpost⟩
            rw [and_first_true W r he (by simp [hsub]) (or_false W r hnc (notlen_or_empty W r hk' hsz hx))]
            simp [chk, hsub, hcoll, hx]
          | cons y0 ys =>
            have hne : x.items ≠ [] := by simp [hx]
            obtain ⟨y, hy⟩ : ∃ y, (if W.sub x.cls cSequence = true then x.items[pickIdx conf r x.items.length]?
                else x.items.head?) = some y := by
              split
              · have := pickIdx_lt conf r (n := x.items.length) (by simp [hx])
                exact ⟨x.items[pickIdx conf r x.items.length], by simp [this]⟩
              · exact ⟨y0, by simp [hx]⟩
            have hwy : y.wf W = true := by
              refine wfList_mem (Obj.wf_items hw) y ?_
              split at hy
              · exact List.mem_of_getElem? hy
              · rw [hx] at hy ⊢; simp at hy; simp [hy]
            obtain ⟨np, hpick⟩ : ∃ np, eval W r env₁
                (.or (.and (.isinst (.var (pv (p.idx k))) [cSequence]) (.bind (pv (p.idx k + 1)) (seqItem conf (p.idx k))))
                     (.bind (pv (p.idx k + 1)) (.nextIter (.var (pv (p.idx k))))))
                = some (.bool true, env₁.set (pv (p.idx k + 1)) y, np) := by
              cases hseq : W.sub x.cls cSequence with
              | true =>
                obtain ⟨hidx, _⟩ := hW.seq_cap _ hseq
                simp only [hseq, ↓reduceIte] at hy
                have h1 : eval W r env₁ (.isinst (.var (pv (p.idx k))) [cSequence]) = some (.bool true, env₁, 0) := by
                  rw [isinst_var W r hk']; simp [hseq]
                exact ⟨_, or_true W r (and_true W r h1 (bind_ok W r (seqItem_ok W conf r hk' hidx hsz hy)))⟩
              | false =>
                simp only [hseq, Bool.false_eq_true, ↓reduceIte] at hy
                have h1 : eval W r env₁ (.isinst (.var (pv (p.idx k))) [cSequence]) = some (.bool false, env₁, 0) := by
                  rw [isinst_var W r hk']; simp [hseq]
                have h2 : eval W r env₁ (.nextIter (.var (pv (p.idx k)))) = some (.obj y, env₁, 0 + 1) := by
                  simp [eval, hk', hri, hy]
                exact ⟨_, or_false W r (and_false W r h1) (bind_ok W r h2)⟩
            have hk₂ : (env₁.set (pv (p.idx k + 1)) y) (pv (p.idx k + 1)) = some y := by simp
            obtain ⟨env₃, m, hev, hf₃, _⟩ := compile_correct hW h .var (p.idx k + 1) _ y hwf hig' hwy (var_ok W r hk₂)
            have hfr : ∀ j, j < p.idx k + 1 → env₃ (pv j) = env₁ (pv j) := by
              intro j hj
              rw [hf₃ j (by simp [Pith.keep]; omega)]
              exact Env.set_other _ _ _ _ (pv_ne (by omega))
            refine ⟨env₃, n + (0 + (np + m)), ?_, post_trans_keep hf (idx_le p k) hfr, binds_keep hk' hfr⟩
            rw [and_first_true W r he (by simp [hsub]) (or_false W r hnc
              (notlen_or_nonempty W r hk' hsz hne (and_true W r hpick hev)))]
            simp only [chk, hsub, hcoll, Bool.not_true, Bool.false_or, Bool.true_and, hy]
  | .mapping o kh vh, p, k, env, x, hwf, _, hw, hp => by
    simp only [Hint.WfIn] at hwf
    obtain ⟨hwfk, hwfv, hcap⟩ := hwf
    by_cases hboth : (kh.ignorable && vh.ignorable) = true
    · simp only [Bool.and_eq_true] at hboth
      obtain ⟨env₁, n, he, hf, hb⟩ := raw_ok W r hp
      refine ⟨env₁, n, ?_, hf, hb⟩
      rw [chk_map_ign W conf r o kh vh x hw hcap hboth.1 hboth.2]
      simp [gen, hboth.1, hboth.2, eval, he]
    · obtain ⟨env₁, n, he, hk', hf⟩ := asg_ok W r hp
      have hpost : Post env env₁ p k x := post_of_asg hk' hf
      have hboth' : (kh.ignorable && vh.ignorable) = false := by simpa using hboth
      simp only [gen, hboth', Bool.false_eq_true, ↓reduceIte]
      cases hsub : W.sub x.cls o with
      | false =>
        refine ⟨env₁, n, ?_, hpost⟩
        split
        · rw [and_first_false W r he (by simp [hsub])]; simp [chk, hsub]
        · split
          · rw [and_first_false W r he (by simp [hsub])]; simp [chk, hsub]
          · rw [and_first_false W r he (by simp [hsub])]; simp [chk, hsub]
      | true =>
        obtain ⟨hsz, hri, hmp⟩ := hcap _ hsub
        have hvl := Obj.wf_map hw hmp
        cases hx : x.items with
        | nil =>
          refine ⟨env₁, n + 0, ?_, hpost⟩
          split
          · rw [and_first_true W r he (by simp [hsub]) (notlen_or_empty W r hk' hsz hx)]; simp [chk, hsub, hx]
          · split
            · rw [and_first_true W r he (by simp [hsub]) (notlen_or_empty W r hk' hsz hx)]; simp [chk, hsub, hx]
            · rw [and_first_true W r he (by simp [hsub]) (notlen_or_empty W r hk' hsz hx)]; simp [chk, hsub, hx]
        | cons k0 ks =>
          have hne : x.items ≠ [] := by simp [hx]
          obtain ⟨v0, vs, hxv⟩ : ∃ v0 vs, x.vals = v0 :: vs := by
            cases hv : x.vals with
            | nil => rw [hx, hv] at hvl; simp at hvl
            | cons a b => exact ⟨a, b, rfl⟩
          have hwk : k0.wf W = true := wfList_mem (Obj.wf_items hw) k0 (by simp [hx])
          have hwv : v0.wf W = true := wfList_mem (Obj.wf_vals hw) v0 (by simp [hxv])
          by_cases hvi : vh.ignorable = true
          · -- only the key is checked
            have hki : kh.ignorable = false := by
              cases hh : kh.ignorable with
              | false => rfl
              | true => simp [hh, hvi] at hboth'
            have hpy : PithOK W r env₁ (.complex (.nextIter (.var (pv (p.idx k))))) (p.idx k) k0 :=
              read_ok W r (fun env' hag => ⟨0 + 1, by simp [eval, hag, hk', hri, hx]⟩)
            obtain ⟨env₂, m, hev, hf₂, _⟩ := compile_correct hW kh _ (p.idx k) env₁ k0 hwfk hki hwk hpy
            refine ⟨env₂, n + m, ?_, post_trans_keep hf (idx_le p k) hf₂, binds_keep hk' hf₂⟩
            simp only [hvi, ↓reduceIte]
            rw [and_first_true W r he (by simp [hsub]) (notlen_or_nonempty W r hk' hsz hne hev)]
            simp [chk, hsub, hx, hxv, chk_ignorable W conf r vh v0 hvi]
          · have hvi' : vh.ignorable = false := by simpa using hvi
            by_cases hki : kh.ignorable = true
            · -- only the value is checked
              have hpy : PithOK W r env₁ (.complex (.nextIterValues (.var (pv (p.idx k))))) (p.idx k) v0 :=
                read_ok W r (fun env' hag => ⟨0 + 1, by simp [eval, hag, hk', hri, hmp, hxv]⟩)
              obtain ⟨env₂, m, hev, hf₂, _⟩ := compile_correct hW vh _ (p.idx k) env₁ v0 hwfv hvi' hwv hpy
              refine ⟨env₂, n + m, ?_, post_trans_keep hf (idx_le p k) hf₂, binds_keep hk' hf₂⟩
              simp only [hvi', hki, Bool.false_eq_true, ↓reduceIte]
              rw [and_first_true W r he (by simp [hsub]) (notlen_or_nonempty W r hk' hsz hne hev)]
              simp [chk, hsub, hx, hxv, chk_ignorable W conf r kh k0 hki]
            · have hki' : kh.ignorable = false := by simpa using hki
              simp only [hvi', hki', Bool.false_eq_true, ↓reduceIte]
              -- key and value
              have hbind : eval W r env₁ (.bind (pv (p.idx k + 1)) (.nextIter (.var (pv (p.idx k)))))
                  = some (.bool true, env₁.set (pv (p.idx k + 1)) k0, 0 + 1) :=
                bind_ok W r (by simp [eval, hk', hri, hx])
              have hk₂ : (env₁.set (pv (p.idx k + 1)) k0) (pv (p.idx k + 1)) = some k0 := by simp
              have hx₂ : (env₁.set (pv (p.idx k + 1)) k0) (pv (p.idx k)) = some x := by
                rw [Env.set_other _ _ _ _ (pv_ne (by omega))]; exact hk'
              obtain ⟨env₃, m, hev, hf₃, _⟩ := compile_correct hW kh .var (p.idx k + 1) _ k0 hwfk hki' hwk (var_ok W r hk₂)
              have hf₃' : ∀ j, j < p.idx k + 2 → env₃ (pv j) = (env₁.set (pv (p.idx k + 1)) k0) (pv j) :=
                fun j hj => hf₃ j (by simpa [Pith.keep] using hj)
              cases hck : chk W conf r kh k0 with
              | false =>
                have hfr : ∀ j, j < p.idx k + 1 → env₃ (pv j) = env₁ (pv j) := by
                  intro j hj
                  rw [hf₃' j (by omega)]
                  exact Env.set_other _ _ _ _ (pv_ne (by omega))
                refine ⟨env₃, n + ((0 + 1) + m), ?_, post_trans_keep hf (idx_le p k) hfr, binds_keep hk' hfr⟩
                rw [hck] at hev
                rw [and_first_true W r he (by simp [hsub]) (notlen_or_nonempty W r hk' hsz hne
                  (and_true W r hbind (and_false W r hev)))]
                simp [chk, hsub, hx, hck]
              | true =>
                have hpy : PithOK W r env₃ (.complex (.idxKey (.var (pv (p.idx k))) (pv (p.idx k + 1)))) (p.idx k + 1) v0 :=
                  fun env' hag => ⟨0 + 1, by
                    have h1 : env' (pv (p.idx k)) = some x := by
                      rw [hag _ (by omega), hf₃' _ (by omega)]; exact hx₂
                    have h2 : env' (pv (p.idx k + 1)) = some k0 := by
                      rw [hag _ (by omega), hf₃' _ (by omega)]; exact hk₂
                    simp [eval, h1, h2, hmp, lookup_first hx hxv]⟩
                obtain ⟨env₄, m', hev', hf₄, _⟩ := compile_correct hW vh _ (p.idx k + 1) env₃ v0 hwfv hvi' hwv hpy
                have hfr : ∀ j, j < p.idx k + 1 → env₄ (pv j) = env₁ (pv j) := by
                  intro j hj
                  rw [hf₄ j (by simp [Pith.keep]; omega), hf₃' j (by omega)]
                  exact Env.set_other _ _ _ _ (pv_ne (by omega))
                refine ⟨env₄, n + ((0 + 1) + (m + m')), ?_, post_trans_keep hf (idx_le p k) hfr, binds_keep hk' hfr⟩
                rw [hck] at hev
                rw [and_first_true W r he (by simp [hsub]) (notlen_or_nonempty W r hk' hsz hne
                  (and_true W r hbind (and_true W r hev hev')))]
                simp [chk, hsub, hx, hxv, hck]
  | .annotated h vs, p, k, env, x, hwf, _, hw, hp => by
    simp only [Hint.WfIn] at hwf
    obtain ⟨hwfh, hvs⟩ := hwf
    simp only [chk]
    by_cases hig : h.ignorable = true
    · rw [chk_ignorable W conf r h x hig]
      simp only [Bool.true_and]
      cases p with
      | var =>
        have hk : env (pv k) = some x := hp
        obtain ⟨env', n, hev, hfv⟩ := vales_code_ok W r vs (pv k) env x hvs hw hk
        exact ⟨env', n, by simp [gen, hig, hev], fun j _ => hfv (pv j) (not_below_pv _ j),
          fun _ => by rw [hfv (pv k) (not_below_pv _ k)]; exact hk⟩
      | complex e =>
        obtain ⟨n₀, he⟩ := hp env (fun _ _ => rfl)
        have hb := bind_ok W r (v := pv (k + 1)) he
        obtain ⟨env', n, hev, hfv⟩ := vales_code_ok W r vs (pv (k + 1)) (env.set (pv (k + 1)) x) x hvs hw (by simp)
        refine ⟨env', n₀ + n, ?_, ?_, by simp [Pith.binds]⟩
        · simp only [gen, hig, ↓reduceIte, Pith.idx]; exact and_true W r hb hev
        · intro j hj
          rw [hfv (pv j) (not_below_pv _ j)]
          exact Env.set_other _ _ _ _ (pv_ne (by simp [Pith.keep] at hj; omega))
      | assign e =>
        obtain ⟨n₀, he⟩ := hp env (fun _ _ => rfl)
        have hb := bind_ok W r (v := pv k) he
        obtain ⟨env', n, hev, hfv⟩ := vales_code_ok W r vs (pv k) (env.set (pv k) x) x hvs hw (by simp)
        refine ⟨env', n₀ + n, ?_, ?_, fun _ => by rw [hfv (pv k) (not_below_pv _ k)]; simp⟩
        · simp only [gen, hig, ↓reduceIte, Pith.idx]; exact and_true W r hb hev
        · intro j hj
          rw [hfv (pv j) (not_below_pv _ j)]
          exact Env.set_other _ _ _ _ (pv_ne (by simp [Pith.keep] at hj; omega))
    · have hig' : h.ignorable = false := by simpa using hig
      obtain ⟨hdown, hkeep, hbinds, _⟩ := down_ok W r hp
      obtain ⟨env₁, n, hev, hf₁, hb₁⟩ := compile_correct hW h p.down (p.idx k) env x hwfh hig' hw hdown
      rw [hkeep] at hf₁
      have hk' := hb₁ hbinds
      simp only [gen, hig', Bool.false_eq_true, ↓reduceIte]
      cases hc : chk W conf r h x with
      | false =>
        rw [hc] at hev
        exact ⟨env₁, n, by rw [and_false W r hev]; simp, post_of_asg hk' hf₁⟩
      | true =>
        rw [hc] at hev
        obtain ⟨env₂, m, hev₂, hfv⟩ := vales_code_ok W r vs (pv (p.idx k)) env₁ x hvs hw hk'
        refine ⟨env₂, n + m, by rw [and_true W r hev hev₂]; simp, ?_⟩
        exact post_of_asg (by rw [hfv _ (not_below_pv _ _)]; exact hk')
          (fun j hj => by rw [hfv _ (not_below_pv _ _)]; exact hf₁ j hj)
  | .union hs, p, k, env, x, hwf, hi, hw, hp => by
    simp only [Hint.WfIn] at hwf
    obtain ⟨hne, hwfl, _⟩ := hwf
    simp only [Hint.ignorable] at hi
    simp only [gen, chk]
    rw [filterMap_cls_any]
    by_cases hnpe : hs.filterMap Hint.cls? = []
    · -- no class member: the first PEP member receives the assignment expression
      obtain ⟨hdown, hkeep, hbinds, _⟩ := down_ok W r hp
      obtain ⟨env', n, hev, hfr, hbk⟩ := compile_union hW hs p.down (p.idx k) env x hwfl hi hw hdown hbinds
      rw [hkeep] at hfr
      have hgne : genUnion conf hs p.down (p.idx k) ≠ [] :=
        genUnion_ne_nil conf (by rw [filter_pep_of_nonpep_nil hnpe]; exact hne)
      refine ⟨env', n, ?_, post_of_asg (hbk hgne) hfr⟩
      simp only [hnpe, List.isEmpty_nil, ↓reduceIte, List.nil_append, List.any_nil, Bool.false_or]
      exact eval_orList W r _ _ _ _ _ hgne hev
    · have hnpe' : (hs.filterMap Hint.cls?).isEmpty = false := by
        cases hh : hs.filterMap Hint.cls? with
        | nil => exact absurd hh hnpe
        | cons a b => rfl
      simp only [hnpe', Bool.false_eq_true, ↓reduceIte]
      by_cases hpe : hs.filter (fun h => h.cls?.isNone) = []
      · -- classes only
        obtain ⟨env₁, n, he, hf, hb⟩ := raw_ok W r hp
        refine ⟨env₁, n, ?_, hf, hb⟩
        simp [hpe, genUnion_nil conf hpe, orList, eval, he, chkAny]
      · have hpe' : (hs.filter (fun h => h.cls?.isNone)).isEmpty = false := by
          cases hh : hs.filter (fun h => h.cls?.isNone) with
          | nil => exact absurd hh hpe
          | cons a b => rfl
        simp only [hpe', Bool.false_eq_true, ↓reduceIte]
        obtain ⟨env₁, n, he, hk', hf⟩ := asg_ok W r hp
        have hfirst : eval W r env (.isinst (p.asg k) (hs.filterMap Hint.cls?)) =
            some (.bool ((hs.filterMap Hint.cls?).any (W.sub x.cls)), env₁, n) := by simp [eval, he]
        cases hany : (hs.filterMap Hint.cls?).any (W.sub x.cls) with
        | true =>
          refine ⟨env₁, n, ?_, post_of_asg hk' hf⟩
          apply eval_orList W r _ _ _ _ _ (by simp)
          rw [hany] at hfirst
          simp [evalOr, hfirst]
        | false =>
          obtain ⟨env₂, m, hev, hfr, _⟩ := compile_union hW hs .var (p.idx k) env₁ x hwfl hi hw (var_ok W r hk') rfl
          have hfr' : ∀ j, j < p.idx k + 1 → env₂ (pv j) = env₁ (pv j) := fun j hj => hfr j (by simpa [Pith.keep] using hj)
          refine ⟨env₂, n + m, ?_, post_trans_keep hf (idx_le p k) hfr', binds_keep hk' hfr'⟩
          rw [hany] at hfirst
          simp only [Bool.false_or]
          apply eval_orList W r _ _ _ _ _ (by simp)
          simp [evalOr, hfirst, hev]
  | .generic c bs, p, k, env, x, hwf, _, hw, hp => by
    simp only [Hint.WfIn] at hwf
    obtain ⟨env₁, n, he, hk', hf⟩ := asg_ok W r hp
    have hpost : Post env env₁ p k x := post_of_asg hk' hf
    simp only [gen, chk]
    cases hsub : W.sub x.cls c with
    | false =>
      have hall : evalAnd W r env (Expr.isinst (p.asg k) [c] :: genBases conf bs (p.idx k)) = some (false, env₁, n) := by
        simp [evalAnd, eval, he, hsub]
      exact ⟨env₁, n, by rw [eval_andList W r _ _ _ _ _ (by simp) hall]; simp, hpost⟩
    | true =>
      obtain ⟨env₂, m, hev, hfr⟩ := compile_bases hW bs (p.idx k) env₁ x hwf.1 hwf.2 hw hk'
      have hall : evalAnd W r env (Expr.isinst (p.asg k) [c] :: genBases conf bs (p.idx k)) =
          some (chkEvery W conf r bs x, env₂, n + m) := by
        simp [evalAnd, eval, he, hsub, hev]
      exact ⟨env₂, n + m, by rw [eval_andList W r _ _ _ _ _ (by simp) hall]; simp,
        post_trans_keep hf (idx_le p k) hfr, binds_keep hk' hfr⟩
theorem compile_bases (hW : W.Wf) : ∀ (hs : List Hint) (k' : Nat) (env : Env) (x : Obj),
    WfInList W hs → anyIgnorable hs = false → x.wf W = true → env (pv k') = some x →
    ∃ env' n, evalAnd W r env (genBases conf hs k') = some (chkEvery W conf r hs x, env', n) ∧
      (∀ j, j < k' + 1 → env' (pv j) = env (pv j))
  | [], k', env, x, _, _, _, _ => ⟨env, 0, by simp [genBases, evalAnd, chkEvery], fun _ _ => rfl⟩
  | h :: hs, k', env, x, hwf, hi, hw, hk => by
    simp only [WfInList] at hwf
    simp only [anyIgnorable, Bool.or_eq_false_iff] at hi
    obtain ⟨env₁, n, hev, hf₁, _⟩ := compile_correct hW h .var k' env x hwf.1 hi.1 hw (var_ok W r hk)
    have hf₁' : ∀ j, j < k' + 1 → env₁ (pv j) = env (pv j) := fun j hj => hf₁ j (by simpa [Pith.keep] using hj)
    simp only [genBases, chkEvery, evalAnd, hev]
    cases hc : chk W conf r h x with
    | false => exact ⟨env₁, n, by simp, hf₁'⟩
    | true =>
      obtain ⟨env₂, m, hev₂, hf₂⟩ := compile_bases hW hs k' env₁ x hwf.2 hi.2 hw (by rw [hf₁' k' (by omega)]; exact hk)
      exact ⟨env₂, n + m, by simp [hev₂], fun j hj => by rw [hf₂ j hj, hf₁' j hj]⟩
theorem compile_union (hW : W.Wf) : ∀ (hs : List Hint) (q : Pith) (k' : Nat) (env : Env) (x : Obj),
    WfInList W hs → anyIgnorable hs = false → x.wf W = true → PithOK W r env q k' x → q.binds = true →
    ∃ env' n, evalOr W r env (genUnion conf hs q k') =
        some (chkAny W conf r (hs.filter (fun h => h.cls?.isNone)) x, env', n) ∧
      (∀ j, j < q.keep k' → env' (pv j) = env (pv j)) ∧ (genUnion conf hs q k' ≠ [] → env' (pv k') = some x)
  | [], q, k', env, x, _, _, _, _, _ =>
    ⟨env, 0, by simp [genUnion, evalOr, chkAny], fun _ _ => rfl, fun h => absurd rfl h⟩
  | h :: hs, q, k', env, x, hwf, hi, hw, hq, hb => by
    simp only [WfInList] at hwf
    simp only [anyIgnorable, Bool.or_eq_false_iff] at hi
    simp only [genUnion]
    cases hc : h.cls? with
    | some c =>
      simp only [Option.isSome_some, ↓reduceIte, List.filter_cons, hc, Option.isNone_some, Bool.false_eq_true]
      exact compile_union hW hs q k' env x hwf.2 hi.2 hw hq hb
    | none =>
      simp only [Option.isSome_none, Bool.false_eq_true, ↓reduceIte, List.filter_cons, hc, Option.isNone_none, chkAny]
      obtain ⟨env₁, n, hev, hf₁, hb₁⟩ := compile_correct hW h q k' env x hwf.1 hi.1 hw hq
      have hk₁ := hb₁ hb
      cases hch : chk W conf r h x with
      | true =>
        rw [hch] at hev
        exact ⟨env₁, n, by simp [evalOr, hev], hf₁, fun _ => hk₁⟩
      | false =>
        rw [hch] at hev
        obtain ⟨env₂, m, hev₂, hf₂, _⟩ := compile_union hW hs .var k' env₁ x hwf.2 hi.2 hw (var_ok W r hk₁) rfl
        have hf₂' : ∀ j, j < k' + 1 → env₂ (pv j) = env₁ (pv j) := fun j hj => hf₂ j (by simpa [Pith.keep] using hj)
        refine ⟨env₂, n + m, by simp [evalOr, hev, hev₂], ?_, fun _ => by rw [hf₂' k' (by omega)]; exact hk₁⟩
        intro j hj
        have : q.keep k' ≤ k' + 1 := by cases q <;> simp_all [Pith.keep, Pith.binds]
        rw [hf₂' j (by omega), hf₁ j hj]
theorem compile_tuple (hW : W.Wf) : ∀ (hs : List Hint) (k' i : Nat) (env : Env) (x : Obj) (ys : List Obj),
    WfInList W hs → x.wf W = true → env (pv k') = some x → W.indexable x.cls = true → x.items.drop i = ys →
    ys.length = hs.length →
    ∃ env' n, evalAnd W r env (genTuple conf hs k' i) = some (chkZip W conf r hs ys, env', n) ∧
      (∀ j, j < k' + 1 → env' (pv j) = env (pv j))
  | [], k', i, env, x, ys, _, _, _, _, _, hl => by
    cases ys with
    | nil => exact ⟨env, 0, by simp [genTuple, evalAnd, chkZip], fun _ _ => rfl⟩
    | cons a b => simp at hl
  | h :: hs, k', i, env, x, ys, hwf, hw, hk, hidx, hd, hl => by
    cases ys with
    | nil => simp at hl
    | cons y ys =>
      simp only [WfInList] at hwf
      obtain ⟨hg, hdrop⟩ := drop_cons_getElem hd
      have hwy : y.wf W = true := wfList_mem (Obj.wf_items hw) y (List.mem_of_getElem? hg)
      simp only [genTuple, chkZip]
      by_cases hig : h.ignorable = true
      · obtain ⟨env', n, hev, hf⟩ := compile_tuple hW hs k' (i + 1) env x ys hwf.2 hw hk hidx hdrop (by simpa using hl)
        exact ⟨env', n, by simp [hig, hev, chk_ignorable W conf r h y hig], hf⟩
      · have hig' : h.ignorable = false := by simpa using hig
        have hpy : PithOK W r env (.complex (.idxConst (.var (pv k')) i)) k' y :=
          read_ok W r (fun env' hag => ⟨0 + 1, by simp [eval, hag, hk, hidx, hg]⟩)
        obtain ⟨env₁, n, hev, hf₁, _⟩ := compile_correct hW h _ k' env y hwf.1 hig' hwy hpy
        simp only [hig', Bool.false_eq_true, ↓reduceIte, evalAnd, hev]
        cases hc : chk W conf r h y with
        | false => exact ⟨env₁, n, by simp, hf₁⟩
        | true =>
          obtain ⟨env₂, m, hev₂, hf₂⟩ := compile_tuple hW hs k' (i + 1) env₁ x ys hwf.2 hw
            (by rw [hf₁ k' (by simp [Pith.keep])]; exact hk) hidx hdrop (by simpa using hl)
          exact ⟨env₂, n + m, by simp [hev₂], fun j hj => by rw [hf₂ j hj, hf₁ j (by simpa [Pith.keep] using hj)]⟩
end

end BearVerif.Bear
