import BearVerif.Core.Bear
/-!
  Recursive PEP 695 aliases. beartype unrolls `type A = body[A]` a bounded number of times and then treats the
  innermost occurrence as ignorable (`list[A]` there is checked as `list`). In the model the occurrence of the alias
  inside its body is a designated class leaf `.cls a`; `substCls a r h` replaces it by `r`. Every hint position is
  positive (hints are never negated; validators hold no hints), hence the meaning is MONOTONE in what is substituted:
  widening the innermost occurrence to `Any` can only widen the meaning, at every unrolling depth.
-/
namespace BearVerif.Bear

mutual
def substCls (a : Nat) (r : Hint) : Hint → Hint
  | .cls c => if c = a then r else .cls c
  | .union hs => .union (substClsL a r hs)
  | .tupleFixed hs => .tupleFixed (substClsL a r hs)
  | .seq o h => .seq o (substCls a r h)
  | .reit o h => .reit o (substCls a r h)
  | .quasi o h => .quasi o (substCls a r h)
  | .mapping o k v => .mapping o (substCls a r k) (substCls a r v)
  | .annotated h vs => .annotated (substCls a r h) vs
  | .generic c bs => .generic c (substClsL a r bs)
  | .any => .any
  | .shallow c => .shallow c
  | .literal ls => .literal ls
  | .typeOf cs => .typeOf cs
def substClsL (a : Nat) (r : Hint) : List Hint → List Hint
  | [] => []
  | h :: hs => substCls a r h :: substClsL a r hs
end

/-- `k` unrollings of the alias body, the innermost occurrence replaced by `bottom` -/
def unroll (a : Nat) (body bottom : Hint) : Nat → Hint
  | 0 => bottom
  | k + 1 => substCls a (unroll a body bottom k) body

variable (W : World)

theorem all_mono {p q : Obj → Bool} (h : ∀ y, p y = true → q y = true) :
    ∀ (l : List Obj), l.all p = true → l.all q = true
  | [], _ => by simp
  | y :: ys, hl => by
    simp only [List.all_cons, Bool.and_eq_true] at hl ⊢
    exact ⟨h y hl.1, all_mono h ys hl.2⟩

mutual
theorem substCls_mono (a : Nat) (r r' : Hint) (hr : ∀ x, sat W r x = true → sat W r' x = true) :
    ∀ (h : Hint) (x : Obj), sat W (substCls a r h) x = true → sat W (substCls a r' h) x = true
  | .cls c, x, hs => by
    simp only [substCls] at hs ⊢
    split
    · next hc => simp only [hc, if_true] at hs; exact hr x hs
    · next hc => simpa only [hc, if_false] using hs
  | .union hs, x, h => by
    simp only [substCls, sat] at h ⊢
    exact substCls_monoAny a r r' hr hs x h
  | .tupleFixed hs, x, h => by
    simp only [substCls, sat, Bool.and_eq_true] at h ⊢
    exact ⟨h.1, substCls_monoZip a r r' hr hs x.items h.2⟩
  | .seq o g, x, h => by
    simp only [substCls, sat, Bool.and_eq_true] at h ⊢
    exact ⟨h.1, all_mono (fun y hy => substCls_mono a r r' hr g y hy) x.items h.2⟩
  | .reit o g, x, h => by
    simp only [substCls, sat, Bool.and_eq_true] at h ⊢
    exact ⟨h.1, all_mono (fun y hy => substCls_mono a r r' hr g y hy) x.items h.2⟩
  | .quasi o g, x, h => by
    simp only [substCls, sat, Bool.and_eq_true, Bool.or_eq_true] at h ⊢
    refine ⟨h.1, ?_⟩
    rcases h.2 with h2 | h2
    · exact Or.inl h2
    · exact Or.inr (all_mono (fun y hy => substCls_mono a r r' hr g y hy) x.items h2)
  | .mapping o k v, x, h => by
    simp only [substCls, sat, Bool.and_eq_true] at h ⊢
    exact ⟨⟨⟨h.1.1.1, h.1.1.2⟩, all_mono (fun y hy => substCls_mono a r r' hr k y hy) x.items h.1.2⟩,
      all_mono (fun y hy => substCls_mono a r r' hr v y hy) x.vals h.2⟩
  | .annotated g vs, x, h => by
    simp only [substCls, sat, Bool.and_eq_true] at h ⊢
    exact ⟨substCls_mono a r r' hr g x h.1, h.2⟩
  | .generic c bs, x, h => by
    simp only [substCls, sat, Bool.and_eq_true] at h ⊢
    exact ⟨h.1, substCls_monoEvery a r r' hr bs x h.2⟩
  | .any, _, h => by simpa only [substCls] using h
  | .shallow _, _, h => by simpa only [substCls] using h
  | .literal _, _, h => by simpa only [substCls] using h
  | .typeOf _, _, h => by simpa only [substCls] using h
theorem substCls_monoAny (a : Nat) (r r' : Hint) (hr : ∀ x, sat W r x = true → sat W r' x = true) :
    ∀ (hs : List Hint) (x : Obj), satAny W (substClsL a r hs) x = true → satAny W (substClsL a r' hs) x = true
  | [], _, h => by simpa only [substClsL] using h
  | g :: gs, x, h => by
    simp only [substClsL, satAny, Bool.or_eq_true] at h ⊢
    rcases h with h | h
    · exact Or.inl (substCls_mono a r r' hr g x h)
    · exact Or.inr (substCls_monoAny a r r' hr gs x h)
theorem substCls_monoZip (a : Nat) (r r' : Hint) (hr : ∀ x, sat W r x = true → sat W r' x = true) :
    ∀ (hs : List Hint) (ys : List Obj), satZip W (substClsL a r hs) ys = true → satZip W (substClsL a r' hs) ys = true
  | [], [], _ => by simp [substClsL, satZip]
  | [], _ :: _, h => by simp [substClsL, satZip] at h
  | _ :: _, [], h => by simp [substClsL, satZip] at h
  | g :: gs, y :: ys, h => by
    simp only [substClsL, satZip, Bool.and_eq_true] at h ⊢
    exact ⟨substCls_mono a r r' hr g y h.1, substCls_monoZip a r r' hr gs ys h.2⟩
theorem substCls_monoEvery (a : Nat) (r r' : Hint) (hr : ∀ x, sat W r x = true → sat W r' x = true) :
    ∀ (hs : List Hint) (x : Obj), satEvery W (substClsL a r hs) x = true → satEvery W (substClsL a r' hs) x = true
  | [], _, _ => by simp [substClsL, satEvery]
  | g :: gs, x, h => by
    simp only [substClsL, satEvery, Bool.and_eq_true] at h ⊢
    exact ⟨substCls_mono a r r' hr g x h.1, substCls_monoEvery a r r' hr gs x h.2⟩
end

/-- unrolling is monotone in the bottom element, at every depth -/
theorem unroll_mono (a : Nat) (body b b' : Hint) (hb : ∀ x, sat W b x = true → sat W b' x = true) :
    ∀ (k : Nat) (x : Obj), sat W (unroll a body b k) x = true → sat W (unroll a body b' k) x = true
  | 0, x, h => hb x h
  | k + 1, x, h => by
    simp only [unroll] at h ⊢
    exact substCls_mono W a _ _ (unroll_mono a body b b' hb k) body x h

theorem unroll_add (a : Nat) (body b : Hint) : ∀ (k j : Nat),
    unroll a body b (k + j) = unroll a body (unroll a body b j) k
  | 0, j => by simp [unroll]
  | k + 1, j => by
    have : k + 1 + j = (k + j) + 1 := by omega
    rw [this]; simp only [unroll]; rw [unroll_add a body b k j]

/-- the hint nobody satisfies: the bottom of the approximation chain of a recursive alias -/
def Hint.bot : Hint := .union []

theorem sat_bot (x : Obj) : sat W Hint.bot x = false := by simp [Hint.bot, sat, satAny]

end BearVerif.Bear
