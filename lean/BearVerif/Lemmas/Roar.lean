import BearVerif.Core.Roar
/-!
  C11 helper lemmas: the `callable_cached` invariant (every cached entry is what the function answers) and its
  preservation; list lookup facts; `runChecks` facts.
-/
namespace BearVerif.Roar

theorem lookup_cons_eq {β : Type} (k k' : Nat) (v : β) (l : List (Nat × β)) :
    List.lookup k ((k', v) :: l) = if k = k' then some v else List.lookup k l := by
  by_cases h : k = k'
  · subst h; simp [List.lookup]
  · have : (k == k') = false := by simp [h]
    simp [List.lookup, this, h]

theorem consistent_empty (f : Key → Own) : Cache.empty.consistent f := by
  refine ⟨?_, ?_, ?_⟩ <;> intro k v h <;> simp [Cache.empty] at h

/-- the state after a call is consistent again -/
theorem tryBody_consistent (f : Key → Own) (c : Cache) (a : Key) (h : c.consistent f) :
    (tryBody f c a).1.consistent f := by
  obtain ⟨hv, ht, ho⟩ := h
  cases a with
  | hashRaises t => exact ⟨hv, ht, ho⟩
  | unhashable u => exact ⟨hv, ht, ho⟩
  | hashable k =>
    simp only [tryBody]
    cases he : c.excs.lookup k with
    | some e => cases e <;> exact ⟨hv, ht, ho⟩
    | none =>
      cases hl : c.vals.lookup k with
      | some v => exact ⟨hv, ht, ho⟩
      | none =>
        cases hf : f (.hashable k) with
        | val v =>
          refine ⟨?_, ht, ho⟩
          intro k' v' h'
          simp only [lookup_cons_eq] at h'
          split at h'
          · next heq => subst heq; cases h'; exact hf
          · exact hv k' v' h'
        | typeErr t =>
          refine ⟨hv, ?_, ?_⟩
          · intro k' t' h'
            simp only [lookup_cons_eq] at h'
            split at h'
            · next heq => subst heq; cases h'; exact hf
            · exact ht k' t' h'
          · intro k' t' h'
            simp only [lookup_cons_eq] at h'
            split at h'
            · cases h'
            · exact ho k' t' h'
        | otherErr t =>
          refine ⟨hv, ?_, ?_⟩
          · intro k' t' h'
            simp only [lookup_cons_eq] at h'
            split at h'
            · cases h'
            · exact ht k' t' h'
          · intro k' t' h'
            simp only [lookup_cons_eq] at h'
            split at h'
            · next heq => subst heq; cases h'; exact hf
            · exact ho k' t' h'

theorem cachedCall_state (f : Key → Own) (c : Cache) (a : Key) : (cachedCall f c a).1 = (tryBody f c a).1 := by
  simp only [cachedCall]
  rcases htb : tryBody f c a with ⟨c', s, n⟩
  cases s <;> rfl

theorem cachedCall_consistent (f : Key → Own) (c : Cache) (a : Key) (h : c.consistent f) :
    (cachedCall f c a).1.consistent f := by
  rw [cachedCall_state]; exact tryBody_consistent f c a h

/-- on a consistent cache the caller observes exactly what the function answers -/
theorem cachedCall_res (f : Key → Own) (c : Cache) (a : Key) (h : c.consistent f) :
    (cachedCall f c a).2.1 = resOf f a := by
  obtain ⟨hv, ht, ho⟩ := h
  cases a with
  | hashRaises t => rfl
  | unhashable u => rfl
  | hashable k =>
    simp only [cachedCall, tryBody, resOf]
    cases he : c.excs.lookup k with
    | some e =>
      cases e with
      | typeErr t => rfl
      | otherErr t => simp [ho k t he]
    | none =>
      cases hl : c.vals.lookup k with
      | some v => simp [hv k v hl]
      | none =>
        cases hf : f (.hashable k) with
        | val v => simp
        | typeErr t => simp
        | otherErr t => simp

/-! ### the ancestor certificates are the reachability relation -/

theorem rowOk_of_wf {t : Table} (h : t.wf = true) {c : Nat} {row : ClassRow} (hc : t[c]? = some row) :
    t.rowOk c row = true := by
  unfold Table.wf at h
  rw [List.all_eq_true] at h
  exact h (row, c) (List.mem_zipIdx_iff_getElem?.mpr hc)

/-- on a well-formed table, `under` decides reachability through base classes -/
theorem under_iff_reach {t : Table} (h : t.wf = true) : ∀ c r, t.under c r = true ↔ Reach t c r := by
  have hsound : ∀ n c, c < n → ∀ r, t.under c r = true → Reach t c r := by
    intro n
    induction n with
    | zero => intro c hc; omega
    | succ n ih =>
      intro c hc r hu
      unfold Table.under Table.ancOf at hu
      cases hrow : t[c]? with
      | none => simp [hrow] at hu
      | some row =>
        simp only [hrow] at hu
        have hok := rowOk_of_wf h hrow
        simp only [Table.rowOk, Bool.and_eq_true, List.all_eq_true, decide_eq_true_eq] at hok
        obtain ⟨⟨⟨hlt, _⟩, _⟩, hex⟩ := hok
        have hr := hex r (List.contains_iff_mem.mp hu)
        simp only [Bool.or_eq_true, beq_iff_eq, List.any_eq_true] at hr
        rcases hr with hr | ⟨b, hb, hrb⟩
        · subst hr; exact Reach.refl hrow
        · have hbc : b < c := hlt b hb
          exact Reach.step hrow hb (ih b (by omega) r (by unfold Table.under; exact hrb))
  intro c r
  constructor
  · exact hsound (c + 1) c (by omega) r
  · intro hre
    induction hre with
    | @refl c row hrow =>
      have hok := rowOk_of_wf h hrow
      simp only [Table.rowOk, Bool.and_eq_true] at hok
      unfold Table.under Table.ancOf
      simp only [hrow]
      exact hok.1.1.2
    | @step c b r row hrow hb _ ih =>
      have hok := rowOk_of_wf h hrow
      simp only [Table.rowOk, Bool.and_eq_true, List.all_eq_true] at hok
      obtain ⟨⟨⟨_, _⟩, hsub⟩, _⟩ := hok
      unfold Table.under Table.ancOf
      simp only [hrow]
      have := hsub b hb r (by unfold Table.under at ih; exact List.contains_iff_mem.mp ih)
      exact this

theorem runChecks_raised_mem (steps : List Step) (i : Nat) (e : Exc) (h : runChecks steps i = some (.raised e)) :
    ∃ s ∈ steps, s.user = some e := by
  induction steps generalizing i with
  | nil => simp [runChecks] at h
  | cons s rest ih =>
    cases s with
    | pass =>
      simp only [runChecks] at h
      obtain ⟨s', hs', hu⟩ := ih (i + 1) h
      exact ⟨s', List.mem_cons_of_mem _ hs', hu⟩
    | fail fd =>
      cases fd with
      | none => simp [runChecks] at h
      | some e' =>
        simp only [runChecks, Option.some.injEq, CallRes.raised.injEq] at h
        subst h
        exact ⟨_, List.mem_cons_self, rfl⟩
    | raises e' =>
      simp only [runChecks, Option.some.injEq, CallRes.raised.injEq] at h
      subst h
      exact ⟨_, List.mem_cons_self, rfl⟩

theorem runChecks_all_pass (steps : List Step) (i : Nat) (h : ∀ s ∈ steps, s = .pass) : runChecks steps i = none := by
  induction steps generalizing i with
  | nil => rfl
  | cons s rest ih =>
    have hs := h s List.mem_cons_self
    subst hs
    simp only [runChecks]
    exact ih (i + 1) (fun s' hs' => h s' (List.mem_cons_of_mem _ hs'))

end BearVerif.Roar
