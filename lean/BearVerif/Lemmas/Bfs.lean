import BearVerif.Core.Bfs
namespace BearVerif.Bfs

def lookup : List (Nat × Node) → Nat → Option Node
  | [], _ => none
  | (i, n) :: q, j => if i = j then some n else lookup q j

/-- what the code means while hints are still queued: every placeholder stands for the recursive text of the
    hint queued under it -/
def resolve (q : List (Nat × Node)) : Code → List String
  | [] => []
  | .txt s :: c => s :: resolve q c
  | .hole j :: c => (match lookup q j with | some n => n.flat | none => []) ++ resolve q c

def qsize : List (Nat × Node) → Nat
  | [] => 0
  | (_, n) :: q => n.size + qsize q

theorem resolve_append (q : List (Nat × Node)) : ∀ (a b : Code), resolve q (a ++ b) = resolve q a ++ resolve q b
  | [], b => by simp [resolve]
  | .txt s :: a, b => by simp [resolve, resolve_append q a b]
  | .hole j :: a, b => by simp [resolve, resolve_append q a b, List.append_assoc]

theorem lookup_append_left (q r : List (Nat × Node)) (j : Nat) (h : (lookup q j).isSome) :
    lookup (q ++ r) j = lookup q j := by
  induction q with
  | nil => simp [lookup] at h
  | cons p q ih =>
    obtain ⟨i, n⟩ := p
    simp only [List.cons_append, lookup] at h ⊢
    split
    · rfl
    · next hne => simp only [hne, if_false] at h; exact ih h

theorem lookup_none_of_lt (q : List (Nat × Node)) (j : Nat) (h : ∀ p ∈ q, j ≠ p.1) : lookup q j = none := by
  induction q with
  | nil => rfl
  | cons p q ih =>
    obtain ⟨i, n⟩ := p
    have h1 : i ≠ j := fun e => h (i, n) (by simp) e.symm
    simp only [lookup, h1, if_false]
    exact ih (fun p hp => h p (by simp [hp]))

theorem lookup_append_right (q r : List (Nat × Node)) (j : Nat) (h : ∀ p ∈ q, j ≠ p.1) :
    lookup (q ++ r) j = lookup r j := by
  induction q with
  | nil => rfl
  | cons p q ih =>
    obtain ⟨i, n⟩ := p
    have h1 : i ≠ j := fun e => h (i, n) (by simp) e.symm
    simp only [List.cons_append, lookup, h1, if_false]
    exact ih (fun p hp => h p (by simp [hp]))

theorem ne_of_lookup_none : ∀ (q : List (Nat × Node)) (j : Nat), lookup q j = none → ∀ p ∈ q, j ≠ p.1
  | [], _, _, p, hp => by cases hp
  | (i, n) :: q, j, h, p, hp => by
    simp only [lookup] at h
    split at h
    · cases h
    · next hne =>
      simp only [List.mem_cons] at hp
      rcases hp with hp | hp
      · subst hp; exact fun e => hne e.symm
      · exact ne_of_lookup_none q j h p hp

/-! ### the snippet of one node -/

theorem snippet_next_le : ∀ (items : List Item) (next : Nat), next ≤ (snippet items next).2.2
  | [], next => by simp [snippet]
  | .txt s :: is, next => by simpa [snippet] using snippet_next_le is next
  | .child n :: is, next => by
    have := snippet_next_le is (next + 1)
    simp only [snippet]; omega

theorem snippet_holes : ∀ (items : List Item) (next : Nat) (j : Nat),
    Tok.hole j ∈ (snippet items next).1 → next ≤ j ∧ j < (snippet items next).2.2
  | [], next, j, h => by simp [snippet] at h
  | .txt s :: is, next, j, h => by
    simp only [snippet, List.mem_cons] at h ⊢
    rcases h with h | h
    · cases h
    · exact snippet_holes is next j h
  | .child n :: is, next, j, h => by
    simp only [snippet, List.mem_cons] at h ⊢
    have hle := snippet_next_le is (next + 1)
    rcases h with h | h
    · cases h; omega
    · have := snippet_holes is (next + 1) j h; omega

theorem snippet_ids : ∀ (items : List Item) (next : Nat) (p : Nat × Node),
    p ∈ (snippet items next).2.1 → next ≤ p.1 ∧ p.1 < (snippet items next).2.2
  | [], next, p, h => by simp [snippet] at h
  | .txt s :: is, next, p, h => by
    simp only [snippet] at h ⊢
    exact snippet_ids is next p h
  | .child n :: is, next, p, h => by
    simp only [snippet, List.mem_cons] at h ⊢
    have hle := snippet_next_le is (next + 1)
    rcases h with h | h
    · subst h; simp; omega
    · have := snippet_ids is (next + 1) p h; omega

theorem snippet_qsize : ∀ (items : List Item) (next : Nat), qsize (snippet items next).2.1 = sizeItems items
  | [], next => by simp [snippet, qsize, sizeItems]
  | .txt s :: is, next => by simpa [snippet, sizeItems] using snippet_qsize is next
  | .child n :: is, next => by simp [snippet, qsize, sizeItems, snippet_qsize is (next + 1)]

/-- under any queue prefix whose placeholders are older, the snippet of a node means the node's recursive text,
    and each of its placeholders is queued -/
theorem snippet_resolve : ∀ (items : List Item) (next : Nat) (pre : List (Nat × Node)),
    (∀ p ∈ pre, p.1 < next) →
    resolve (pre ++ (snippet items next).2.1) (snippet items next).1 = flatItems items ∧
    ∀ j, Tok.hole j ∈ (snippet items next).1 → (lookup (pre ++ (snippet items next).2.1) j).isSome
  | [], next, pre, _ => by simp [snippet, resolve, flatItems]
  | .txt s :: is, next, pre, hpre => by
    obtain ⟨h1, h2⟩ := snippet_resolve is next pre hpre
    simp only [snippet, resolve, flatItems, List.mem_cons]
    refine ⟨by rw [h1], ?_⟩
    intro j hj
    rcases hj with hj | hj
    · cases hj
    · exact h2 j hj
  | .child n :: is, next, pre, hpre => by
    have hpre' : ∀ p ∈ pre ++ [(next, n)], p.1 < next + 1 := by
      intro p hp
      simp only [List.mem_append, List.mem_singleton] at hp
      rcases hp with hp | hp
      · have := hpre p hp; omega
      · subst hp; simp
    obtain ⟨h1, h2⟩ := snippet_resolve is (next + 1) (pre ++ [(next, n)]) hpre'
    have hq : pre ++ (next, n) :: (snippet is (next + 1)).2.1 = (pre ++ [(next, n)]) ++ (snippet is (next + 1)).2.1 := by simp
    have hl : lookup (pre ++ (next, n) :: (snippet is (next + 1)).2.1) next = some n := by
      rw [lookup_append_right pre _ next (fun p hp => by have := hpre p hp; omega)]
      simp [lookup]
    simp only [snippet, resolve, flatItems, List.mem_cons]
    refine ⟨?_, ?_⟩
    · rw [hl, hq, h1]
    · intro j hj
      rcases hj with hj | hj
      · cases hj; rw [hl]; rfl
      · rw [hq]; exact h2 j hj

/-! ### one visit preserves the meaning -/

theorem splice_resolve (i : Nat) (nd : Node) (rest q : List (Nat × Node)) (c : Code) (next : Nat)
    (hc : resolve (rest ++ q) c = nd.flat)
    (hq : ∀ p ∈ q, next ≤ p.1) :
    ∀ (code : Code), (∀ j, Tok.hole j ∈ code → j < next) →
      resolve (rest ++ q) (splice i c code) = resolve ((i, nd) :: rest) code
  | [], _ => by simp [splice, resolve]
  | .txt s :: code, h => by
    simp only [splice, resolve]
    rw [splice_resolve i nd rest q c next hc hq code (fun j hj => h j (by simp [hj]))]
  | .hole j :: code, h => by
    have ih := splice_resolve i nd rest q c next hc hq code (fun j hj => h j (by simp [hj]))
    have hj : j < next := h j (by simp)
    simp only [splice]
    split
    · next hji =>
      subst hji
      rw [resolve_append, hc, ih]
      simp [resolve, lookup]
    · next hji =>
      have hne : ¬ i = j := fun e => hji e.symm
      simp only [resolve, lookup, hne, if_false, ih]
      congr 1
      cases hr : lookup rest j with
      | some n => rw [lookup_append_left rest q j (by simp [hr]), hr]
      | none =>
        have : lookup (rest ++ q) j = none := by
          apply lookup_none_of_lt
          intro p hp
          simp only [List.mem_append] at hp
          rcases hp with hp | hp
          · exact ne_of_lookup_none rest j hr p hp
          · have := hq p hp; omega
        rw [this]

structure Inv (root : Node) (s : State) : Prop where
  meaning : resolve s.queue s.code = root.flat
  holesLt : ∀ j, Tok.hole j ∈ s.code → j < s.next
  idsLt : ∀ p ∈ s.queue, p.1 < s.next
  queued : ∀ j, Tok.hole j ∈ s.code → (lookup s.queue j).isSome

theorem mem_splice (i : Nat) (c : Code) : ∀ (code : Code) (t : Tok), t ∈ splice i c code →
    t ∈ c ∨ (t ∈ code ∧ t ≠ .hole i)
  | [], t, h => by simp [splice] at h
  | .txt s :: code, t, h => by
    simp only [splice, List.mem_cons] at h
    rcases h with h | h
    · subst h; exact Or.inr ⟨by simp, by simp⟩
    · rcases mem_splice i c code t h with h | h
      · exact Or.inl h
      · exact Or.inr ⟨by simp [h.1], h.2⟩
  | .hole j :: code, t, h => by
    simp only [splice] at h
    split at h
    · simp only [List.mem_append] at h
      rcases h with h | h
      · exact Or.inl h
      · rcases mem_splice i c code t h with h | h
        · exact Or.inl h
        · exact Or.inr ⟨by simp [h.1], h.2⟩
    · next hji =>
      simp only [List.mem_cons] at h
      rcases h with h | h
      · subst h; exact Or.inr ⟨by simp, by simpa using hji⟩
      · rcases mem_splice i c code t h with h | h
        · exact Or.inl h
        · exact Or.inr ⟨by simp [h.1], h.2⟩

theorem step_inv (root : Node) (s : State) (h : Inv root s) : Inv root (step s) := by
  obtain ⟨code, queue, next⟩ := s
  cases queue with
  | nil => simpa [step] using h
  | cons p rest =>
    obtain ⟨i, nd⟩ := p
    obtain ⟨items⟩ := nd
    have hi : i < next := h.idsLt (i, .mk items) (by simp)
    have hrest : ∀ p ∈ rest, p.1 < next := fun p hp => h.idsLt p (by simp [hp])
    obtain ⟨hs1, hs2⟩ := snippet_resolve items next rest hrest
    have hle := snippet_next_le items next
    simp only [step]
    refine ⟨?_, ?_, ?_, ?_⟩
    · show resolve (rest ++ (snippet items next).2.1) (splice i (snippet items next).1 code) = root.flat
      rw [splice_resolve i (.mk items) rest _ _ next (by simpa [Node.flat] using hs1)
        (fun p hp => (snippet_ids items next p hp).1) code h.holesLt]
      exact h.meaning
    · intro j hj
      rcases mem_splice i _ code _ hj with hj | hj
      · exact (snippet_holes items next j hj).2
      · have : j < next := h.holesLt j hj.1
        show j < (snippet items next).2.2; omega
    · intro p hp
      simp only [List.mem_append] at hp
      rcases hp with hp | hp
      · have := hrest p hp; show p.1 < (snippet items next).2.2; omega
      · exact (snippet_ids items next p hp).2
    · intro j hj
      rcases mem_splice i _ code _ hj with hj | hj
      · exact hs2 j hj
      · have hq := h.queued j hj.1
        have hne : ¬ i = j := fun e => hj.2 (by rw [e])
        simp only [lookup, hne, if_false] at hq
        show (lookup (rest ++ (snippet items next).2.1) j).isSome
        rw [lookup_append_left rest _ j hq]; exact hq

theorem step_qsize (s : State) (h : s.queue ≠ []) : qsize (step s).queue + 1 = qsize s.queue := by
  obtain ⟨code, queue, next⟩ := s
  cases queue with
  | nil => exact absurd rfl h
  | cons p rest =>
    obtain ⟨i, nd⟩ := p
    obtain ⟨items⟩ := nd
    have happ : ∀ (a b : List (Nat × Node)), qsize (a ++ b) = qsize a + qsize b := by
      intro a b; induction a with
      | nil => simp [qsize]
      | cons p a ih => obtain ⟨_, _⟩ := p; simp [qsize, ih]; omega
    simp only [step, happ, snippet_qsize, qsize, Node.size]; omega

theorem run_inv (root : Node) : ∀ (fuel : Nat) (s : State), Inv root s → Inv root (run fuel s)
  | 0, _, h => h
  | fuel + 1, s, h => run_inv root fuel (step s) (step_inv root s h)

theorem run_done : ∀ (fuel : Nat) (s : State), qsize s.queue ≤ fuel → (run fuel s).queue = []
  | 0, s, h => by
    obtain ⟨code, queue, next⟩ := s
    cases queue with
    | nil => rfl
    | cons p rest =>
      obtain ⟨i, nd⟩ := p
      obtain ⟨items⟩ := nd
      simp [qsize, Node.size] at h
  | fuel + 1, s, h => by
    simp only [run]
    by_cases hq : s.queue = []
    · have : step s = s := by
        obtain ⟨code, queue, next⟩ := s
        simp only at hq; subst hq; rfl
      rw [this]; exact run_done fuel s (by rw [hq]; simp [qsize])
    · have := step_qsize s hq
      exact run_done fuel (step s) (by omega)

theorem init_inv (root : Node) : Inv root (init root) := by
  refine ⟨by simp [init, resolve, lookup], ?_, ?_, ?_⟩
  · intro j hj; simp [init] at hj; simp [init, hj]
  · intro p hp; simp [init] at hp; simp [init, hp]
  · intro j hj; simp [init] at hj; simp [init, hj, lookup]

theorem resolve_nil_text : ∀ (c : Code), resolve [] c = Code.text c
  | [] => rfl
  | .txt s :: c => by simp [resolve, Code.text, resolve_nil_text c]
  | .hole j :: c => by simp [resolve, Code.text, lookup, resolve_nil_text c]

theorem holeFree_of_none : ∀ (c : Code), (∀ j, Tok.hole j ∉ c) → Code.holeFree c = true
  | [], _ => rfl
  | .txt s :: c, h => by
    simp only [Code.holeFree]
    exact holeFree_of_none c (fun j hj => h j (by simp [hj]))
  | .hole j :: c, h => absurd (by simp) (h j)

/-- **The placeholder mechanism computes the recursive composition.** Starting from the root placeholder and
    visiting queued hints first-in first-out until the queue is empty (at most `root.size` visits), the generated
    code holds no placeholder any more and its text is exactly the recursive text of the root. -/
theorem bfs_eq_flat (root : Node) :
    (run root.size (init root)).queue = [] ∧ Code.holeFree (run root.size (init root)).code = true ∧
    Code.text (run root.size (init root)).code = root.flat := by
  have hinv := run_inv root root.size (init root) (init_inv root)
  have hdone := run_done root.size (init root) (by simp [init, qsize])
  refine ⟨hdone, ?_, ?_⟩
  · apply holeFree_of_none
    intro j hj
    have := hinv.queued j hj
    rw [hdone] at this
    simp [lookup] at this
  · have := hinv.meaning
    rw [hdone, resolve_nil_text] at this
    exact this

end BearVerif.Bfs
