import BearVerif.Core.Loop
import BearVerif.Driver.C19
/-! C19 driver: `lake env lean --run MainC19.lean`; requests `(c19 matrix|sats|kids …)`. -/
open BearVerif
def main : IO Unit := runLoop fun
  | .list (.atom "c19" :: args) => Door.handle args
  | _ => none
