import BearVerif.Core.Loop
import BearVerif.Driver.C17
/-! C17 driver: `lake env lean --run MainC17.lean`; requests `(c17 (OP …))`. -/
open BearVerif
def main : IO Unit := runLoop fun
  | .list (.atom "c17" :: args) => Conf.handle args
  | _ => none
