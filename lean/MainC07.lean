import BearVerif.Core.Loop
import BearVerif.Driver.C07
/-! C07 driver: `lake env lean --run MainC07.lean`; requests `(c07 run BUILTINS HEAP EVENTS)`. -/
open BearVerif
def main : IO Unit := runLoop fun
  | .list (.atom "c07" :: args) => Fwd.handle args
  | _ => none
