import BearVerif.Core.Loop
import BearVerif.Driver.C04
/-! C04 driver: `lake env lean --run MainC04.lean`; requests `(c04 SIG (CALL…))`. -/
open BearVerif
def main : IO Unit := runLoop fun
  | .list (.atom "c04" :: args) => Wrap.handle args
  | _ => none
