import BearVerif.Core.Loop
import BearVerif.Driver.C04
/-! C04 driver: `lake env lean --run MainC04.lean`; requests `( c04 SIG ( CALL… ) )`, every parenthesis
    blank-separated (`Wrap.serve` = `runLoop` with a natively tokenising front end, see Driver/C04.lean). -/
open BearVerif
def main : IO Unit := Wrap.serve
