import BearVerif.Core.Loop
import BearVerif.Driver.C16
/-! C16 driver: `lake env lean --run MainC16.lean`; requests `(c16 RECIPE RUNS)` and `(c16info)`. -/
open BearVerif
def main : IO Unit := runLoop fun
  | .list [.atom "c16info"] => some Pyc.info
  | .list (.atom "c16" :: args) => Pyc.handle args
  | _ => none
