import BearVerif.Core.Sexp
import BearVerif.Driver.C06
/-!
  Line-protocol driver: one s-expression request per stdin line, one response per
  stdout line: `(ok …)` or `(bad-op)` — never a default answer.
  Run with `lake env lean --run Main.lean`.
-/
open BearVerif

def dispatch (req : Sexp) : Option Sexp :=
  match req with
  | .list (.atom "c06" :: args) => Claw.handle args
  | _ => none

partial def loop (h : IO.FS.Stream) (out : IO.FS.Stream) : IO Unit := do
  let line ← h.getLine
  if line.isEmpty then return ()
  let resp := match Sexp.parse line with
    | some req => (match dispatch req with
        | some r => "(ok " ++ r.toStr ++ ")"
        | none => "(bad-op)")
    | none => "(bad-op)"
  out.putStrLn resp
  loop h out

def main : IO Unit := do
  let out ← IO.getStdout
  loop (← IO.getStdin) out
  out.flush
