import BearVerif.Core.Loop
import BearVerif.Driver.C08
/-! C08 driver: `lake env lean --run MainC08.lean`; requests `(c08 aut KIND OBJOK CHK TABLE OPS)` / `(c08 kind CORO GEN AGEN)`. -/
open BearVerif
def main : IO Unit := runLoop fun
  | .list (.atom "c08" :: args) => Gen.handle args
  | _ => none
