import BearVerif.Core.Loop
import BearVerif.Driver.C13
/-! C13 driver: `lake env lean --run MainC13.lean`; requests `(c13 ENV CONF OBJECT N)`. -/
open BearVerif
def main : IO Unit := runLoop fun
  | .list (.atom "c13" :: args) => Decor.handle args
  | _ => none
