import BearVerif.Core.Loop
import BearVerif.Driver.C06
/-! C06 driver: `lake env lean --run MainC06.lean`; requests `(c06 BUILTIN OPS QUERIES)`. -/
open BearVerif
def main : IO Unit := runLoop fun
  | .list (.atom "c06" :: args) => Claw.handle args
  | _ => none
