import BearVerif.Core.Loop
import BearVerif.Driver.C05
/-! C05 driver: `lake env lean --run MainC05.lean`; requests `(c05 CONF MODULE)`. -/
open BearVerif
def main : IO Unit := runLoop fun
  | .list (.atom "c05" :: args) => ClawAst.handle args
  | _ => none
