import BearVerif.Core.Loop
import BearVerif.Driver.C15
/-! C15 driver: `lake env lean --run MainC15.lean`; requests `(c15 skeleton | lockorder … | goc … | memo …)`. -/
open BearVerif
def main : IO Unit := runLoop fun
  | .list (.atom "c15" :: args) => Conc.handle args
  | _ => none
