import BearVerif.Core.Loop
import BearVerif.Driver.Bear
/-! Bear core driver: `lake env lean --run MainBear.lean`. -/
open BearVerif
def main : IO Unit := runLoop Bear.handle
