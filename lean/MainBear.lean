import BearVerif.Core.Loop
import BearVerif.Driver.Bear
import BearVerif.Driver.Cause
/-! Bear core driver: `lake env lean --run MainBear.lean` (native: `beardriver`). Requests: `(gen …)`, `(run …)`,
    `(bfs …)` (placeholder mechanism), `(cause …)` (instrumented violation finder). -/
open BearVerif
def main : IO Unit := runLoop fun req =>
  match Bear.handle req with
  | some r => some r
  | none => Bear.causeHandle req
