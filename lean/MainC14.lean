import BearVerif.Core.Loop
import BearVerif.Driver.C14
/-! C14 driver: `lake env lean --run MainC14.lean`; requests `(c14 (OP…))`. -/
open BearVerif
def main : IO Unit := runLoop fun
  | .list (.atom "c14" :: args) => Memo.handle args
  | _ => none
