import BearVerif.Core.Loop
import BearVerif.Driver.C11
/-! C11 driver: `lake env lean --run MainC11.lean`; requests `(c11 …)` (see BearVerif/Driver/C11.lean). -/
open BearVerif
def main : IO Unit := runLoop fun
  | .list (.atom "c11" :: args) => Roar.handle args
  | _ => none
