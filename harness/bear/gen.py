"""Seeded generators of real hints and real objects for the Bear core.

Hints are built compositionally over the whole sign alphabet of the property's
quantifier; objects are generated FROM the hint (mostly conforming) and then
optionally perturbed at one position (mutated stream). Conformance is never assumed:
the Lean model's `sat` classifies every (hint, object) pair."""
from __future__ import annotations

import collections
import collections.abc as A
import random
import typing as T

from beartype.vale import Is, IsAttr, IsEqual, IsInstance, IsSubclass

from .model import reg_vale


# ---------------------------------------------------------------- user classes
class U0:
    def __init__(self, **kw):
        self.__dict__.update(kw)

    def __repr__(self):
        return f'{type(self).__name__}({self.__dict__})'


class U1(U0):
    pass


class U2(U0):
    pass


def _twin_of_u0():
    class U0:                                   # noqa: F811
        def __init__(self, **kw):
            self.__dict__.update(kw)

        def __repr__(self):
            return f'U0twin({self.__dict__})'
    U0.__qualname__ = 'U0'
    return U0


# a DIFFERENT class with the same module, name and repr() as U0 (a class made again by a factory / a reloaded module):
# caches may key on the hint, never on its repr
U0_TWIN = _twin_of_u0()


class UserSeq(A.Sequence):
    def __init__(self, xs):
        self._xs = list(xs)

    def __getitem__(self, i):
        return self._xs[i]

    def __len__(self):
        return len(self._xs)

    def __repr__(self):
        return f'UserSeq({self._xs})'


class UserMap(A.Mapping):
    def __init__(self, d):
        self._d = dict(d)

    def __getitem__(self, k):
        return self._d[k]

    def __iter__(self):
        return iter(self._d)

    def __len__(self):
        return len(self._d)

    def __repr__(self):
        return f'UserMap({self._d})'


class UserSet(A.Set):
    def __init__(self, xs):
        self._xs = list(dict.fromkeys(xs))

    def __contains__(self, x):
        return x in self._xs

    def __iter__(self):
        return iter(self._xs)

    def __len__(self):
        return len(self._xs)

    def __repr__(self):
        return f'UserSet({self._xs})'


class FalsyDict(dict):
    """containers whose truth value does not follow their length (flag dicts, result tuples …)"""
    def __bool__(self):
        return False


class FalsyList(list):
    def __bool__(self):
        return False


class FalsyTuple(tuple):
    def __bool__(self):
        return False


class OneShot:
    """An Iterable that is not a Collection: iterating consumes it."""
    def __init__(self, xs):
        self._it = iter(list(xs))
        self.consumed = 0

    def __iter__(self):
        return self

    def __next__(self):
        self.consumed += 1
        return next(self._it)

    def __repr__(self):
        return 'OneShot(...)'


class SizedOneShot(OneShot):
    """A one-shot iterator that also knows its length (Sized and Iterable, yet no Collection: no __contains__)."""
    def __init__(self, xs):
        xs = list(xs)
        super().__init__(xs)
        self._n = len(xs)

    def __len__(self):
        return self._n

    def __repr__(self):
        return 'SizedOneShot(...)'


class ContainerOneShot(OneShot):
    """A one-shot iterator with __contains__ but no __len__ (Container and Iterable, yet no Collection)."""
    def __contains__(self, y):
        return False

    def __repr__(self):
        return 'ContainerOneShot(...)'


class CollectionOneShot(SizedOneShot):
    """A cursor-style Collection (__len__, __contains__, __iter__) that is its own one-shot iterator."""
    def __contains__(self, y):
        return False

    def __repr__(self):
        return 'CollectionOneShot(...)'


@T.runtime_checkable
class Proto(T.Protocol):
    def meth(self) -> int: ...


class Impl:
    """implements Proto structurally"""
    def meth(self) -> int:
        return 1

    def __repr__(self):
        return 'Impl()'


_TG = T.TypeVar('_TG')


class Box(list[_TG]):
    """user generic with an unerased pseudo-superclass: Box[int] = a Box that is a list[int]"""


class Pair(T.Generic[_TG]):
    """user generic without pseudo-superclasses: Pair[int] is checked by isinstance alone"""
    def __init__(self, x=None):
        self.x = x

    def __repr__(self):
        return f'Pair({self.x!r})'


class Tagged(Box[int], T.Generic[_TG]):
    """old-style generic REBINDING the shared type variable in its base: Tagged[str] is a Box[int], i.e. a list[int]"""


class Row(tuple[_TG, Box[int]], T.Generic[_TG]):
    """Row[str] is a tuple[str, Box[int]]"""


# user predicates of Is[...]: SAME table as predTable in lean/BearVerif/Driver/Bear.lean
PRED_FUNCS = [
    lambda x: True,
    lambda x: False,
    lambda x: isinstance(x, int) and x > 0,
    lambda x: isinstance(x, A.Collection) and len(x) > 0,
    lambda x: isinstance(x, str) and len(x) >= 2,
]
IS_VALIDATORS = [reg_vale(Is[f], ['fn', str(i)]) for i, f in enumerate(PRED_FUNCS)]


def pred_ids() -> dict:
    """id(callable placed in the generated scope) -> predicate number"""
    out = {}
    for i, v in enumerate(IS_VALIDATORS):
        out[id(v.is_valid)] = i
        out[id(PRED_FUNCS[i])] = i
    return out


TV_BOUND = T.TypeVar('TV_BOUND', bound=int)
TV_CONSTR = T.TypeVar('TV_CONSTR', str, bytes)
TV_FREE = T.TypeVar('TV_FREE')
NT_INT = T.NewType('NT_INT', int)
NT_LIST = T.NewType('NT_LIST', list)

# PEP 695 type aliases (non-recursive): of a class, of an ignorable hint, of a container, of a union
type AL_INT = int
type AL_ANY = T.Any
type AL_LIST = list[int]
type AL_UNION = int | str
type AL_AL = AL_INT
# recursive aliases: checked to the depth beartype unrolls them (DESIGN §13.2)
type AL_REC = int | list[AL_REC]
type AL_RECD = dict[str, AL_RECD] | None
type AL_RECT = tuple[int, AL_RECT] | None

LEAF_HASHABLE = [int, str, bool, float, type(None), None, T.Literal[1, 'a'], T.Literal[True], T.Literal[0, None],
                 # literals that are == and hash-equal across types (True/1, False/0), in both orders; literals whose hashes
                 # collide although they differ (hash(-1) == hash(-2))
                 T.Literal[True, 1], T.Literal[1, True], T.Literal[False, 0, 'a'], T.Literal[-1], T.Literal[-2], T.Literal[-2, 'a'],
                 TV_BOUND, NT_INT, T.Optional[int], int | str, AL_INT, AL_UNION, AL_AL, AL_INT | None]
LEAF_OTHER = [Tagged[str], Tagged, Row[str], list[Tagged[str]], U0_TWIN, list[U0_TWIN], Proto, Box[int], Box[str], Box, Pair[int], Pair, T.Union[Box[int], Box[str]], T.Union[Box[str], Box[int], None], U0, U1, object, T.Any, type[int], type[U0], type[T.Any], A.Iterator[int], A.Callable[[int], str],
              A.Generator[int, None, None], A.ItemsView[str, int], T.List, TV_FREE, TV_CONSTR, NT_LIST, list, dict,
              complex, bytes, A.Hashable, A.Sized, AL_ANY, AL_LIST, AL_ANY | int, T.Optional[AL_ANY], T.Union[AL_LIST, str],
              AL_REC, AL_RECD, AL_RECT, list[AL_REC]]


class HintGen:
    def __init__(self, reg, rng: random.Random):
        self.reg, self.rng = reg, rng

    def vale(self, depth=0):
        r = self.rng
        k = r.randrange(9 if depth < 2 else 5)
        if k == 0:
            return r.choice(IS_VALIDATORS), None
        if k == 1:
            a = r.choice([1, 0, True, 'a', 'ab', None])
            from .model import atom_of
            v = IsEqual[a]
            return reg_vale(v, ['eq', atom_of(a, self.reg)]), None
        if k == 2:
            cs = r.choice([(int,), (str,), (list,), (U0,), (int, str), (bool,)])
            return reg_vale(IsInstance[cs], ['inst'] + [str(self.reg.id(c)) for c in cs]), None
        if k == 3:
            cs = r.choice([(int,), (U0,), (str, U1)])
            return reg_vale(IsSubclass[cs], ['subc'] + [str(self.reg.id(c)) for c in cs]), None
        if k == 4:
            n = r.choice(['x', 'y', 'z'])
            inner, _ = self.vale(depth + 1)
            from .model import VALE_REGISTRY
            return reg_vale(IsAttr[n, inner], ['attr', n, VALE_REGISTRY[id(inner)]]), None
        from .model import VALE_REGISTRY
        a, _ = self.vale(depth + 1)
        if k in (5, 6):
            b, _ = self.vale(depth + 1)
            if k == 5:
                return reg_vale(a & b, ['and', VALE_REGISTRY[id(a)], VALE_REGISTRY[id(b)]]), None
            return reg_vale(a | b, ['or', VALE_REGISTRY[id(a)], VALE_REGISTRY[id(b)]]), None
        if k == 7:
            return reg_vale(~a, ['not', VALE_REGISTRY[id(a)]]), None
        return self.vale(depth + 1)

    def hint(self, depth: int, hashable: bool = False):
        r = self.rng
        if depth <= 0 or r.random() < 0.25:
            return r.choice(LEAF_HASHABLE if hashable or r.random() < 0.6 else LEAF_OTHER)
        sub = lambda **kw: self.hint(depth - 1, **kw)
        kinds = ['tuplefix', 'tuplevar', 'frozenset', 'union', 'optional', 'annotated'] if hashable else [
            'list', 'tuplefix', 'tuplevar', 'seq', 'mutseq', 'set', 'frozenset', 'absset', 'keysview', 'valuesview',
            'collection', 'deque', 'iterable', 'container', 'reversible', 'dict', 'mapping', 'defaultdict',
            'ordereddict', 'counter', 'union', 'union', 'optional', 'annotated', 'annotated', 'mutset', 'mutmapping']
        k = r.choice(kinds)
        if k == 'list':
            return list[sub()]
        if k == 'tuplefix':
            n = r.choice([0, 1, 2, 2, 3])
            return tuple[()] if n == 0 else tuple[tuple(sub(hashable=hashable) for _ in range(n))]
        if k == 'tuplevar':
            return tuple[sub(hashable=hashable), ...]
        if k == 'seq':
            return A.Sequence[sub()]
        if k == 'mutseq':
            return A.MutableSequence[sub()]
        if k == 'set':
            return set[sub(hashable=True)]
        if k == 'frozenset':
            return frozenset[sub(hashable=True)]
        if k == 'absset':
            return A.Set[sub(hashable=True)]
        if k == 'mutset':
            return A.MutableSet[sub(hashable=True)]
        if k == 'keysview':
            return A.KeysView[sub(hashable=True)]
        if k == 'valuesview':
            return A.ValuesView[sub()]
        if k == 'collection':
            return A.Collection[sub()]
        if k == 'deque':
            return collections.deque[sub()]
        if k == 'iterable':
            return A.Iterable[sub()]
        if k == 'container':
            return A.Container[sub()]
        if k == 'reversible':
            return A.Reversible[sub()]
        if k == 'dict':
            return dict[sub(hashable=True), sub()]
        if k == 'mapping':
            return A.Mapping[sub(hashable=True), sub()]
        if k == 'mutmapping':
            return A.MutableMapping[sub(hashable=True), sub()]
        if k == 'defaultdict':
            return collections.defaultdict[sub(hashable=True), sub()]
        if k == 'ordereddict':
            return collections.OrderedDict[sub(hashable=True), sub()]
        if k == 'counter':
            return collections.Counter[sub(hashable=True)]
        if k == 'union':
            n = r.choice([2, 2, 3, 4])
            return T.Union[tuple(sub(hashable=hashable) for _ in range(n))]
        if k == 'optional':
            return T.Optional[sub(hashable=hashable)]
        if k == 'annotated':
            base = sub(hashable=hashable)
            vs = tuple(self.vale()[0] for _ in range(r.choice([1, 1, 2, 3])))
            try:
                return T.Annotated[(base,) + vs]
            except TypeError:
                return base
        raise AssertionError(k)


LEAF_OBJECTS = [Impl(), Box([1, 2]), Box(['a']), Box(), Pair(1), 0, 1, -3, 7, True, False, 'a', 'ab', '', None, 2.5, 1j, b'x', U0(x=1), U1(x=0, y='ab'), U2(), int, U1, str,
                U0(x=U1(y=1), z=[1]), len]


class ObjGen:
    def __init__(self, rng: random.Random):
        self.rng = rng

    def size(self):
        return self.rng.choice([0, 1, 1, 2, 3, 5])

    def anything(self, hashable=False):
        r = self.rng
        x = r.choice(LEAF_OBJECTS)
        if hashable:
            try:
                hash(x)
            except TypeError:
                return 0
            return x
        if r.random() < 0.3:
            return r.choice([[1, 'a'], (1, 2), {1: 'a'}, {1, 2}, [], (), {}, [[1]], ['a', 1], UserSeq([1, 2]),
                             UserMap({'a': 1}), collections.deque([1]), frozenset({1})])
        return x

    def make(self, h, depth=0, hashable=False):
        """An object intended to conform to real hint `h` (not guaranteed)."""
        import types
        r = self.rng
        if depth > 6:
            return self.anything(hashable)
        if h is T.Any or h is object:
            return self.anything(hashable)
        if h is None or h is type(None):
            return None
        if isinstance(h, T.TypeVar):
            if h.__bound__ is not None:
                return self.make(h.__bound__, depth + 1, hashable)
            if h.__constraints__:
                return self.make(r.choice(h.__constraints__), depth + 1, hashable)
            return self.anything(hashable)
        if hasattr(h, '__supertype__'):
            return self.make(h.__supertype__, depth + 1, hashable)
        if isinstance(h, T.TypeAliasType):
            return self.make(h.__value__, depth + 1, hashable)
        if isinstance(h, type) and not isinstance(h, types.GenericAlias):
            return self.of_class(h, hashable)
        origin, args = T.get_origin(h), T.get_args(h)
        if origin is T.Union or isinstance(h, types.UnionType):
            return self.make(r.choice(args), depth + 1, hashable)
        if origin is T.Literal:
            # mostly a listed value; otherwise a look-alike of listed values (== across types, colliding hashes)
            return r.choice(args) if r.random() < 0.6 else r.choice([-1, -2, 1, True, 0, False, 'a', None])
        if origin is T.Annotated:
            if r.random() < 0.6:
                from .model import VALE_REGISTRY
                w = self.witness(VALE_REGISTRY.get(id(r.choice(h.__metadata__))))
                if w is not None:
                    return w
            return self.make(h.__origin__, depth + 1, hashable)
        mk = lambda a, **kw: self.make(a, depth + 1, **kw)
        if origin is tuple:
            if len(args) == 2 and args[1] is Ellipsis:
                return tuple(mk(args[0], hashable=hashable) for _ in range(self.size()))
            return tuple(mk(a, hashable=hashable) for a in args if a != ())
        if origin is type:
            a = args[0]
            if a is T.Any or a is object:
                return r.choice([int, U0, str])
            cands = [c for c in (int, bool, str, U0, U1, U2) if isinstance(a, type) and issubclass(c, a)]
            return r.choice(cands or [int])
        if origin is collections.Counter:
            return collections.Counter({self.hkey(mk, args[0]): r.randrange(1, 4) for _ in range(self.size())})
        if origin in (dict, A.Mapping, A.MutableMapping, collections.defaultdict, collections.OrderedDict, collections.ChainMap) and len(args) == 2:
            d = {self.hkey(mk, args[0]): mk(args[1]) for _ in range(self.size())}
            if origin is collections.defaultdict:
                return collections.defaultdict(list, d)
            if origin is collections.OrderedDict:
                return collections.OrderedDict(d)
            if origin is A.Mapping and r.random() < 0.4:
                return UserMap(d)
            return d
        if len(args) == 1:
            a = args[0]
            n = self.size()
            if origin is list or origin is A.MutableSequence:
                return [mk(a) for _ in range(n)]
            if origin is A.Sequence:
                xs = [mk(a, hashable=hashable) for _ in range(n)]
                return r.choice([list, tuple, UserSeq])(xs) if not hashable else tuple(xs)
            if origin in (set, A.MutableSet):
                return {self.hkey(mk, a) for _ in range(n)}
            if origin is frozenset:
                return frozenset(self.hkey(mk, a) for _ in range(n))
            if origin is A.Set:
                xs = [self.hkey(mk, a) for _ in range(n)]
                return r.choice([set, frozenset, UserSet])(xs)
            if origin is A.KeysView:
                return {self.hkey(mk, a): 0 for _ in range(n)}.keys()
            if origin is A.ValuesView:
                return {i: mk(a) for i in range(n)}.values()
            if origin is collections.deque:
                return collections.deque(mk(a) for _ in range(n))
            if origin in (A.Collection, A.Container):
                xs = [mk(a) for _ in range(n)]
                k = r.randrange(3)
                if k == 0:
                    return xs
                if k == 1:
                    return tuple(xs)
                try:
                    return set(xs)
                except TypeError:
                    return xs
            if origin is A.Reversible:
                return r.choice([list, tuple])(mk(a) for _ in range(n))
            if origin is A.Iterable:
                xs = [mk(a) for _ in range(n)]
                k = r.randrange(5)
                if k == 0:
                    return xs
                if k == 1:
                    return tuple(xs)
                if k == 2:
                    return r.choice([OneShot, SizedOneShot, ContainerOneShot])(xs)
                if k == 3:
                    return (y for y in xs)
                return UserSeq(xs)
        if origin is Box:
            return Box(mk(args[0]) for _ in range(self.size()))
        if origin is Pair:
            return Pair(mk(args[0]))
        if origin is Tagged:
            return Tagged(r.choice([[1, 2, 3], [], [0], ['a']]))
        if origin is Row:
            return Row((mk(args[0]), Box(r.choice([[1, 2], [], ['a']]))))
        if origin is A.Iterator:
            return iter([1, 2])
        if origin is A.Generator:
            return (i for i in range(2))
        if origin is A.Callable:
            return len
        if origin is A.ItemsView:
            return {'a': 1}.items()
        if isinstance(origin, type):
            return self.of_class(origin, hashable)
        return self.anything(hashable)

    def witness(self, vm):
        """An object likely to satisfy the model validator `vm` (None: no idea)."""
        r = self.rng
        if not vm:
            return None
        k = vm[0]
        if k == 'eq':
            a = vm[1]
            if a == 'none':
                return None
            return {'b': lambda: a[1] == 'true', 'i': lambda: int(a[1]), 's': lambda: a[1]}.get(a[0], lambda: None)()
        if k == 'attr':
            inner = self.witness(vm[2])
            return U0(**{vm[1]: inner if inner is not None else r.choice([1, 'ab', [1]])})
        if k == 'fn':
            return {'0': 7, '2': 3, '3': [1], '4': 'ab'}.get(vm[1])
        if k == 'inst':
            return r.choice([1, 'ab', [1], U0(x=1), True])
        if k == 'subc':
            return r.choice([int, U0, U1, str])
        if k in ('and', 'or'):
            return self.witness(r.choice(vm[1:]))
        return None

    def hkey(self, mk, a):
        x = mk(a, hashable=True)
        try:
            hash(x)
            return x
        except TypeError:
            return 0

    def of_class(self, c, hashable=False):
        r = self.rng
        table = {int: lambda: r.choice([0, 1, -3, 7, True]), bool: lambda: r.choice([True, False]),
                 str: lambda: r.choice(['a', 'ab', '']), float: lambda: 2.5, complex: lambda: 1j,
                 bytes: lambda: b'x', list: lambda: [1, 'a'][:self.size()], dict: lambda: {'a': 1},
                 Proto: lambda: Impl(), Box: lambda: r.choice([Box([1, 2]), Box(['a', 'b']), Box()]), Pair: lambda: Pair(1),
                 U0: lambda: r.choice([U0(x=1), U1(x=0, y='ab'), U2()]), U1: lambda: U1(x=2),
                 U0_TWIN: lambda: r.choice([U0_TWIN(x=1), U0(x=1)]), Tagged: lambda: Tagged(r.choice([[1, 2], [], ['a']])),
                 A.Hashable: lambda: r.choice([1, 'a', (1,)]), A.Sized: lambda: r.choice([[1], 'ab', {1: 2}])}
        f = table.get(c)
        return f() if f else self.anything(hashable)

    def mutate(self, x, depth=0):
        """Replace one position (item / key / value / the object itself / a length) by something else."""
        r = self.rng
        if r.random() < 0.06:      # same content, truth value decoupled from the length
            if type(x) is dict and x:
                return FalsyDict(x)
            if type(x) is list and x:
                return FalsyList(x)
            if type(x) is tuple:
                return FalsyTuple(x + (0,) if r.random() < 0.5 else x)
        wrong = lambda: r.choice([0, 'a', None, [1], U2(), 2.5, (1, 'a'), {1: 'b'}, True, 'ab', -1])
        if depth > 4 or r.random() < 0.25:
            return wrong()
        try:
            if isinstance(x, (list, collections.deque)) and len(x):
                i = r.randrange(len(x))
                y = list(x)
                y[i] = self.mutate(y[i], depth + 1)
                return type(x)(y)
            if isinstance(x, tuple):
                if len(x) and r.random() < 0.8:
                    i = r.randrange(len(x))
                    return x[:i] + (self.mutate(x[i], depth + 1),) + x[i + 1:]
                return x + (wrong(),) if r.random() < 0.5 else x[:-1]
            if isinstance(x, (set, frozenset)) and len(x):
                y = list(x)
                i = r.randrange(len(y))
                m = self.mutate(y[i], depth + 1)
                hash(m)
                y[i] = m
                return type(x)(y)
            if isinstance(x, dict) and len(x):
                ks = list(x)
                i = r.randrange(len(ks))
                y = dict(x)
                if r.random() < 0.5:
                    y[ks[i]] = self.mutate(y[ks[i]], depth + 1)
                else:
                    m = self.mutate(ks[i], depth + 1)
                    hash(m)
                    v = y.pop(ks[i])
                    y = {**{m: v}, **y} if i == 0 else {**y, m: v}
                return type(x)(y) if type(x) in (dict, collections.OrderedDict, collections.Counter) else y
        except TypeError:
            pass
        return wrong()
