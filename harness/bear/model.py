"""Translation real hint / real object -> the Lean model's hint / object (s-expression
trees). Written from typing's public introspection (get_origin / get_args), NOT from
beartype's sign machinery: it is the independent statement of "which hint is this"."""
from __future__ import annotations

import collections
import collections.abc as A
import types
import typing as T

from .world import Registry

# origin class -> container logic (frozen here: the harness' own reading of the documented behaviour)
SEQ_ORIGINS = (list, A.Sequence, A.MutableSequence)                       # + tuple[T, ...]
REIT_ORIGINS = (set, frozenset, A.Set, A.MutableSet, A.KeysView, A.ValuesView, A.Collection, collections.deque)
QUASI_ORIGINS = (A.Iterable, A.Container, A.Reversible)
MAP_ORIGINS = (dict, A.Mapping, A.MutableMapping, collections.defaultdict, collections.OrderedDict, collections.ChainMap)

STANDIN = [0]      # incremented whenever a hint was translated to a model hint of the same MEANING but another code shape

VALE_REGISTRY: dict[int, list] = {}        # id(validator object) -> model validator (kept alive by VALE_KEEP)
VALE_KEEP: list = []


def reg_vale(v, model):
    VALE_REGISTRY[id(v)] = model
    VALE_KEEP.append(v)
    return v


def atom_of(v, reg: Registry):
    if v is None:
        return 'none'
    if isinstance(v, bool):
        return ['b', 'true' if v else 'false']
    if isinstance(v, int):
        return ['i', str(v)]
    if isinstance(v, str):
        return ['s', v]
    if isinstance(v, type):
        return ['k', str(reg.id(v))]
    return ['o', '0']


_ALIAS_PATH: list = []


def is_union(h) -> bool:
    return T.get_origin(h) is T.Union or isinstance(h, types.UnionType)


def hint_model(h, reg: Registry):
    """Real hint -> model hint. Raises KeyError/NotImplementedError on hints outside the modelled grammar."""
    if h is T.Any or h is object:
        return ['any']
    if h is None or h is type(None):
        return ['cls', reg.id(type(None))]
    if isinstance(h, T.TypeVar):
        if h.__bound__ is not None:
            return hint_model(h.__bound__, reg)
        if h.__constraints__:
            return union_model([hint_model(c, reg) for c in h.__constraints__])
        return ['any']
    if hasattr(h, '__supertype__'):                     # NewType
        return hint_model(h.__supertype__, reg)
    if isinstance(h, T.TypeAliasType):
        # PEP 695 `type A = …`: the aliased hint. A recursive alias is expanded twice along one path (itself and
        # its first inner occurrence); the next occurrence is ignorable (`list[A]` there is checked as `list`)
        if sum(1 for a in _ALIAS_PATH if a is h) >= 2:
            return ['any']
        _ALIAS_PATH.append(h)
        try:
            return hint_model(h.__value__, reg)
        finally:
            _ALIAS_PATH.pop()
    if isinstance(h, type) and not isinstance(h, types.GenericAlias):
        if getattr(h, '_is_protocol', False) or any(T.get_origin(b) is not None for b in getattr(h, '__orig_bases__', ())):
            # protocols and unsubscripted user generics: Hint.generic — `isinstance(<assignment expression>, C)` and then
            # every unerased pseudo-superclass checked on the variable
            return generic_model(h, (), reg)
        return ['cls', reg.id(h)]
    origin, args = T.get_origin(h), T.get_args(h)
    if isinstance(origin, type) and hasattr(origin, '__orig_bases__') \
            and origin.__module__ not in ('typing', 'collections.abc', 'collections', 'builtins'):
        # subscripted user generic `Box[int]` with `class Box(list[T])`: Hint.generic Box [list[int]]
        return generic_model(origin, args, reg)
    if is_union(h):
        return union_model([member_model(a, tr, reg) for a, tr in union_members(h)])
    if origin is T.Literal:
        return ['literal'] + [[reg.id(type(a)), atom_of(a, reg)] for a in args]
    if origin is T.Annotated:
        meta = h.__metadata__
        inner = hint_model(h.__origin__, reg)
        return ['ann', inner] + [VALE_REGISTRY[id(m)] for m in meta]
    if origin is tuple:
        if args == ((),) or args == () and h is not tuple and str(h).endswith('[()]'):
            return ['tuple']
        if len(args) == 2 and args[1] is Ellipsis:
            return ['seq', reg.id(tuple), hint_model(args[0], reg)]
        if not args:
            return ['shallow', reg.id(tuple)]
        return ['tuple'] + [hint_model(a, reg) for a in args]
    if origin is type:
        (a,) = args
        if a is T.Any or a is object:
            return ['shallow', reg.id(type)]            # a PEP hint whose code is `isinstance(x, type)`
        if is_union(a):
            return ['type'] + [reg.id(c) for c in T.get_args(a)]
        return ['type', reg.id(a)]
    if origin is A.ItemsView and len(args) == 2:
        # reduced by beartype to Annotated[Collection[tuple[K, V]], IsInstance[ItemsView]]
        return ['ann', ['reit', reg.id(A.Collection), ['tuple', hint_model(args[0], reg), hint_model(args[1], reg)]],
                ['inst', str(reg.id(A.ItemsView))]]
    if origin is collections.Counter:
        return ['map', reg.id(origin), hint_model(args[0], reg), ['cls', reg.id(int)]]
    if origin in MAP_ORIGINS and len(args) == 2:
        return ['map', reg.id(origin), hint_model(args[0], reg), hint_model(args[1], reg)]
    if len(args) == 1:
        if origin in SEQ_ORIGINS:
            return ['seq', reg.id(origin), hint_model(args[0], reg)]
        if origin in REIT_ORIGINS:
            return ['reit', reg.id(origin), hint_model(args[0], reg)]
        if origin in QUASI_ORIGINS:
            return ['quasi', reg.id(origin), hint_model(args[0], reg)]
    if origin is not None and isinstance(origin, type):
        return ['shallow', reg.id(origin)]             # Iterator[T], Generator[...], Callable[...], ItemsView[...], typing.List, …
    raise NotImplementedError(repr(h))


def generic_model(origin, args, reg: Registry):
    """Hint.generic: the generic's class and its unerased pseudo-superclasses with the type arguments substituted."""
    params = getattr(origin, '__parameters__', None) or tuple(
        dict.fromkeys(p for b in getattr(origin, '__orig_bases__', ()) for p in getattr(b, '__parameters__', ())))
    sub = dict(zip(params, args))
    out = ['generic', reg.id(origin)]
    for b in getattr(origin, '__orig_bases__', ()):
        bo = T.get_origin(b)
        if bo in (None, T.Generic, T.Protocol):
            continue
        if isinstance(bo, type) and bo.__module__ not in ('typing', 'collections.abc', 'collections', 'builtins'):
            # a user generic as pseudo-superclass is replaced by ITS unerased pseudo-superclasses (walked transitively),
            # with its own arguments bound: the inner binding of a type variable wins over the outer one
            bargs = tuple(sub.get(a, a) if isinstance(a, T.TypeVar) else a for a in T.get_args(b))
            out.extend(generic_model(bo, bargs, reg)[2:])
            continue
        bp = getattr(b, '__parameters__', ())
        base = b[tuple(sub.get(p, p) for p in bp)] if bp else b
        bm = hint_model(base, reg)
        if bm != ['any']:
            out.append(bm)
    return out


def shallow_reduce(a, trail=None):
    """What sanify_hint_child does to ONE node before the union factory looks at it. `trail` collects the PEP 695
    aliases unwrapped on the way (they count as expansions for whatever is modelled beneath)."""
    if isinstance(a, T.TypeVar):
        if a.__bound__ is not None:
            return shallow_reduce(a.__bound__, trail)
        if a.__constraints__:
            return T.Union[a.__constraints__]
        return T.Any
    if isinstance(a, T.TypeAliasType):
        if any(b is a for b in _ALIAS_PATH) or (trail is not None and any(b is a for b in trail)):
            raise NotImplementedError('recursive alias as a direct member of a union')
        if trail is not None:
            trail.append(a)
        return shallow_reduce(a.__value__, trail)
    if hasattr(a, '__supertype__'):
        return shallow_reduce(a.__supertype__, trail)
    if a is None:
        return type(None)
    return a


def mentions_alias_type(h, depth: int = 0) -> bool:
    if isinstance(h, T.TypeAliasType):
        return True
    if depth > 10:
        return False
    return any(mentions_alias_type(a, depth + 1) for a in T.get_args(h) if not isinstance(a, (str, int, bytes, bool, type(None))))


def union_members(h, trail=()) -> list:
    """Members of a union as the union factory sees them: each member reduced at its own
    node only, nested unions flattened, duplicates (equal reduced hints) dropped. Each member comes with the
    aliases unwrapped to reach it."""
    out = []
    for a in T.get_args(h):
        t = list(trail)
        a = shallow_reduce(a, t)
        for b, tb in (union_members(a, tuple(t)) if is_union(a) else [(a, tuple(t))]):
            # equal members are one member only when they are plain classes (merged into one isinstance tuple) or were
            # reached through the same aliases (the sanified metadata of a member records the aliases expanded on the way)
            if not any((b is c or (type(b) is type(c) and b == c)) and (tc == tb or isinstance(b, type)) for c, tc in out):
                out.append((b, tb))
    return out


def member_model(a, trail, reg):
    _ALIAS_PATH.extend(trail)
    try:
        return hint_model(a, reg)
    finally:
        del _ALIAS_PATH[len(_ALIAS_PATH) - len(trail):]


def union_model(children: list):
    """Flatten nested unions, drop duplicates (first occurrence wins) — what typing and
    the union factory do before code is generated."""
    flat = []
    for c in children:
        flat.extend(c[1:] if c[0] == 'union' else [c])
    if len(flat) == 1:
        return flat[0]
    return ['union'] + flat


def obj_model(x, reg: Registry, depth: int = 0, sdepth: int = 7):
    """Real object -> model object (cls, atom, items, vals, attrs). A str is a sequence of
    1-character strs, each again such a sequence: unfolded `sdepth` levels (deeper than any
    generated hint nests)."""
    c = reg.id(type(x))
    items, vals, attrs = [], [], []
    if depth < 12:
        if isinstance(x, str):
            if sdepth > 0:
                items = [obj_model(ch, reg, depth, sdepth - 1) for ch in x]
        elif isinstance(x, bytes):
            items = [obj_model(ch, reg, depth + 1) for ch in x]
        elif isinstance(x, A.Mapping):
            ks = list(x.keys())
            items = [obj_model(k, reg, depth + 1) for k in ks]
            vals = [obj_model(x[k], reg, depth + 1) for k in ks]
        elif isinstance(x, A.Collection):
            items = [obj_model(y, reg, depth + 1) for y in x]
        d = getattr(x, '__dict__', None)
        if isinstance(d, dict) and not isinstance(x, type):
            attrs = [[k, obj_model(v, reg, depth + 1)] for k, v in d.items() if isinstance(k, str) and k.isidentifier()]
    return ['obj', c, atom_of(x, reg), items, vals, attrs]
