"""Canonical form of check expressions: the REAL generated source (parsed by CPython's
own `ast`) and the Lean `gen` output are both brought into one tree language and
compared node for node. Canonicalisation: scope names -> what they denote (class ids,
literals, user callables), class tuples sorted, nested and/or of the same operator
flattened (associativity of short-circuit evaluation), comments vanish in the parser."""
from __future__ import annotations

import ast
import re

from .world import Registry

PITH = re.compile(r'^__beartype_pith_(\d+)((?:_isattr_[A-Za-z0-9]+)*)$')


class Unmodelled(Exception):
    """The real code uses a construct outside the model's expression language."""


def var_of(name: str):
    m = PITH.match(name)
    if not m:
        raise Unmodelled(f'name {name}')
    path = [p for p in m.group(2).split('_isattr_') if p]
    return ['var', m.group(1)] + path


def real_to_tree(code: str, scope: dict, reg: Registry, preds: dict, atom_of) -> list:
    tree = ast.parse(code.strip(), mode='eval').body
    return canon(conv(tree, scope, reg, preds, atom_of))


def classes_of(node, scope, reg) -> list:
    if isinstance(node, ast.Name):
        import builtins
        v = scope[node.id] if node.id in scope else getattr(builtins, node.id)
    else:
        raise Unmodelled(ast.dump(node))
    vs = v if isinstance(v, (tuple, set, frozenset)) else (v,)
    return sorted({str(reg.id(c)) for c in vs}, key=int)


def conv(n, scope, reg, preds, atom_of):
    c = lambda m: conv(m, scope, reg, preds, atom_of)
    if isinstance(n, ast.Name):
        return var_of(n.id)
    if isinstance(n, ast.NamedExpr):
        return ['walrus', var_of(n.target.id), c(n.value)]
    if isinstance(n, ast.BoolOp):
        return ['and' if isinstance(n.op, ast.And) else 'or'] + [c(v) for v in n.values]
    if isinstance(n, ast.UnaryOp) and isinstance(n.op, ast.Not):
        return ['not', c(n.operand)]
    if isinstance(n, ast.Compare) and len(n.ops) == 1:
        op, l, r = n.ops[0], n.left, n.comparators[0]
        if isinstance(op, ast.Is) and isinstance(l, ast.NamedExpr) and isinstance(r, ast.Name) and l.target.id == r.id:
            return ['bind', var_of(r.id), c(l.value)]
        if isinstance(op, ast.IsNot) and isinstance(l, ast.NamedExpr) and isinstance(l.value, ast.Call) \
                and getattr(l.value.func, 'id', None) == 'getattr' and isinstance(r, ast.Name) \
                and isinstance(l.value.args[2], ast.Name) and l.value.args[2].id == r.id:
            return ['getattr', var_of(l.target.id), c(l.value.args[0]), l.value.args[1].value]
        if isinstance(op, ast.Eq):
            if isinstance(l, ast.Call) and getattr(l.func, 'id', None) == 'len' and isinstance(r, ast.Constant):
                return ['leneq', c(l.args[0]), str(r.value)]
            if isinstance(r, ast.Name) and r.id in scope:
                return ['eq', c(l), atom_of(scope[r.id], reg)]
            if isinstance(r, ast.Constant):
                return ['eq', c(l), atom_of(r.value, reg)]
        raise Unmodelled(ast.dump(n))
    if isinstance(n, ast.Call) and isinstance(n.func, ast.Name):
        f = n.func.id
        if f == 'isinstance':
            return ['isinst', c(n.args[0]), classes_of(n.args[1], scope, reg)]
        if f == 'issubclass':
            return ['issub', c(n.args[0]), classes_of(n.args[1], scope, reg)]
        if f == 'len':
            return ['len', c(n.args[0])]
        if f == 'next' and isinstance(n.args[0], ast.Call) and getattr(n.args[0].func, 'id', None) == 'iter':
            inner = n.args[0].args[0]
            if isinstance(inner, ast.Call) and isinstance(inner.func, ast.Attribute) and inner.func.attr == 'values':
                return ['nextvalues', c(inner.func.value)]
            return ['next', c(inner)]
        if f in scope and id(scope[f]) in preds:
            return ['call', str(preds[id(scope[f])]), c(n.args[0])]
        raise Unmodelled(ast.dump(n))
    if isinstance(n, ast.Subscript):
        s = n.slice
        if isinstance(s, ast.BinOp) and isinstance(s.op, ast.Mod) and getattr(s.left, 'id', None) == '__beartype_random_int' \
                and isinstance(s.right, ast.Call) and getattr(s.right.func, 'id', None) == 'len' \
                and isinstance(n.value, ast.Name) and getattr(s.right.args[0], 'id', None) == n.value.id:
            return ['idxrand', var_of(n.value.id)]
        if isinstance(s, ast.Constant) and isinstance(s.value, int):
            return ['idx', c(n.value), str(s.value)]
        if isinstance(s, ast.Name):
            return ['idxkey', c(n.value), var_of(s.id)]
        raise Unmodelled(ast.dump(n))
    raise Unmodelled(ast.dump(n))


def canon(t):
    """Flatten nested same-operator and/or; sort class lists."""
    if not isinstance(t, list):
        return str(t)
    if t and t[0] in ('and', 'or'):
        out = []
        for ch in t[1:]:
            ch = canon(ch)
            if isinstance(ch, list) and ch and ch[0] == t[0]:
                out.extend(ch[1:])
            else:
                out.append(ch)
        return [t[0]] + out
    if t and t[0] == 'eq' and isinstance(t[2], list) and t[2] and t[2][0] == 'b':
        # Python `==` does not tell True from 1 (IsEqual[True] and IsEqual[1] even share one cached validator)
        return ['eq', canon(t[1]), ['i', '1' if t[2][1] == 'true' else '0']]
    if t and t[0] in ('isinst', 'issub'):
        return [t[0], canon(t[1]), sorted({str(x) for x in t[2]}, key=int)]
    return [canon(x) for x in t]


def first_diff(a, b, path='') -> str | None:
    if isinstance(a, list) and isinstance(b, list):
        if len(a) != len(b):
            return f'{path}: real has {len(a)} parts {head(a)}, model {len(b)} parts {head(b)}'
        for i, (x, y) in enumerate(zip(a, b)):
            d = first_diff(x, y, f'{path}/{a[0] if a and isinstance(a[0], str) else ""}[{i}]')
            if d:
                return d
        return None
    return None if a == b else f'{path}: real {a!r} != model {b!r}'


def head(t):
    return t[0] if isinstance(t, list) and t and isinstance(t[0], str) else t
