"""Exploration engine shared by the Bear-core checks (C01 C02 C03 C09 C10 C12).

Every run does both ties (code-level, behaviour-level) and evaluates the oracles of
the requested property on the REAL outputs; the Lean model supplies the expected side
(`sat`, `chk`, cost)."""
from __future__ import annotations

import collections
import collections.abc as A
import copy
import random
import types
import typing as T

from ..common import Explore, Failure
from . import astcanon, corr, gen, real
from .model import hint_model, obj_model
from .world import Registry

DRAWS = (0, 1, 2, 3, 5, 7, 2 ** 32 - 1)


def ignorable_model(hm) -> bool:
    return hm == ['any'] or (hm[0] == 'union' and any(ignorable_model(c) for c in hm[1:]))


def shape(hm, depth=0) -> str:
    """canonical shape of a model hint (kinds only): identity of failing inputs / distinctness"""
    if not isinstance(hm, list):
        return '_'
    k = hm[0]
    if k in ('any', 'cls', 'shallow', 'literal', 'type'):
        return k
    if k == 'ann':
        return f'ann({shape(hm[1])};{",".join(vshape(v) for v in hm[2:])})'
    if k in ('seq', 'reit', 'quasi'):
        return f'{k}({shape(hm[2])})'
    if k == 'map':
        return f'map({shape(hm[2])},{shape(hm[3])})'
    return f'{k}({",".join(shape(c) for c in hm[1:])})'


def vshape(v) -> str:
    if v[0] in ('and', 'or'):
        return f'{v[0]}({vshape(v[1])},{vshape(v[2])})'
    if v[0] == 'not':
        return f'not({vshape(v[1])})'
    if v[0] == 'attr':
        return f'attr({vshape(v[2])})'
    return v[0]


def shapes(depth: int) -> list:
    """Exhaustive small scope: every container kind over every representative child."""
    leaves = [int, str, T.Any, T.Optional[int], T.Literal[1, 'a'], T.Literal[True, 1], T.Literal[-2], T.Literal[-1], gen.U0, type[int], A.Iterator[int],
              T.Annotated[int, gen.IS_VALIDATORS[2]], T.Annotated[T.Any, gen.IS_VALIDATORS[3]], gen.TV_BOUND, int | str,
              # wide but NOT ignorable leaves: abstract classes nearly everything satisfies, user protocol / generics
              A.Hashable, A.Sized, gen.Proto, gen.Box[int], type(None), gen.U0_TWIN, gen.Tagged[str], gen.Row[str]]
    hashable = [int, str, T.Optional[int], T.Literal[1, 'a'], int | str, tuple[int, str], T.Annotated[int, gen.IS_VALIDATORS[2]]]

    def level(children, hchildren):
        out = []
        for c in children:
            out += [list[c], tuple[c, ...], A.Sequence[c], A.MutableSequence[c], collections.deque[c], A.ValuesView[c],
                    A.Collection[c], A.Iterable[c], A.Container[c], A.Reversible[c], tuple[c], tuple[int, c], tuple[c, str, c],
                    T.Optional[c], T.Union[c, str], T.Union[c, list[int]], T.Union[dict[str, int], c],
                    T.Annotated[c, gen.IS_VALIDATORS[0]], T.Annotated[c, gen.IS_VALIDATORS[3], gen.IS_VALIDATORS[0]],
                    dict[str, c], A.Mapping[int, c], collections.defaultdict[str, c], collections.OrderedDict[str, c],
                    # ignorable KEY hints: only the value side of the first pair is examined
                    dict[T.Any, c], A.Mapping[object, c], tuple[dict[T.Any, c], str]]
        for c in hchildren:
            out += [set[c], frozenset[c], A.Set[c], A.MutableSet[c], A.KeysView[c], dict[c, int], dict[c, T.Any],
                    A.Mapping[c, str], A.MutableMapping[c, list[int]], collections.Counter[c], A.ItemsView[c, int]]
        return out
    l1 = level(leaves, hashable) + validator_shapes()
    if depth <= 1:
        return leaves + l1
    return leaves + l1 + level(l1[::3], [tuple[int, ...], tuple[int, str], frozenset[int], T.Optional[tuple[int, ...]]])


_VSHAPES: list = []


def validator_shapes() -> list:
    """Annotated[T, V…] for every validator factory/operator, ignorable and unignorable
    T, one to three validators, in every pith position (root variable, sequence item,
    set item, mapping value, tuple position, union member after a class / first member)."""
    if _VSHAPES:
        return _VSHAPES
    from beartype.vale import IsAttr, IsEqual, IsInstance, IsSubclass
    from .model import VALE_REGISTRY, atom_of, reg_vale
    reg = Registry()          # class ids are stable: every Registry numbers the fixed classes first
    is2 = gen.IS_VALIDATORS[2]
    eq_a = reg_vale(IsEqual['a'], ['eq', ['s', 'a']])
    eq_1 = reg_vale(IsEqual[1], ['eq', ['i', '1']])
    inst_s = reg_vale(IsInstance[str], ['inst', str(reg.id(str))])
    sub_i = reg_vale(IsSubclass[int], ['subc', str(reg.id(int))])
    attr_x = reg_vale(IsAttr['x', eq_1], ['attr', 'x', VALE_REGISTRY[id(eq_1)]])
    inner = IsAttr['y', eq_1]
    reg_vale(inner, ['attr', 'y', ['eq', ['i', '1']]])
    attr_xy = reg_vale(IsAttr['x', inner], ['attr', 'x', ['attr', 'y', ['eq', ['i', '1']]]])
    conj = reg_vale(eq_a & inst_s, ['and', VALE_REGISTRY[id(eq_a)], VALE_REGISTRY[id(inst_s)]])
    disj = reg_vale(attr_x | is2, ['or', VALE_REGISTRY[id(attr_x)], VALE_REGISTRY[id(is2)]])
    neg = reg_vale(~eq_a, ['not', VALE_REGISTRY[id(eq_a)]])
    # the SAME attribute name nested under a compound validator whose later operand reads the outer attribute again
    # (only classes every Registry numbers identically may be named here: int)
    inst_i = reg_vale(IsInstance[int], ['inst', str(reg.id(int))])
    not_i = reg_vale(~inst_i, ['not', VALE_REGISTRY[id(inst_i)]])
    in_x = IsAttr['x', eq_1]
    reg_vale(in_x, ['attr', 'x', ['eq', ['i', '1']]])
    comp = reg_vale(in_x & not_i, ['and', VALE_REGISTRY[id(in_x)], VALE_REGISTRY[id(not_i)]])
    nest_and = reg_vale(IsAttr['x', comp], ['attr', 'x', VALE_REGISTRY[id(comp)]])
    in_or = in_x | is2
    reg_vale(in_or, ['or', VALE_REGISTRY[id(in_x)], VALE_REGISTRY[id(is2)]])
    not_or = reg_vale(~in_or, ['not', VALE_REGISTRY[id(in_or)]])
    comp2 = reg_vale(not_or | not_i, ['or', VALE_REGISTRY[id(not_or)], VALE_REGISTRY[id(not_i)]])
    nest_or = reg_vale(IsAttr['x', comp2], ['attr', 'x', VALE_REGISTRY[id(comp2)]])
    vsets = [(eq_a,), (eq_a, inst_s), (inst_s, eq_a), (attr_x,), (attr_x, eq_1), (attr_xy,), (sub_i,), (sub_i, sub_i),
             (conj,), (disj, neg), (neg, is2, inst_s), (is2,), (nest_and,), (nest_or,)]
    for meta in (T.Any, object, str, gen.U0):
        for vs in vsets:
            a = T.Annotated[(meta,) + vs]
            _VSHAPES.extend([a, list[a], tuple[a, ...], set[a] if meta is not gen.U0 else list[a], dict[str, a], tuple[int, a],
                             T.Union[int, a], T.Union[a, list[int]], A.Iterable[a], dict[str, list[a]],
                             # first member of an all-subscripted union BELOW a container or a tuple position (the other member
                             # order is an EQUAL hint for typing and beartype's caches: whichever spelling is seen first is compiled)
                             list[T.Union[a, list[int]]], tuple[int, T.Union[a, list[int]]],
                             tuple[T.Union[list[str], set[str]], T.Union[a, list[int]]], dict[str, T.Union[a, dict[str, int]]]])
    return _VSHAPES


class Spy:
    """Counting wrappers: reads of items through the container protocol. Reads made while
    a repr() of an instrumented container is running are not counted (the property allows
    one repr() of the rejected object when the violation message is built)."""
    counts = collections.Counter()
    in_repr = 0

    @classmethod
    def hit(cls, kind):
        if not cls.in_repr:
            cls.counts[kind] += 1


def _mk_counting(base):
    class C(base):
        def __getitem__(self, i):
            Spy.hit('getitem')
            return base.__getitem__(self, i)

        def __iter__(self):
            Spy.hit('iter')
            it = base.__iter__(self)

            def g():
                for y in it:
                    Spy.hit('next')
                    yield y
            return g()
    def __repr__(self):
        Spy.in_repr += 1
        try:
            return base.__repr__(self)
        finally:
            Spy.in_repr -= 1
    C.__repr__ = __repr__
    C.__name__ = 'Counting' + base.__name__
    return C


CList, CTuple, CSet, CFrozenset, CDeque = map(_mk_counting, (list, tuple, set, frozenset, collections.deque))


class CDict(dict):
    def __repr__(self):
        Spy.in_repr += 1
        try:
            return dict.__repr__(self)
        finally:
            Spy.in_repr -= 1

    def __getitem__(self, k):
        Spy.hit('getitem')
        return dict.__getitem__(self, k)

    def __iter__(self):
        Spy.hit('iter')
        it = dict.__iter__(self)

        def g():
            for y in it:
                Spy.hit('next')
                yield y
        return g()

    def values(self):
        Spy.hit('values')
        vs = dict.values(self)

        class V(A.ValuesView):
            def __init__(s):
                pass

            def __len__(s):
                return len(vs)

            def __iter__(s):
                for y in vs:
                    Spy.hit('next')
                    yield y
        return V()


def instrument(x, depth=0):
    """Deep copy of `x` in which every builtin container is a counting subclass."""
    if depth > 8:
        return x
    f = lambda y: instrument(y, depth + 1)
    t = type(x)
    try:
        if t is list:
            return CList(f(y) for y in x)
        if t is tuple:
            return CTuple(f(y) for y in x)
        if t is set:
            return CSet(f(y) for y in x)
        if t is frozenset:
            return CFrozenset(f(y) for y in x)
        if t is collections.deque:
            return CDeque(f(y) for y in x)
        if t is dict:
            return CDict((k, f(v)) for k, v in x.items())
    except TypeError:
        return x
    return x


def item_reads() -> int:
    c = Spy.counts
    return c['getitem'] + c['next']


def scale(x, m: int):
    """The same container with its items repeated `m` times (first item unchanged)."""
    t = type(x)
    if t in (list, tuple):
        return t(list(x) * m)
    if t is collections.deque:
        return collections.deque(list(x) * m)
    if t in (set, frozenset) and x and all(isinstance(y, int) and not isinstance(y, bool) for y in x):
        return t(list(x) + [max(x) + 1 + i for i in range(len(x) * (m - 1))])
    if t is dict and x and all(isinstance(k, str) for k in x):
        d = dict(x)
        v0 = next(iter(x.values()))
        for i in range(len(x) * (m - 1)):
            d[f'zz{i}'] = v0
        return d
    return None


def scale_deep(x, m: int, depth: int = 0):
    """The outermost repeatable containers nested in `x` (below any fixed positions: tuple
    items, mapping values) scaled by `m`; fixed positions keep their count; containers
    below a scaled one are left alone (no multiplicative blow-up)."""
    if depth > 6 or m == 1:
        return x
    t = type(x)
    f = lambda y: scale_deep(y, m, depth + 1)
    try:
        if t is tuple:
            return tuple(f(y) for y in x)
        if t is list:
            return list(x) * m
        if t is collections.deque:
            return collections.deque(list(x) * m)
        if t in (set, frozenset):
            ys = list(x)
            if ys and all(isinstance(y, int) and not isinstance(y, bool) for y in ys):
                ys = ys + [max(ys) + 1 + i for i in range(len(ys) * (m - 1))]
            return t(ys)
        if t is dict:
            if x and all(isinstance(k, str) for k in x):
                d = dict(x)
                v0 = next(iter(d.values()))
                for i in range(len(d) * (m - 1)):
                    d[f'zz{i}'] = v0
                return d
            return {f(k): f(v) for k, v in x.items()}
    except TypeError:
        return x
    return x


def run(ck, n_hints: int, seed: int, focus: str, depth: int = 3, exhaustive_depth: int = 1, per_hint: int = 4) -> Explore:
    """focus in {'C01','C02','C03','C09','C10','C12'} selects which oracles produce Failures."""
    real.install_draw_control()
    rng = random.Random(seed)
    reg = Registry()
    hg, og = gen.HintGen(reg, rng), gen.ObjGen(rng)
    ex = Explore(rule='')
    preds = gen.pred_ids()
    cs = corr.confs()

    # ---------------------------------------------------------------- hints
    hints = list(shapes(exhaustive_depth))
    n_exh = len(hints)
    while len(hints) < n_exh + n_hints:
        h = hg.hint(depth)
        if focus == 'C12' and 'Annotated' not in repr(h):
            if rng.random() < 0.8:
                continue
        hints.append(h)
    usable = []
    for h in hints:
        try:
            hm = hint_model(h, reg)
        except (NotImplementedError, KeyError):
            continue
        if not ignorable_model(hm):
            usable.append((h, hm))

    # ---------------------------------------------------------------- 1. code-level tie
    # (run BEFORE the source comparison: make_check_expr is memoised, only its first run per hint can be traced)
    # the placeholder mechanism that assembles the source (Core/Bfs.lean, `bfs_eq_flat`): the snippets the real
    # generator spliced, replayed breadth-first and composed recursively by the model, give the real code
    n_bfs, bdiffs = corr.bfs_tie([h for h, _ in usable], ('default', 'nonrandom'))
    ex.extra['placeholder_mechanism'] = {'traces_replayed': n_bfs, 'differences': len(bdiffs)}
    for d in bdiffs[:20]:
        ex.corr_diffs.append({k: (v[:400] if isinstance(v, str) else v) for k, v in d.items()})
    n_code, diffs, skipped = corr.code_tie([h for h, _ in usable], reg, preds)
    ex.extra['code_level'] = {'hint_x_conf_compared': n_code, 'differences': len(diffs),
                              'exhaustive_shapes': n_exh, 'random_hints': n_hints}
    for d in diffs[:50]:
        ex.corr_diffs.append({'tie': 'code-level', 'hint': d['hint'], 'conf': d['conf'], 'where': d['where'][:400]})
    suspicious = [d.get('real_hint') for d in diffs if d.get('real_hint') is not None]

    # ---------------------------------------------------------------- 2. behaviour-level
    cases, meta = [], []
    suspicious_ids = {id(h) for h in suspicious}
    for h, hm in usable:
        k = per_hint * (3 if id(h) in suspicious_ids else 1)
        for j in range(k):
            x = og.make(h)
            if j % 2 == 1:
                x = og.mutate(x)
            variants = [x]
            if j == 1:       # the same content with a truth value decoupled from its length
                if type(x) is tuple:
                    variants += [gen.FalsyTuple(x), gen.FalsyTuple(x + (0,))]
                elif type(x) is dict and x:
                    variants.append(gen.FalsyDict(x))
                elif type(x) is list and x:
                    variants.append(gen.FalsyList(x))
            for x in variants:
                try:
                    om = obj_model(x, reg)
                except Exception:
                    continue
                # (the generated check inspects ONE item per level under every strategy: `On` samples like the default)
                for cn in ('default', 'nonrandom') + (('On',) if j == 1 else ()):
                    cases.append((cn != 'nonrandom', DRAWS if cn == 'default' else DRAWS[:3] if cn == 'On' else DRAWS[:2], hm, om))
                    meta.append((h, x, cn))
    res = corr.model_run(cases, reg)
    seen_shapes = set()
    verdict_split = collections.Counter()
    fail_keys = set()

    def fail(key, what, replay):
        if key not in fail_keys and len(fail_keys) < 12:
            fail_keys.add(key)
            ex.failures.append(Failure(key, what, replay))

    flat = []
    for (h, x, cn), (rnd, draws, hm, om), rr in zip(meta, cases, res):
        if rr is None:
            ex.corr_diffs.append({'tie': 'driver', 'hint': repr(h), 'obj': repr(x)[:200]})
            continue
        for d, (chk_, ev_) in zip(draws, rr[1]):
            flat.append((h, x, cn, d, hm, rr[0], chk_, ev_))
    ex.evaluations = len(flat)
    group = {}
    rejecting = []
    rejecting_per_shape = collections.Counter()
    for (h, x, cn, d, hm, sat, chk, ev) in flat:
        evb = (ev[0] == 'true') if isinstance(ev, list) else ev
        if evb != chk:   # the Lean theorem says this cannot happen
            ex.corr_diffs.append({'tie': 'model-internal eval(gen) != chk', 'hint': repr(h), 'obj': repr(x)[:200], 'draw': d})
        is_gen = isinstance(x, (gen.OneShot,)) or type(x).__name__ == 'generator'
        if is_gen and focus != 'C10':
            # checking must not consume; verdicts are still compared (the model sees no items)
            pass
        v = real.verdicts(x, h, cs[cn], d)
        ex.traces_validated += 1
        verdict_split['accept' if chk else 'reject'] += 1
        if not chk and cn == 'default' and not is_gen:
            # stratified: at most two rejected cases per hint shape, so that every hint family reaches the signal oracle
            # (a flat cap filled up with the first few dozen hints of the exhaustive list)
            sk_ = shape(hm)
            if rejecting_per_shape[sk_] < 2 and len(rejecting) < 2500:
                rejecting_per_shape[sk_] += 1
                rejecting.append((h, x, d, hm))
        if sat or not chk:
            sk = (shape(hm), sat, chk)
            if sk not in seen_shapes and ('(' in sk[0]):
                seen_shapes.add(sk)
        group.setdefault((id(h), id(x), cn), []).append((d, sat, chk, v))
        rp = {'hint': repr(h), 'object': repr(x)[:300], 'conf': cn, 'draw': d, 'model_sat': sat, 'model_chk': chk, 'real': {k: str(z) for k, z in v.items()}}
        for ep, val in v.items():
            if isinstance(val, str):        # a non-violation exception escaped
                kind = 'C01' if sat else 'C03'
                if focus in (kind, 'C03', 'C11') or (focus == 'C12' and 'ann' in shape(hm)):
                    fail(f'{focus}:exception:{val}:{shape(hm)}', f'{ep}({x!r:.80}, {h!r:.160}) conf={cn} draw={d} raised {val} instead of a verdict', rp)
                else:
                    ex.corr_diffs.append({'tie': 'behaviour', 'kind': 'exception', **rp})
            elif sat and val is False:
                if focus in ('C01', 'C12'):
                    fail(f'{focus}:false-alarm:{shape(hm)}', f'{ep} rejects {x!r:.80} although it conforms to {h!r:.160} at full depth (conf={cn}, draw={d})', rp)
                else:
                    ex.corr_diffs.append({'tie': 'behaviour', 'kind': 'false-alarm', **rp})
            elif (not chk) and val is True:
                if focus in ('C02', 'C12'):
                    fail(f'{focus}:missed:{shape(hm)}', f'{ep} accepts {x!r:.80} against {h!r:.160} (conf={cn}, draw={d}) although the '
                         f'inspected position violates the hint (the model rejects for this draw)', rp)
                else:
                    ex.corr_diffs.append({'tie': 'behaviour', 'kind': 'missed', **rp})
            elif chk and val is False:
                ex.corr_diffs.append({'tie': 'behaviour', 'kind': 'over-rejection of a non-conforming object', **rp})
        if focus == 'C03':
            vals = {str(z) for z in v.values() if not isinstance(z, str)}
            if len(vals) > 1:
                fail(f'C03:disagree:{shape(hm)}', f'entry points disagree on ({x!r:.80}, {h!r:.160}) conf={cn} draw={d}: {v}', rp)

    ex.distinct_nontrivial = len(seen_shapes)
    ex.rule = ('hints: exhaustive shapes (every container kind x representative child) + seeded compositional hints of depth <= '
               f'{depth} over the whole sign alphabet; objects generated from the hint, every second one perturbed at one position; '
               'each pair under 7 forced draws (random) + 2 (is_random=False) through 5 entry points. distinct_nontrivial = distinct '
               '(hint shape with >=1 container/union/annotated level, model sat, model verdict) triples observed')
    ex.extra['verdict_split'] = dict(verdict_split)
    # the decidable side conditions of the theorems (W.Wf via checkWf, h.WfIn via capsOk, x.wf), per case
    ex.extra['hypotheses_checked'] = corr.HYPS['checked']
    ex.extra['hypotheses_failed'] = corr.HYPS['failed']
    if corr.HYPS['failed']:
        ex.corr_diffs.append({'tie': 'hypotheses', 'what': f"{corr.HYPS['failed']} generated case(s) violate a side condition of the "
                              'Lean theorems (class table not well-formed, an origin without its capabilities, or an ill-formed object)'})
    ex.extra['pairs'] = len(group)
    ex.samples = [{'hint': repr(m[0])[:200], 'object': repr(m[1])[:120], 'conf': m[2]} for m in meta[:3]]

    if focus == 'C03':
        signal_oracle(ex, rejecting, fail)
    if focus == 'C09':
        cost_oracle(ex, usable, og, reg, cs, fail)
    if focus == 'C10':
        consume_oracle(ex, usable, og, cs, fail, reg)
    if focus == 'C12':
        nonreflexive_oracle(ex, cs, fail)
    return ex


class NeverEqual:
    """an object that is not equal to itself (like NaN)"""
    def __eq__(self, other):
        return False

    def __hash__(self):
        return 7

    def __repr__(self):
        return 'NeverEqual()'


def nonreflexive_oracle(ex, cs, fail):
    """`IsEqual[x]` means `obj == x` — also for values that are not equal to themselves (NaN, objects whose __eq__ says
    no): the inline code, the `is_valid` callable and the boolean meaning computed here by Python itself must agree on
    the IDENTICAL object, a fresh equal-looking one and an ordinary one, bare and under ~ / & / IsAttr. (The Lean model
    has no non-reflexive atom: this clause is judged on the real outcomes alone.)"""
    from beartype import beartype
    from beartype.door import die_if_unbearable, is_bearable
    from beartype.roar import BeartypeCallHintViolation, BeartypeDoorHintViolation
    from beartype.vale import IsAttr, IsEqual, IsInstance
    nan, ne = float('nan'), NeverEqual()
    n = 0
    for x, label in ((nan, 'nan'), (ne, 'never-equal object')):
        holder = gen.U0(x=x)
        eq = IsEqual[x]
        cases = [
            (eq, lambda o: o == x, [x, float('nan') if x is nan else NeverEqual(), 1.0, 'a']),
            (~eq, lambda o: not (o == x), [x, 1.0]),
            (IsInstance[float, NeverEqual] & ~eq, lambda o: isinstance(o, (float, NeverEqual)) and not (o == x), [x, 1.0, 'a']),
            (IsAttr['x', eq], lambda o: hasattr(o, 'x') and o.x == x, [holder, gen.U0(x=1.0)]),
            (~IsAttr['x', eq], lambda o: not (hasattr(o, 'x') and o.x == x), [holder, gen.U0(x=1.0)]),
        ]
        for v, meaning, objs in cases:
            h = T.Annotated[object, v]
            for o in objs:
                want = bool(meaning(o))
                got = {}
                for cn in ('default', 'nonrandom'):
                    try:
                        got[f'is_bearable/{cn}'] = is_bearable(o, h, conf=cs[cn])
                    except Exception as e:   # noqa: BLE001
                        got[f'is_bearable/{cn}'] = 'exc:' + type(e).__name__
                    try:
                        die_if_unbearable(o, h, conf=cs[cn])
                        got[f'die_if_unbearable/{cn}'] = True
                    except BeartypeDoorHintViolation:
                        got[f'die_if_unbearable/{cn}'] = False
                    except Exception as e:   # noqa: BLE001
                        got[f'die_if_unbearable/{cn}'] = 'exc:' + type(e).__name__
                try:
                    got['is_valid'] = bool(v.is_valid(o))
                except Exception as e:   # noqa: BLE001
                    got['is_valid'] = 'exc:' + type(e).__name__

                def f(a: h):
                    return None
                try:
                    beartype(f)(o)
                    got['param'] = True
                except BeartypeCallHintViolation:
                    got['param'] = False
                except Exception as e:   # noqa: BLE001
                    got['param'] = 'exc:' + type(e).__name__
                n += 1
                bad = {k: g for k, g in got.items() if g != want}
                if bad:
                    fail(f'C12:non-reflexive-operand:{label}:{vshape_of(v)}',
                         f'{v!r:.120} on {"the identical " + label if (o is x or o is holder) else repr(o)[:40]}: boolean meaning {want}, '
                         f'but {bad}', {'validator': repr(v)[:200], 'operand': label, 'object_is_operand': o is x or o is holder,
                                        'meaning': want, 'observed': {k: str(g) for k, g in got.items()}})
    ex.extra['nonreflexive_cases'] = n
    ex.evaluations += n


def vshape_of(v) -> str:
    r = repr(v)
    return ('not-' if r.startswith('~') else '') + ('attr' if 'IsAttr' in r else 'and' if '&' in r else 'eq')


def perturb_last(x, depth=0):
    """Replace the LAST fixed position (last tuple item / last mapping value / the only item of a
    singleton) by a foreign object, leaving everything visited before it conforming."""
    foreign = 2.5 + 1j
    if depth > 4:
        return foreign
    t = type(x)
    if t is tuple and x:
        return x[:-1] + (perturb_last(x[-1], depth + 1),)
    if t is dict and x:
        d = dict(x)
        k = list(d)[-1]
        d[k] = perturb_last(d[k], depth + 1)
        return d
    if t is list and len(x) == 1:
        return [perturb_last(x[0], depth + 1)]
    return foreign


def cost_oracle(ex, usable, og, reg, cs, fail):
    """Measured item reads on instrumented containers: equal to the model's cost on the
    deciding path, bounded and size-independent on the rejecting path that builds the violation."""
    from beartype.door import die_if_unbearable, is_bearable
    n = 0
    sweep = collections.Counter()
    todo, meta = [], []
    for h, hm in usable:
        for j in range(3):
            x = og.make(h)
            if j == 1:
                x = og.mutate(x)
            elif j == 2:
                x = perturb_last(x)     # a violation AFTER conforming containers: the explainer must not walk them
            xi = instrument(x)
            try:
                om = obj_model(xi, reg)      # iteration order of the instrumented copy is what is measured
            except Exception:
                continue
            todo.append((False, [0], hm, om))
            meta.append((h, hm, x, xi))
    res = corr.model_run(todo, reg)
    om_of = {id(m[3]): t[3] for m, t in zip(meta, todo)}
    cause_todo = []
    for (h, hm, x, xi), r in zip(meta, res):
        if r is None or not isinstance(r[1][0][1], list):
            continue
        model_cost = int(r[1][0][1][1])
        conf = cs['nonrandom']
        real.DRAW[0] = 0
        Spy.counts.clear()
        try:
            verdict = is_bearable(xi, h, conf=conf)
        except Exception:
            continue
        got = item_reads()
        n += 1
        rp = {'hint': repr(h), 'object': repr(x)[:300], 'model_cost': model_cost, 'measured_item_reads': got, 'counts': dict(Spy.counts)}
        if got != model_cost:
            if got > model_cost:
                fail(f'C09:reads-exceed-model:{shape(hm)}', f'is_bearable({x!r:.80}, {h!r:.160}) read {got} items, the generated-code model reads {model_cost}', rp)
            else:   # containers that cannot be instrumented (views, str, user classes) are read unobserved
                sweep['fewer_reads_than_model_uninstrumented'] += 1
        # the explanation path: items read by die_if_unbearable beyond the deciding path vs the instrumented finder model
        if verdict is False and r[0] is False and not r[1][0][0]:
            real.DRAW[0] = 0
            Spy.counts.clear()
            try:
                die_if_unbearable(xi, h, conf=conf)
            except Exception:
                pass
            expl = item_reads() - got
            cause_todo.append((h, hm, x, om_of[id(xi)], expl, rp))
        # size sweep (accepting and rejecting path incl. the violation message)
        for scaler, cname in ((scale, 'nonrandom'), (scale_deep, 'default'), (scale_deep, 'nonrandom')):
            base = []
            for m in (1, 40, 1500):
                xs = scaler(x, m)
                if xs is None:
                    break
                xsi = instrument(xs)
                real.DRAW[0] = 0
                Spy.counts.clear()
                try:
                    is_bearable(xsi, h, conf=cs[cname])
                except Exception:
                    break
                a = item_reads()
                real.DRAW[0] = 0
                Spy.counts.clear()
                try:
                    die_if_unbearable(xsi, h, conf=cs[cname])
                except Exception:
                    pass
                b = item_reads()
                base.append((m, a, b))
            if len(base) == 3:
                sweep['swept'] += 1
                # growth between the two LARGE sizes (the smallest size may differ by a constant: another
                # iteration order, a culprit met one item later) — anything linear shows between 40 and 1500
                if base[2][1] > base[1][1] or base[2][2] > base[1][2]:
                    fail(f'C09:grows-with-size:{shape(hm)}', f'items read grow with container size for {h!r:.160} ({cname} conf, {scaler.__name__}): '
                         f'(repeat factor, reads deciding, reads incl. violation message) = {base}', {**rp, 'sweep': base, 'conf': cname})
    # model of the finder (Lemmas/BearErrCost.lean: causeRC) for the rejected objects, one batch
    cstat = collections.Counter()
    more_samples = []
    if cause_todo:
        outs = corr.model_cause([(False, [0], hm, om) for (_h, hm, _x, om, _e, _rp) in cause_todo], reg)
        for (h, hm, x, om, expl, rp), o in zip(cause_todo, outs):
            if o is None:
                continue
            found, reads, bound = o[0]
            cstat['compared'] += 1
            cstat['equal' if expl == reads else 'real_fewer' if expl < reads else 'real_more'] += 1
            if expl > reads and len(more_samples) < 5:
                more_samples.append({'hint': repr(h)[:200], 'object': repr(x)[:200], 'real': expl, 'model': reads})
            if expl > bound:
                fail(f'C09:explainer-exceeds-bound:{shape(hm)}',
                     f'die_if_unbearable({x!r:.80}, {h!r:.160}) read {expl} items to explain the rejection; the bound of the hint is {bound} '
                     f'(model finder: {reads})', {**rp, 'explainer_reads': expl, 'model_reads': reads, 'bound': bound})
    ex.extra['explainer_cost'] = dict(cstat)
    ex.extra['explainer_reads_more_than_model_samples'] = more_samples
    ex.extra['cost_cases'] = n
    ex.extra['size_sweeps'] = dict(sweep)
    ex.evaluations += n


def consume_oracle(ex, usable, og, cs, fail, reg=None):
    """One-shot iterables, generators, defaultdicts and plain containers are left as found."""
    from beartype.door import die_if_unbearable, is_bearable
    n = 0
    kinds = collections.Counter()
    pending = []
    for h, hm in usable:
        for maker in ('oneshot', 'sized-oneshot', 'container-oneshot', 'collection-oneshot', 'generator', 'iterator', 'defaultdict', 'plain'):
            base = [1, 'a', 2]
            if maker == 'collection-oneshot':
                # a cursor-style object: a Collection (len, contains, iter) that is its own one-shot iterator. Hints
                # that sample re-iterable collections may read its first item; every other hint must leave it alone:
                # judged against the number of items the MODEL of the generated check reads from it
                if reg is None:
                    continue
                x = gen.CollectionOneShot(base)
                pending.append((h, hm, x))
                for cn in ('default', 'nonrandom'):
                    for f in (is_bearable, die_if_unbearable):
                        real.DRAW[0] = 1
                        try:
                            f(x, h, conf=cs[cn])
                        except Exception:
                            pass
                n += 1
                kinds[maker] += 1
                continue
            if maker == 'oneshot':
                x = gen.OneShot(base)
            elif maker == 'sized-oneshot':
                x = gen.SizedOneShot(base)
            elif maker == 'container-oneshot':
                x = gen.ContainerOneShot(base)
            elif maker == 'generator':
                x = (y for y in base)
            elif maker == 'iterator':
                x = iter(base)
            elif maker == 'defaultdict':
                x = collections.defaultdict(list, {'a': [1]})
            else:
                x = og.make(h)
            try:
                before = copy.deepcopy(x) if maker in ('defaultdict', 'plain') else None
            except Exception:
                before = x
            try:
                rb = repr(x) if maker in ('defaultdict', 'plain') else None
            except Exception:
                rb = None
            for cn in ('default', 'nonrandom', 'On'):
                for f in (is_bearable, die_if_unbearable):
                    real.DRAW[0] = 1
                    try:
                        f(x, h, conf=cs[cn])
                    except Exception:
                        pass
            if maker.endswith('oneshot') or maker in ('generator', 'iterator'):
                # the same object as a conforming SIBLING of a violation: the violation finder walks past it (every strategy)
                for cn in ('default', 'On'):
                    real.DRAW[0] = 1
                    try:
                        die_if_unbearable((x, 2.5 + 1j), tuple[h, int], conf=cs[cn])
                    except Exception:
                        pass
            n += 1
            kinds[maker] += 1
            rp = {'hint': repr(h), 'object_kind': maker}
            if maker.endswith('oneshot') and x.consumed:
                fail(f'C10:consumed:{maker}:{shape(hm)}', f'checking a {maker} iterable against {h!r:.160} advanced it {x.consumed} time(s)', rp)
            if maker in ('generator', 'iterator'):
                try:
                    first = next(x)
                except StopIteration:
                    first = None
                if first != 1:
                    fail(f'C10:consumed:{maker}:{shape(hm)}', f'checking a {maker} against {h!r:.160} consumed items: next() afterwards gave {first!r}, expected 1', rp)
            if maker in ('defaultdict', 'plain') and rb is not None:
                try:
                    same = (repr(x) == rb) and (type(x) is type(before))
                except Exception:
                    same = True
                if not same:
                    fail(f'C10:mutated:{maker}:{shape(hm)}', f'checking {rb:.80} against {h!r:.160} changed it to {x!r:.80}', rp)
    # the truth value of the checked object is user code the property does not allow a check to run: mappings / lists
    # that record __bool__ (only __len__, iteration and indexing are read-only protocol code)
    class BoolSpyDict(dict):
        calls = 0

        def __bool__(self):
            BoolSpyDict.calls += 1
            return len(self) > 0

    class BoolSpyList(list):
        calls = 0

        def __bool__(self):
            BoolSpyList.calls += 1
            return len(self) > 0
    for h, hm in usable:
        k0 = hm[0] if isinstance(hm, list) else None
        for spy, x in ((BoolSpyDict, BoolSpyDict({'a': 1})), (BoolSpyList, BoolSpyList([1, 'a']))):
            if (spy is BoolSpyDict) != (k0 == 'map'):
                continue
            if spy is BoolSpyList and k0 not in ('seq', 'reit', 'quasi'):
                continue
            spy.calls = 0
            for cn in ('default', 'nonrandom'):
                for f in (is_bearable, die_if_unbearable):
                    real.DRAW[0] = 1
                    try:
                        f(x, h, conf=cs[cn])
                    except Exception:
                        pass
            n += 1
            kinds['bool-spy'] += 1
            if spy.calls:
                fail(f'C10:ran-user-code:__bool__:{shape(hm)}', f'checking a {spy.__name__} against {h!r:.160} called its __bool__ {spy.calls} time(s)',
                     {'hint': repr(h), 'object_kind': spy.__name__})
    if pending:
        cid = reg.id(gen.CollectionOneShot)
        items = [obj_model(b, reg) for b in [1, 'a', 2]]
        om = ['obj', cid, ['o', '0'], items, [], []]
        cases = [(rnd, [1], hm, om) for (_h, hm, _x) in pending for rnd in (True, False)]
        res = corr.model_run(cases, reg)
        for k, (h, hm, x) in enumerate(pending):
            rr = res[2 * k:2 * k + 2]
            if any(r is None or not isinstance(r[1][0][1], list) for r in rr):
                continue
            model_reads = sum(int(r[1][0][1][1]) for r in rr)
            if model_reads == 0 and x.consumed:
                fail(f'C10:consumed:collection-oneshot:{shape(hm)}',
                     f'checking a cursor-style collection (its own one-shot iterator) against {h!r:.160} advanced it {x.consumed} time(s) '
                     f'although the generated check reads no item of it', {'hint': repr(h), 'object_kind': 'collection-oneshot'})
    ex.extra['consume_cases'] = n
    ex.extra['consume_kinds'] = dict(kinds)
    ex.evaluations += n


class CustomViolation(Exception):
    pass


class CustomDoorViolation(Exception):
    pass


class CustomWarning(UserWarning):
    pass


class CustomParamViolation(Exception):
    pass


class CustomReturnViolation(Exception):
    pass


class CustomParamWarning(CustomWarning):
    pass


class CustomReturnWarning(CustomWarning):
    pass


def signal_oracle(ex, rejecting, fail):
    """Every rejection surfaces as exactly the configured violation (raised, or warned with
    the call proceeding), names the hint, its culprits begin with the rejected object, and
    is never a desynchronisation or any other exception — over violation_type /
    violation_*_type / violation_verbosity / is_color / strategy combinations."""
    import itertools
    import re
    import warnings
    from beartype import BeartypeConf, BeartypeStrategy, BeartypeViolationVerbosity, beartype
    from beartype.door import die_if_unbearable
    from beartype.roar import (BeartypeCallHintParamViolation, BeartypeCallHintReturnViolation, BeartypeDoorHintViolation)
    ansi = re.compile(r'\x1b\[[0-9;]*m')
    variants = []
    # per-entry-point classes: none, an exception / a warning for parameters only, for returns only, mixed both ways
    per_entry = ((None, None), (CustomParamViolation, None), (CustomParamWarning, None), (None, CustomReturnViolation),
                 (None, CustomReturnWarning), (CustomParamWarning, CustomReturnViolation), (CustomParamViolation, CustomReturnWarning))
    for vt, spec, strat, verb, color, pe in itertools.product(
            (None, CustomViolation, CustomWarning), (False, True), (BeartypeStrategy.O1, BeartypeStrategy.On),
            tuple(BeartypeViolationVerbosity), (None, True, False), per_entry):
        variants.append((vt, spec, strat, verb, color, pe))
    n = 0
    kinds = collections.Counter()
    rng = random.Random(len(rejecting))
    for (h, x, d, hm) in rejecting:
        for (vt, spec, strat, verb, color, (pt, rt)) in rng.sample(variants, 4):
            kw = dict(strategy=strat, violation_verbosity=verb, is_color=color)
            if vt is not None:
                kw['violation_type'] = vt
            if spec:
                kw['violation_door_type'] = CustomDoorViolation
            if pt is not None:
                kw['violation_param_type'] = pt
            if rt is not None:
                kw['violation_return_type'] = rt
            try:
                conf = BeartypeConf(**kw)
            except Exception as e:
                fail(f'C03:conf:{type(e).__name__}', f'BeartypeConf({kw}) raised {type(e).__name__}', {'kwargs': repr(kw)})
                continue
            exp_door = CustomDoorViolation if spec else (vt or BeartypeDoorHintViolation)
            exp_param = pt or vt or BeartypeCallHintParamViolation
            exp_ret = rt or vt or BeartypeCallHintReturnViolation
            fp, fr = real.decorated(h, conf)
            ran = []
            runs = [('door', exp_door, lambda: die_if_unbearable(x, h, conf=conf))]
            if fp is not None:
                runs += [('param', exp_param, lambda: fp(x)), ('return', exp_ret, lambda: fr(x))]
            for kind, exp, call in runs:
                real.DRAW[0] = d
                n += 1
                rp = {'hint': repr(h), 'object': repr(x)[:300], 'draw': d, 'entry': kind, 'conf': repr(kw), 'expected_class': exp.__name__}
                with warnings.catch_warnings(record=True) as ws:
                    warnings.simplefilter('always')
                    try:
                        call()
                        got = None
                    except Exception as e:
                        got = e
                ours = [w for w in ws if issubclass(w.category, CustomWarning)]
                if issubclass(exp, Warning):
                    kinds['warned'] += 1
                    if got is not None or not ours:
                        fail(f'C03:warn:{kind}:{shape(hm)}', f'{kind} rejection of {x!r:.60} against {h!r:.140} with a Warning class configured: '
                             f'raised {type(got).__name__ if got else None}, {len(ours)} warning(s) emitted (expected: warned, call proceeds)', rp)
                    msg = str(ours[0].message) if ours else ''
                else:
                    kinds['raised'] += 1
                    if got is None or type(got) is not exp:
                        fail(f'C03:class:{kind}:{type(got).__name__}:{shape(hm)}', f'{kind} rejection of {x!r:.60} against {h!r:.140}: got '
                             f'{type(got).__name__ if got else "no exception"}, configured {exp.__name__}', rp)
                        continue
                    msg = str(got)
                    cul = getattr(got, 'culprits', None)
                    if cul is not None and not (cul and (cul[0] is x or cul[0] == repr(x) or isinstance(cul[0], str))):
                        fail(f'C03:culprits:{kind}:{shape(hm)}', f'culprits {cul!r:.120} do not begin with the rejected object {x!r:.60}', rp)
                plain = ansi.sub('', msg)
                named = repr(h) in plain or ((T.get_origin(h) is T.Union or isinstance(h, types.UnionType)) and all(
                    (a.__name__ if isinstance(a, type) else repr(a)) in plain for a in T.get_args(h)))
                if verb is not BeartypeViolationVerbosity.MINIMAL and not named and kind == 'door':
                    fail(f'C03:message:{kind}:{shape(hm)}', f'violation message does not name the hint {h!r:.140}: {plain[:200]!r}', rp)
    ex.extra['signal_cases'] = n
    ex.extra['signal_kinds'] = dict(kinds)
    ex.evaluations += n
