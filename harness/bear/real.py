"""Driving the real beartype: control of the sampler draw, access to the generated
check expression, the five entry points."""
from __future__ import annotations

import warnings

DRAW = [0]


def _draw(nbits):
    return DRAW[0]


def install_draw_control():
    """Replace the `getrandbits` that codemain places in every generated function's
    scope (bound as the default `__beartype_getrandbits`) BEFORE any code is generated."""
    from beartype._check.code import codemain
    codemain.getrandbits = _draw
    warnings.simplefilter('ignore')


def generated_code(hint, conf):
    """(source of the check expression, scope) exactly as make_check_expr returns them."""
    from beartype._check.cls.call.calldataexternal import BEARTYPE_CALL_EXTERNAL_META
    from beartype._check.code import codemain
    from beartype._check.convert.convmain import sanify_hint_root_statement
    hs = sanify_hint_root_statement(call_curr=BEARTYPE_CALL_EXTERNAL_META, hint=hint, conf=conf, exception_prefix='x')
    code, scope = codemain.make_check_expr(BEARTYPE_CALL_EXTERNAL_META, conf, hs)
    return code, dict(scope)


def generated_code_traced(hint, conf):
    """generated_code + the trace of the placeholder mechanism: [(placeholder, snippet)] in visit order, as passed to
    `replace_str_substrs` by make_check_expr (observed from outside by substituting the module attribute)."""
    from beartype._check.code import codemain
    orig = codemain.replace_str_substrs
    events = []

    def spy(text, old, new):
        events.append((old, new))
        return orig(text=text, old=old, new=new)
    codemain.replace_str_substrs = spy
    try:
        code, scope = generated_code(hint, conf)
    finally:
        codemain.replace_str_substrs = orig
    return code, scope, events


_ALIAS: dict = {}


def mentions_alias(hint, depth: int = 0) -> bool:
    import typing as T
    k = id(hint)
    if depth == 0 and k in _ALIAS:
        return _ALIAS[k]
    r = isinstance(hint, T.TypeAliasType) or (depth < 12 and any(mentions_alias(a, depth + 1) for a in (
        list(T.get_args(hint)) + [getattr(hint, '__bound__', None)] + list(getattr(hint, '__constraints__', ()) or ()))
        if a is not None and not isinstance(a, (str, int, bytes, bool))))
    if depth == 0:
        _ALIAS[k] = r
        _KEEP.append(hint)
    return r


def verdicts(obj, hint, conf, draw: int) -> dict:
    """Accept/reject of the five entry points for one forced draw; exceptions that are
    not violations are reported by class name."""
    from beartype import beartype
    from beartype.door import TypeHint, die_if_unbearable, is_bearable
    from beartype.roar import BeartypeCallHintViolation, BeartypeDoorHintViolation
    out = {}
    DRAW[0] = draw

    def run(name, f, violation):
        DRAW[0] = draw
        try:
            r = f()
            out[name] = True if r is None else r
        except violation:
            out[name] = False
        except Exception as e:
            out[name] = 'exc:' + type(e).__name__
    run('is_bearable', lambda: is_bearable(obj, hint, conf=conf), ())
    run('die_if_unbearable', lambda: die_if_unbearable(obj, hint, conf=conf), BeartypeDoorHintViolation)
    run('typehint', lambda: TypeHint(hint).is_bearable(obj, conf=conf), ())
    if out['typehint'] == 'exc:BeartypeDoorNonpepException' and mentions_alias(hint):
        # PEP 695 aliases are documented as "currently unsupported by beartype.door.TypeHint": for hints that mention
        # one, the object-oriented entry point is outside "supported hints" (the other four entry points are judged)
        del out['typehint']
    fp, fr = decorated(hint, conf)
    if fp is not None:
        run('param', lambda: fp(obj), BeartypeCallHintViolation)
        run('return', lambda: fr(obj), BeartypeCallHintViolation)
    return out


_DECOR: dict = {}
_KEEP: list = []


def decorated(hint, conf):
    key = (id(hint), id(conf))
    if key not in _DECOR:
        from beartype import beartype
        _KEEP.append(hint)
        try:
            def fp(x: hint):
                return None

            def fr(x) -> hint:
                return x
            gp, gr = beartype(conf=conf)(fp), beartype(conf=conf)(fr)

            def call_return(x, g=gr):
                g(x)
                return None
            _DECOR[key] = (gp, call_return)
        except Exception:
            _DECOR[key] = (None, None)
    return _DECOR[key]
