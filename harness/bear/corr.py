"""The two ties of the Bear core to /repo (DESIGN §1):
  1. code-level translation validation: real make_check_expr source == Lean `gen`, node for node;
  2. behaviour-level differential: real verdicts of the five entry points under forced
     draws == Lean `chk` (== Lean `eval (gen …)`), with `sat` decided by Lean."""
from __future__ import annotations

import re

from ..common import lean_driver, parse_sexp, sexp
from . import astcanon, real
from .model import atom_of, hint_model, obj_model
from .world import Registry


def confs():
    from beartype import BeartypeConf, BeartypeStrategy
    return {
        'default': BeartypeConf(),
        'nonrandom': BeartypeConf(is_random=False),
        'On': BeartypeConf(strategy=BeartypeStrategy.On),
    }


def model_gen(hint_models: list, is_random: bool) -> list:
    """Lean `gen` for each model hint -> canonical trees (None where the driver refuses)."""
    lines = [sexp(['gen', 'true' if is_random else 'false', hm]) for hm in hint_models]
    out = []
    for line in lean_driver(lines, 'Bear', exe='beardriver'):
        v = parse_sexp(line)
        out.append(astcanon.canon(v[1]) if isinstance(v, list) and v[0] == 'ok' else None)
    return out


def code_tie(hints: list, reg: Registry, preds: dict, conf_names=('default', 'nonrandom', 'On')):
    """Returns (n_compared, diffs, skipped) where diffs = [{hint, conf, where, real, model}]."""
    cs = confs()
    todo = []
    skipped = {}
    for h in hints:
        from .model import STANDIN
        n0 = STANDIN[0]
        try:
            hm = hint_model(h, reg)
        except (NotImplementedError, KeyError) as e:
            skipped['unmodelled-hint'] = skipped.get('unmodelled-hint', 0) + 1
            continue
        if STANDIN[0] != n0:      # user generic / protocol: modelled by meaning only, behaviour tie only
            skipped['meaning-only (user generic / protocol)'] = skipped.get('meaning-only (user generic / protocol)', 0) + 1
            continue
        if hm == ['any']:
            continue
        for cn in conf_names:
            try:
                code, scope = real.generated_code(h, cs[cn])
            except Exception as e:
                todo.append((h, cn, hm, ('exc', type(e).__name__ + ': ' + str(e)[:200])))
                continue
            try:
                tree = astcanon.real_to_tree(code, scope, reg, preds, atom_of)
            except astcanon.Unmodelled as e:
                todo.append((h, cn, hm, ('unmodelled', str(e)[:300])))
                continue
            except SyntaxError as e:
                todo.append((h, cn, hm, ('syntaxerror', str(e)[:200])))
                continue
            todo.append((h, cn, hm, ('tree', tree)))
    diffs, n = [], 0
    for is_random in (True, False):
        part = [t for t in todo if (t[1] != 'nonrandom') == is_random]
        models = model_gen([t[2] for t in part], is_random)
        for (h, cn, hm, (kind, payload)), mt in zip(part, models):
            n += 1
            if mt is None:
                diffs.append({'hint': repr(h), 'conf': cn, 'where': 'model driver refused the hint', 'model_hint': hm})
            elif kind != 'tree':
                diffs.append({'hint': repr(h), 'conf': cn, 'where': f'real generator: {kind}: {payload}', 'model': mt, 'real_hint': h})
            else:
                d = astcanon.first_diff(payload, mt)
                if d:
                    diffs.append({'hint': repr(h), 'conf': cn, 'where': d, 'real': payload, 'model': mt, 'real_hint': h})
    return n, diffs, skipped


PLACEHOLDER = re.compile(r'@\[(\d+)\)!')


def bfs_tie(hints: list, conf_names=('default',)):
    """The placeholder mechanism of make_check_expr (Core/Bfs.lean, theorem `bfs_eq_flat`) against the real run:
    the snippets the real generator spliced, replayed by the model's breadth-first `run` and by the recursive
    composition `Node.flat`, must both give the code the real generator returned. -> (n, diffs)"""
    cs = confs()
    lines, meta = [], []
    for h in hints:
        for cn in conf_names:
            try:
                code, _scope, events = real.generated_code_traced(h, cs[cn])
            except Exception:
                continue            # hints the generator refuses are judged by the code-level tie
            if not events:
                continue
            chunks: dict = {}
            visits, ids = [], []
            ok = True
            for old, new in events:
                m = PLACEHOLDER.fullmatch(old)
                if not m:
                    ok = False
                    break
                items, pos = [], 0
                for mm in PLACEHOLDER.finditer(new):
                    if mm.start() > pos:
                        items.append(['t', chunks.setdefault(new[pos:mm.start()], len(chunks))])
                    items.append(['h', int(mm.group(1))])
                    pos = mm.end()
                if pos < len(new):
                    items.append(['t', chunks.setdefault(new[pos:], len(chunks))])
                visits.append([int(m.group(1))] + items)
                ids.append(int(m.group(1)))
            if not ok or len(set(ids)) != len(ids):
                meta.append((h, cn, None, None, 'a spliced placeholder is malformed or was visited twice: ' + repr(ids)))
                lines.append('(noop)')
                continue
            lines.append(sexp(['bfs', ids[0]] + visits))
            meta.append((h, cn, code, {v: k for k, v in chunks.items()}, None))
    diffs = []
    for (h, cn, code, chunks, err), line in zip(meta, lean_driver(lines, 'Bear', exe='beardriver') if lines else []):
        if err:
            diffs.append({'tie': 'placeholder mechanism', 'hint': repr(h), 'conf': cn, 'where': err})
            continue
        v = parse_sexp(line)
        if not (isinstance(v, list) and v[0] == 'ok'):
            diffs.append({'tie': 'placeholder mechanism', 'hint': repr(h), 'conf': cn, 'where': 'model driver refused the trace: ' + line[:200]})
            continue
        bfs, flat, holefree = v[1]
        t_bfs = ''.join(chunks[int(k)] for k in bfs)
        t_flat = ''.join(chunks[int(k)] for k in flat)
        if holefree != 'true' or t_bfs != code or t_flat != code:
            diffs.append({'tie': 'placeholder mechanism', 'hint': repr(h), 'conf': cn,
                          'where': f'real code differs from the model: holefree={holefree} bfs_equal={t_bfs == code} recursive_equal={t_flat == code}',
                          'real': code[:400], 'model_bfs': t_bfs[:400]})
    return len(meta), diffs


HYPS = {'checked': 0, 'failed': 0}     # side conditions of the Lean theorems, decided by the driver per case


def model_run(cases: list, reg: Registry) -> list:
    """cases = [(is_random, [draws], hint_model, obj_model)] -> [(sat, [(chk, evalresult) per draw])]"""
    ws = sexp(reg.world_sexp())
    cache: dict = {}

    def sx(t):
        k = id(t)
        if k not in cache:
            cache[k] = sexp(t)
        return cache[k]
    lines = [f'(run {ws} {"true" if rnd else "false"} {sexp(list(draws))} {sx(hm)} {sx(om)})' for rnd, draws, hm, om in cases]
    out = []
    for line in lean_driver(lines, 'Bear', exe='beardriver'):
        v = parse_sexp(line)
        if v[0] != 'ok':
            out.append(None)
            continue
        HYPS['checked'] += 1
        if v[1][1] != 'true':
            HYPS['failed'] += 1
        out.append((v[1][0] == 'true', [(c == 'true', e) for c, e in v[1][2:]]))
    return out


def model_cause(cases: list, reg: Registry) -> list:
    """cases = [(is_random, [draws], hint_model, obj_model)] -> [[(found, reads, bound) per draw] | None]:
    the instrumented violation finder `causeRC` (Lemmas/BearErrCost.lean)."""
    ws = sexp(reg.world_sexp())
    lines = [f'(cause {ws} {"true" if rnd else "false"} {sexp(list(draws))} {sexp(hm)} {sexp(om)})' for rnd, draws, hm, om in cases]
    out = []
    for line in lean_driver(lines, 'Bear', exe='beardriver'):
        v = parse_sexp(line)
        out.append(None if v[0] != 'ok' else [(f == 'true', int(n), int(b)) for f, n, b in v[1]])
    return out
