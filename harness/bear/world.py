"""The class world: real classes numbered for the Lean model; `sub` and the capability
bits are computed by the running interpreter (issubclass on the REAL classes)."""
from __future__ import annotations

import collections
import collections.abc as A
import types


class Registry:
    FIXED = [type, tuple, A.Sequence, A.Collection]      # Lean: cType cTuple cSequence cCollection = 0 1 2 3

    def __init__(self):
        self.classes: list[type] = []
        self.ids: dict[type, int] = {}
        for c in self.FIXED + [object, type(None), bool, int, float, complex, str, bytes, list, set, frozenset, dict,
                               collections.deque, collections.Counter, collections.defaultdict, collections.OrderedDict,
                               collections.ChainMap, range, A.Iterable, A.Iterator, A.Generator, A.Container, A.Reversible,
                               A.MutableSequence, A.Set, A.MutableSet, A.Mapping, A.MutableMapping, A.KeysView,
                               A.ValuesView, A.ItemsView, A.Sized, A.Hashable, A.Callable, types.GeneratorType,
                               type(iter([])), type({}.keys()), type({}.values()), type({}.items()), types.FunctionType]:
            self.id(c)

    def id(self, c: type) -> int:
        i = self.ids.get(c)
        if i is None:
            i = self.ids[c] = len(self.classes)
            self.classes.append(c)
        return i

    def world_sexp(self):
        cs = self.classes

        def sub(c, d):
            try:
                return issubclass(c, d)
            except TypeError:
                return False
        rows = [''.join('1' if sub(c, d) else '0' for d in cs) for c in cs]
        bits = lambda f: ''.join('1' if f(c) else '0' for c in cs)
        return [rows,
                bits(lambda c: hasattr(c, '__len__')),
                bits(lambda c: sub(c, A.Sequence) or (hasattr(c, '__getitem__') and not sub(c, A.Mapping) and c is collections.deque)),
                bits(lambda c: sub(c, A.Collection)),
                bits(lambda c: sub(c, A.Mapping))]
