"""Shared harness of the Bear core (C01 C02 C03 C09 C10 C12 C18): class world,
real-hint -> model-hint translation, object abstraction, canonical form of the
real generated code, control of the sampler draw."""
