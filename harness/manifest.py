"""Regenerate MANIFEST.json from the table below:  /venv/bin/python -m harness.manifest"""
import json
from .common import VERIF

BASELINE = ("cd /repo && /venv/bin/python -m pytest -ra -q -p no:cacheprovider --timeout=900 "
            "--continue-on-collection-errors")

# pid -> (technique, level text, level note, design ref)
CHECKS = {
    'C06': ('Lean 4 refinement proof (trie model = longest-registered-prefix spec, every history) + lock-step differential of the model against the real registry',
            'Theorems (Props/C06.lean): for every finite history the registry model answers every query as the declarative '
            'specification, conflicts are atomic, re-registration is idempotent, leaving a block restores root conf and stack, '
            'path hook installed iff something registered. The model is tied to /repo on every run by lock-step differential '
            'execution of generated and exhaustive-small histories on the real beartype.claw API.',
            'Trusted: Lean kernel + axioms propext/Classical.choice/Quot.sound; the harness; BeartypeConf equality modelled '
            'structurally; beartype_this_package not driven; thread interleavings excluded (C15).',
            'DESIGN §4 C06'),
}

PENDING = {
}

ALL = [f'C{i:02d}' for i in range(1, 21)]


def main():
    checks = []
    for pid, (tech, text, note, ref) in CHECKS.items():
        checks.append({
            'property_id': pid,
            'quick_cmd': f'./check {pid} --tier quick',
            'thorough_cmd': f'./check {pid} --tier thorough',
            'evidence_file': f'evidence/{pid}.json',
            'replay_cmd_template': f'./check {pid} --replay {{path}}',
            'engine': 'bearverif',
            'level_claimed': {'category': 'proof', 'text': text, 'design_ref': ref},
            'level_note': note,
            'technique': tech,
        })
    na = [{'property_id': p, 'reason': PENDING.get(p, 'check not built yet in this session (build order DESIGN §12); '
                                                   'the property is decidable by the framework and will be claimed once its model, theorems and tie exist')}
          for p in ALL if p not in CHECKS]
    m = {
        'version': 1,
        'setup_cmd': './check --setup',
        'hooks': {'guard': 'BEARTYPE_VERIF', 'enable': 'no source hooks are needed: the harness controls draws, locks and '
                  'observation points by substituting module attributes from outside', 'baseline_off_cmd': BASELINE,
                  'source_commits': [], 'add_only': True},
        'engines': [{'name': 'bearverif', 'path': 'lean/ + harness/', 'serves_properties': list(CHECKS),
                     'kind_free_text': 'Lean 4 models + theorems (lean/BearVerif), tied to /repo by translators '
                                       '(harness/extract) and differential correspondence checks (harness/props)'}],
        'checks': checks,
        'not_applicable': na,
        'notes': 'See DESIGN.md. Genuine defects found are in known_findings.json (findings + fixed).',
    }
    (VERIF / 'MANIFEST.json').write_text(json.dumps(m, indent=1) + '\n')
    print('checks:', list(CHECKS), 'not_applicable:', len(na))


if __name__ == '__main__':
    main()
