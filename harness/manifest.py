"""Regenerate MANIFEST.json from the table below:  /venv/bin/python -m harness.manifest"""
import json
from .common import VERIF

BASELINE = ("cd /repo && /venv/bin/python -m pytest -ra -q -p no:cacheprovider --timeout=900 "
            "--continue-on-collection-errors")

# pid -> (technique, level text, level note, design ref)
CHECKS = {
    'C06': ('Lean 4 refinement proof (trie model = longest-registered-prefix spec, every history) + lock-step differential of the model against the real registry',
            'Theorems (Props/C06.lean): for every finite history the registry model answers every query as the declarative '
            'specification, conflicts are atomic, re-registration is idempotent, leaving a block restores root conf and stack, '
            'path hook installed iff something registered. The model is tied to /repo on every run by lock-step differential '
            'execution of generated and exhaustive-small histories on the real beartype.claw API.',
            'Trusted: Lean kernel + axioms propext/Classical.choice/Quot.sound; the harness; BeartypeConf equality modelled '
            'structurally; beartype_this_package not driven; thread interleavings excluded (C15).',
            'DESIGN §4 C06'),
}

_BEAR_NOTE = ('Trusted: Lean kernel + axioms propext/Classical.choice/Quot.sound; the harness (hint/object translation written from '
              'typing introspection, AST canonicalisation, generators); CPython evaluation of generated code is modelled by `eval` and '
              'validated behaviourally, not verified; objects are well-behaved containers; hint grammar = the modelled one (user generics, '
              'protocols beyond isinstance, third-party hints out of scope).')
_BEAR_TECH = ('Lean 4 proof by structural induction (sat -> chk -> eval(gen), all hints/objects/draws) + code-level translation validation '
              'of make_check_expr against the Lean generator + behaviour differential under forced sampler draws')
CHECKS.update({
    'C01': (_BEAR_TECH, 'Theorems (Props/C01.lean): published meaning implies the sampled check for every draw; compiler correctness '
            'eval(gen h) = chk h for every hint of any nesting and every object, incl. the walrus-variable discipline and validators; '
            'hence no false alarm and no exception on conforming objects. Tie on every run: real generated source parsed with ast and '
            'compared node-for-node with gen (exhaustive shapes + seeded hints, 3 configurations), five entry points under 9 forced draws.',
            _BEAR_NOTE, 'DESIGN §4 C01'),
    'C02': (_BEAR_TECH, 'Theorems (Props/C02.lean): rejection for every draw when the top-level class, tuple length/any position, Literal, '
            'type[...], union, validator fails or every item/key/value is bad; every index reachable by a 32-bit draw; is_random=False '
            'inspects item 0; accepted implies a consistent sampled path; elided children accept everything. Same two ties as C01 with the '
            'mutated-object stream; a real accept where the model rejects for that draw is the violation.', _BEAR_NOTE, 'DESIGN §4 C02'),
    'C09': (_BEAR_TECH + ' + measured item reads on instrumented containers across a size sweep',
            'Theorems (Props/C09.lean): items read by the generated code <= levels(h), a constant of the hint alone (one item per container '
            'level, key+value per mapping level), for objects of any size, accepted or rejected; non-collections read nothing. Tie: counting '
            'container subclasses measure real reads (deciding path must not exceed the model; reads incl. violation message must not grow '
            'over repeat factors 1/40/1500).', _BEAR_NOTE + ' repr() time and ABC hook costs are not item reads.', 'DESIGN §4 C09'),
    'C10': (_BEAR_TECH + ' + spy objects (one-shot iterables, generators, iterators, defaultdicts)',
            'Theorems (Props/C10.lean): the generated code never applies len/index/next(iter()) to an object whose class lacks the '
            'capability (in the model, iterating a non-re-iterable object is an error and eval never errs), quasi-iterable hints decide '
            'non-collections by isinstance alone, shallow hints generate isinstance only. Tie: code-level comparison (any construct outside '
            'the read-only expression language is reported) + spies checked against every hint shape must be left unconsumed/unchanged.',
            _BEAR_NOTE, 'DESIGN §4 C10'),
    'C12': (_BEAR_TECH, 'Theorems (Props/C12.lean): is_valid = boolean meaning; inline validator code evaluates to the boolean meaning given '
            'an identifier and only writes its own temporaries; Annotated[T, V...] = chk T and all Vi in every pith position. Tie: '
            'validator shapes (5 factories, 3 operators, ignorable/unignorable metahints, 1-3 validators) in every pith position, '
            'code-level and behavioural.', _BEAR_NOTE, 'DESIGN §4 C12'),
})

CHECKS.update({
    'C03': (_BEAR_TECH + ' + model of the explanation path (hasCause) proved to find a cause whenever the generated code rejects',
            'Theorems (Props/C03.lean): no desynchronisation (chk false => the finder model finds a cause, under O1 and On), all entry points '
            'evaluate the same expression (= chk), the signal is the configured class (specific option, else violation_type, else default), '
            'warned iff Warning. Tie: five entry points must agree under forced draws; rejecting cases are re-run over violation_type / '
            'violation_door_type / verbosity / is_color / strategy combinations checking exception class, warning + call proceeds, '
            'culprits[0], hint named in the message, no other exception.', _BEAR_NOTE + ' Message wording is not modelled.', 'DESIGN §4 C03'),
    'C18': ('Lean 4 proof (rewriting reaches every depth once; union flattening preserves meaning and sampled check) + metamorphic '
            'differential of the real options against real hand-rewritten hints (canonical generated code and verdicts)',
            'Theorems (Props/C18.lean): rewrite/flatten laws, numeric tower instance, violation types never change a verdict. Tie on every run: '
            'is_pep484_tower and hint_overrides (incl. self-recursive A->A|int and class->container) vs the default configuration on the '
            'hand-rewritten hint: same canonical code, same is_bearable / die_if_unbearable under forced draws; both equal the Lean generator.',
            _BEAR_NOTE + ' _reduce_hint_overrides itself is tied only through the metamorphic differential.', 'DESIGN §4 C18'),
    'C08': ('Lean 4 simulation proof (decorated generator/coroutine/async-generator object = lift of the undecorated one, all bodies, all '
            'operation sequences) over a model of CPython 3.12\'s generator protocol; translator-extracted reinit decision + snippet ASTs; '
            'three-way differential on enumerated transition tables',
            'Theorems (Props/C08.lean): the wrapper emitted from code-object flags has the decoratee\'s inspect kind and awaits the call iff '
            'coroutine; for every resumable body that does not yield on GeneratorExit and every finite sequence of next/send/throw/close '
            '(anext/asend/athrow/aclose) the decorated object yields the same per-operation values, exceptions and finalisation log as the '
            'original, the returned value going through the return check - except explicit throw(GeneratorExit) into a body that swallows it '
            'and returns (counterexample theorems; known finding F-C08a). Tied to /repo by extracted tables and exhaustive-small plus random '
            'table x operation-sequence differentials on real objects.',
            'Partial at F-C08a only. Modelled, not verified: CPython 3.12 generator protocol (validated against real objects); no event loop, '
            'GC finalisation, asyncgen hooks, tracebacks.', 'DESIGN §4 C08'),
})

PENDING = {
}

ALL = [f'C{i:02d}' for i in range(1, 21)]


def main():
    checks = []
    for pid, (tech, text, note, ref) in CHECKS.items():
        checks.append({
            'property_id': pid,
            'quick_cmd': f'./check {pid} --tier quick',
            'thorough_cmd': f'./check {pid} --tier thorough',
            'evidence_file': f'evidence/{pid}.json',
            'replay_cmd_template': f'./check {pid} --replay {{path}}',
            'engine': 'bearverif',
            'level_claimed': {'category': 'proof', 'text': text, 'design_ref': ref},
            'level_note': note,
            'technique': tech,
        })
    na = [{'property_id': p, 'reason': PENDING.get(p, 'check not built yet in this session (build order DESIGN §12); '
                                                   'the property is decidable by the framework and will be claimed once its model, theorems and tie exist')}
          for p in ALL if p not in CHECKS]
    m = {
        'version': 1,
        'setup_cmd': './check --setup',
        'hooks': {'guard': 'BEARTYPE_VERIF', 'enable': 'no source hooks are needed: the harness controls draws, locks and '
                  'observation points by substituting module attributes from outside', 'baseline_off_cmd': BASELINE,
                  'source_commits': [], 'add_only': True},
        'engines': [{'name': 'bearverif', 'path': 'lean/ + harness/', 'serves_properties': list(CHECKS),
                     'kind_free_text': 'Lean 4 models + theorems (lean/BearVerif), tied to /repo by translators '
                                       '(harness/extract) and differential correspondence checks (harness/props)'}],
        'checks': checks,
        'not_applicable': na,
        'notes': 'See DESIGN.md. Genuine defects found are in known_findings.json (findings + fixed).',
    }
    (VERIF / 'MANIFEST.json').write_text(json.dumps(m, indent=1) + '\n')
    print('checks:', list(CHECKS), 'not_applicable:', len(na))


if __name__ == '__main__':
    main()
