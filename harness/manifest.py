"""Regenerate MANIFEST.json from the table below:  /venv/bin/python -m harness.manifest"""
import json
from .common import VERIF

BASELINE = ("cd /repo && /venv/bin/python -m pytest -ra -q -p no:cacheprovider --timeout=900 "
            "--continue-on-collection-errors")

# pid -> (technique, level text, level note, design ref)
CHECKS = {
    'C06': ('Lean 4 refinement proof (trie model = longest-registered-prefix spec, every history) + lock-step differential of the model against the real registry',
            'Theorems (Props/C06.lean): for every finite history the registry model answers every query as the declarative '
            'specification, conflicts are atomic, re-registration is idempotent, leaving a block restores root conf and stack, '
            'path hook installed iff something registered. The model is tied to /repo on every run by lock-step differential '
            'execution of generated and exhaustive-small histories on the real beartype.claw API.',
            'Trusted: Lean kernel + axioms propext/Classical.choice/Quot.sound; the harness; BeartypeConf equality modelled '
            'structurally; beartype_this_package not driven; thread interleavings excluded (C15).',
            'DESIGN §4 C06'),
}

_BEAR_NOTE = ('Trusted: Lean kernel + axioms propext/Classical.choice/Quot.sound; the harness (hint/object translation written from '
              'typing introspection, AST canonicalisation, generators); CPython evaluation of generated code is modelled by `eval` and '
              'validated behaviourally, not verified; objects are well-behaved containers; hint grammar = the modelled one (classes, '
              'unions, literals, tuples, 1-argument containers, mappings, type[...], Annotated validators, TypeVars, NewTypes, PEP 695 '
              'aliases incl. recursive ones as unrolled, user generics and protocols; generics deriving from user generics and '
              'third-party hints out of scope).')
_BEAR_TECH = ('Lean 4 proof by structural induction (sat -> chk -> eval(gen), all hints/objects/draws) + code-level translation validation '
              'of make_check_expr against the Lean generator + behaviour differential under forced sampler draws')
CHECKS.update({
    'C01': (_BEAR_TECH, 'Theorems (Props/C01.lean): published meaning implies the sampled check for every draw; compiler correctness '
            'eval(gen h) = chk h for every hint of any nesting and every object, incl. the walrus-variable discipline and validators; '
            'hence no false alarm and no exception on conforming objects; bounding the unrolling of a recursive alias never causes a '
            'false alarm (C01_alias_unroll_sound); the breadth-first placeholder mechanism of make_check_expr computes the recursive '
            'composition for every snippet tree (C01_placeholder_mechanism), replayed on the real snippets of every generated hint. '
            'Tie on every run: real generated source parsed with ast and '
            'compared node-for-node with gen (exhaustive shapes + seeded hints, 3 configurations), five entry points under 9 forced draws.',
            _BEAR_NOTE, 'DESIGN §4 C01'),
    'C02': (_BEAR_TECH, 'Theorems (Props/C02.lean): rejection for every draw when the top-level class, tuple length/any position, Literal, '
            'type[...], union, validator fails or every item/key/value is bad; every index reachable by a 32-bit draw; is_random=False '
            'inspects item 0; accepted implies a consistent sampled path; elided children accept everything. Same two ties as C01 with the '
            'mutated-object stream; a real accept where the model rejects for that draw is the violation.', _BEAR_NOTE, 'DESIGN §4 C02'),
    'C09': (_BEAR_TECH + ' + measured item reads on instrumented containers across a size sweep',
            'Theorems (Props/C09.lean): items read by the generated code <= levels(h), a constant of the hint alone (one item per container '
            'level, key+value per mapping level), for objects of any size, accepted or rejected; non-collections read nothing; the '
            'violation finder (instrumented model causeRC, verdict proved equal to hasCause) reads <= causeBound(h) items '
            '(C09_explainer_cost). Tie: counting '
            'container subclasses measure real reads (deciding path must not exceed the model; reads incl. violation message must not grow '
            'over repeat factors 1/40/1500).', _BEAR_NOTE + ' repr() time and ABC hook costs are not item reads.', 'DESIGN §4 C09'),
    'C10': (_BEAR_TECH + ' + spy objects (one-shot iterables, generators, iterators, defaultdicts)',
            'Theorems (Props/C10.lean): the generated code never applies len/index/next(iter()) to an object whose class lacks the '
            'capability (in the model, iterating a non-re-iterable object is an error and eval never errs), quasi-iterable hints decide '
            'non-collections by isinstance alone, shallow hints generate isinstance only. Tie: code-level comparison (any construct outside '
            'the read-only expression language is reported) + spies checked against every hint shape must be left unconsumed/unchanged.',
            _BEAR_NOTE, 'DESIGN §4 C10'),
    'C12': (_BEAR_TECH, 'Theorems (Props/C12.lean): is_valid = boolean meaning; inline validator code evaluates to the boolean meaning given '
            'an identifier and only writes its own temporaries; Annotated[T, V...] = chk T and all Vi in every pith position. Tie: '
            'validator shapes (5 factories, 3 operators, ignorable/unignorable metahints, 1-3 validators) in every pith position, '
            'code-level and behavioural.', _BEAR_NOTE, 'DESIGN §4 C12'),
})

CHECKS.update({
    'C03': (_BEAR_TECH + ' + model of the explanation path (hasCause) proved to find a cause whenever the generated code rejects',
            'Theorems (Props/C03.lean): no desynchronisation (chk false => the finder model finds a cause, under O1 and On), all entry points '
            'evaluate the same expression (= chk), the signal is the configured class (specific option, else violation_type, else default), '
            'warned iff Warning. Tie: five entry points must agree under forced draws; rejecting cases are re-run over violation_type / '
            'violation_door_type / verbosity / is_color / strategy combinations checking exception class, warning + call proceeds, '
            'culprits[0], hint named in the message, no other exception.', _BEAR_NOTE + ' Message wording is not modelled.', 'DESIGN §4 C03'),
    'C18': ('Lean 4 proof (rewriting reaches every depth once; union flattening preserves meaning and sampled check) + metamorphic '
            'differential of the real options against real hand-rewritten hints (canonical generated code and verdicts)',
            'Theorems (Props/C18.lean): rewrite/flatten laws, numeric tower instance, violation types never change a verdict. Tie on every run: '
            'is_pep484_tower and hint_overrides (incl. self-recursive A->A|int and class->container) vs the default configuration on the '
            'hand-rewritten hint: same canonical code, same is_bearable / die_if_unbearable under forced draws; both equal the Lean generator.',
            _BEAR_NOTE + ' _reduce_hint_overrides itself is tied only through the metamorphic differential.', 'DESIGN §4 C18'),
    'C08': ('Lean 4 simulation proof (decorated generator/coroutine/async-generator object = lift of the undecorated one, all bodies, all '
            'operation sequences) over a model of CPython 3.12\'s generator protocol; translator-extracted reinit decision + snippet ASTs; '
            'three-way differential on enumerated transition tables',
            'Theorems (Props/C08.lean): the wrapper emitted from code-object flags has the decoratee\'s inspect kind and awaits the call iff '
            'coroutine; for every resumable body that does not yield on GeneratorExit and every finite sequence of next/send/throw/close '
            '(anext/asend/athrow/aclose) the decorated object yields the same per-operation values, exceptions and finalisation log as the '
            'original, the returned value going through the return check - except explicit throw(GeneratorExit) into a body that swallows it '
            'and returns (counterexample theorems; known finding F-C08a). Tied to /repo by extracted tables and exhaustive-small plus random '
            'table x operation-sequence differentials on real objects.',
            'Partial at F-C08a only. Modelled, not verified: CPython 3.12 generator protocol (validated against real objects); no event loop, '
            'GC finalisation, asyncgen hooks, tracebacks.', 'DESIGN §4 C08'),
})

CHECKS.update({
    'C04': ('Lean 4 refinement proof (model of the generated call wrapper = CPython\'s argument binding, for every signature and call) + '
            'three-way differential: bare call || real decorated call with recording validators || model',
            'Theorems (Props/C04.lean), for every signature (five kinds, any annotated subset, any defaults) and every call: iter_func_args\' '
            'arithmetic yields the declared parameters with kinds and indices; when the call binds, the wrapper\'s (parameter, value) checks are, '
            'as a multiset, exactly the passed values paired with the annotated parameters CPython binds them to (each *args item, each excess '
            'keyword incl. one colliding with a positional-only name; unpassed defaults never); an unbindable call ends in TypeError or a '
            'parameter violation with 0 runs; if all checks pass the original runs exactly once with the same (args, kwargs) and its '
            'result/exception comes back unchanged; a failing parameter check means 0 runs. Tie: functions exec\'d from generated source with '
            'recording validators, called bare (validates pyBind) and decorated, over every signature with <=1 parameter per kind x call shapes, '
            'all kind-count vectors <=2 per kind, random signatures; the oracle is evaluated on the real outputs.',
            'Trusted: Lean kernel + standard axioms; the harness; CPython 3.12 binding modelled by pyBind (validated against the bare call on '
            'every case); the per-parameter check is abstract (C01/C02). Not covered: bound methods/classes (C13), coroutines/generators (C08), '
            'non-default configurations.', 'DESIGN §4 C04'),
    'C13': ('Lean 4 refinement proof by mutual structural induction over nested class bodies (class-decorator loop = member-wise map; '
            'identity/idempotence with object ids) + node-for-node comparison of real decorated object graphs with the model, two-route '
            'differential and clause oracle on generated classes, python -O in a fresh interpreter',
            'Theorems (Props/C13.lean), for every class (functions, classmethods, staticmethods, properties, nested classes of any depth, '
            'referenced classes, inherited members), configuration and interpreter mode: decorating a class = decorating each own member by hand, '
            'recursively for nested classes, inherited/referenced untouched; kind, names, docs, signatures kept and the original is __wrapped__; '
            'same class object, marked; second application returns the same object; unannotated / ignorable / @no_type_check / already wrapped / '
            'O0 / -O / already decorated class are identities. Tie: real classes generated from source are reified, decorated for real and by the '
            'model, object graphs compared node for node; class route vs member-by-member hand decoration on a twin (verdict vectors).',
            'Trusted: Lean kernel + standard axioms; the harness. Identity of classmethod/staticmethod/property OBJECTS is up to the rebuilt '
            'descriptor object (functions inside are identical objects). Assumes hints needing no class stack, is_pep557_fields=False.',
            'DESIGN §4 C13'),
    'C16': ('Lean 4 invariant proof over every history of interpreter runs (cache keyed by (module, marker tag); marker recipe re-observed on '
            '/repo every run) + real subprocess run histories over a scratch tree compared with an empty-cache oracle and lock-step with the '
            'model; forced two-thread interleavings for the concurrent clause',
            'Theorems (Props/C16.lean), for every finite history of runs: cache files are named by the marker of the current run\'s '
            'configuration, stock name iff unhooked, untransformed code iff stock-named; executed code is compiled from the current source '
            'version; every module behaves as its current configuration applied to the current source iff the marker determines the AST shape '
            '(holds for /repo\'s observed recipe, whose injectivity is re-decided on every run). Concurrent imports: proved for serial '
            'schedules, false in general (counterexample theorems; known findings F-C16b). Tie: marker table observed for all 18 shape-option '
            'combinations; exhaustive ordered pairs of hook states, forced interleavings, seeded histories of real interpreter runs.',
            'Trusted: Lean kernel + standard axioms; the harness; CPython import system and .pyc stamping modelled (validated lock-step). '
            'Partial: concurrent clause proved for serial schedules only - the code violates it under interleaving (F-C16b).', 'DESIGN §4 C16'),
})

CHECKS.update({
    'C17': ('Lean 4 proof over an executable model of BeartypeConf.__new__ (normalise, validate, then memoise; cache invariant + induction '
            'over every history) parametrised by the option table that a translator re-extracts from the source on every run; lock-step '
            'differential of generated construction histories against the real class in fresh subprocesses',
            '18 theorems (Props/C17.lean) for every well-formed option table (incl. the extracted one), every finite history, every keyword '
            'dictionary: same call later -> same object/same exception; keyword order irrelevant; one object iff normalised arguments identical, '
            'else unequal both ways; == is identity; hash agrees; valid values comparing == are identical; kwargs and every property read back '
            'the passed arguments except three exactly characterised adjustments; BeartypeConf(**c.kwargs) is c; an invalid or unhashable value '
            '-> BeartypeConfParamException from every state; never a raw exception. Tie: option table re-extracted from beartype/_conf on '
            'every run; generated + directed histories run on the real class in fresh subprocesses and on the model after every call; clauses '
            'evaluated on the real outputs.',
            'Trusted: Lean kernel + standard axioms; the translator (textual recognition of validator conditions); the harness; values as '
            'first-order terms with Python ==/hash; single-threaded histories (interleavings are C15).', 'DESIGN §4 C17'),
})

CHECKS.update({
    'C20': ('Lean 4 proof by structural induction on the object (the hint inferred by the model of infer_hint is satisfied at full depth, '
            'hence accepted for every draw via C01; termination of the id-set guard on every finite heap) + translator-extracted inference '
            'tables + differential of real infer_hint against the model and the round trip evaluated on the real outputs under forced draws',
            'Theorems (Props/C20.lean): for every Inferable object of any nesting and mix, sat(infer(x), x) under the default O(n) strategy, '
            'hence chk for every configuration and draw; unions are sets; the excluded shapes are exactly those whose hint provably rejects '
            '(FSM protocol not a superclass) plus self-referential containers; the guarded traversal of any finite heap finishes within '
            '|heap|+1 nested calls and emits the placeholder and one warning. Tie: tables re-extracted from /repo; generated objects (scalars, '
            'classes, callables, builtin and user containers, views, ranges, duck-typed look-alikes, self-referential graphs) through real '
            'infer_hint vs the model; is_bearable(obj, infer_hint(obj)) under 5 forced draws x 3 configurations.',
            'Partial at F-C20c (recursive containers), F-C20d/e (FSM protocol not a superclass) - known findings with counterexample theorems. '
            'Trusted: Lean kernel + standard axioms; the harness; callables opaque; numpy inference not modelled; O1 inference tied but not '
            'claimed at full depth.', 'DESIGN §4 C20'),
})

CHECKS.update({
    'C14': ('Lean 4 invariant proof (every memo table stays sound under its key discipline for every finite history; KeyCongruent discharged '
            'for ==, repr-validated-by-== and id-with-pinned-objects keys, refuted with witnesses for raw repr / raw id keys and stale '
            'forward-reference referents) + memoisation sites and key disciplines re-extracted from the source AST on every run + '
            'fresh-interpreter differential and table lock-step on the real code',
            'Theorems (Props/C14.lean): after every finite history of queries, failing queries, garbage collections, class redefinitions and '
            'cache clears a memoised system with a congruent key relation answers every query as a fresh interpreter (values and cached '
            'exceptions; cached = first-time; congruence is necessary); the checker pipeline and the id-keyed TypeHint tables satisfy it; a '
            'failed forward reference leaves no trace and resolves once defined; decorated redefinition and clear_caches() restore fresh '
            'answers; every memoising decorator / module cache found in the source uses a discipline with a full-strength theorem. Tied to '
            '/repo by comparing the queries of adversarial histories with fresh interpreters and by lock-step of the table model.',
            'Partial: forward-reference referents only while no name is bound twice (2 known findings). == congruence assumed for beartype\'s '
            'full hint semantics (proved for a concrete sub-language). Fresh interpreter = fork of a pristine interpreter. Trusted: Lean '
            'kernel + standard axioms, AST translator, harness; single-threaded.', 'DESIGN §4 C14'),
})

CHECKS.update({
    'C19': ('Lean 4 proof over an executable model of beartype.door (is_subhint / TypeHint) for every hint and every fuel + model/real '
            'comparison of every ordered pair and real-output oracles over all triples',
            'Theorems (Props/C19.lean): reflexivity of is_subhint and == for every hint; soundness w.r.t. the published meaning (Bear core sat) '
            'on the Any-free Callable-free grammar; transitivity under explicit decidable side conditions, each excluded shape kept as a '
            'decided counterexample that the harness re-finds on the real code (known findings); == implies mutual subhint; '
            'len/iter/getitem/contains/args describe the same children; TypeHint(h) is TypeHint(h). Tie: real is_subhint, ==, len/iter/args/'
            'is_ignorable of a fixed pool of 136 hints (every wrapper class, depth <= 2) plus seeded hints compared with the model for every '
            'ordered pair; reflexivity, transitivity over all triples, soundness against real is_bearable under forced draws, identity, '
            '==/hash/mutual-subhint and children oracles evaluated on the real outputs.',
            'Trusted: Lean kernel + standard axioms; the harness; class table extracted per run. Partial: C19_refl_partial, C19_trans_partial, '
            'C19_eq_hash_partial (7 known findings); Callable/type[...]/validator-annotated hints have no modelled meaning; generic classes '
            'outside the model.', 'DESIGN §4 C19'),
})

CHECKS.update({
    'C07': ('Lean 4 proof over an executable model of the resolution logic (layered forward scope, proxy state machine, event histories; '
            'structural induction over hint expressions, induction over histories, printer/parser round trip) + generated-program '
            'differential in fresh interpreters (4 annotation variants x placements x definition orders, forced sampler draws)',
            'Theorems (Props/C07.lean, 27): string / postponed / names-only-quoted forms are stored with exactly the evaluated form\'s hint '
            'when the forward scope binds the names as Python does and a proxy-free hint is checked unchanged forever; layer order and '
            'agreement with Python\'s scoping; proxy state machine: unresolved raises and leaves the cache untouched, resolves once defined, '
            'remembered after success only; define-after = define-before for every module-level history without rebinding. Counterexample '
            'theorems pin the code\'s deviations. Tie: corpus + systematic placement x scope x order enumeration + seeded programs, fresh '
            'interpreter each, 4 variants; verdict vectors under forced draws vs the reference callable decorated with the model-predicted '
            'hint and vs the hint Python\'s scoping prescribes.',
            'PARTIAL. Proved: the resolution LOGIC of the model. Modelled, not verified: frame introspection, eval of strings, PEP 563/649/749 '
            'plumbing, the check of the resolved hint (Bear core). 20 known findings (name-based fake proxies after the parent scope returned, '
            'only the directly enclosing scope\'s locals, NONRANDOM check through lazily resolved PEP hints, ...). CPython 3.12 only.',
            'DESIGN §4 C07'),
})

CHECKS.update({
    'C15': ('Lean 4 invariant/simulation proofs over transition systems with CPython\'s atomicity assumptions + lock skeletons re-extracted '
            'from the source AST on every run (table theorems) + controlled line/bytecode-granularity thread scheduler on the real code '
            'with cooperative locks, sequential-reference oracle and deterministic schedule replay',
            'Theorems (Props/C15.lean), every schedule, any number of threads: accesses under the variable\'s lock serialise to the '
            'lock-acquisition order; get-or-create under a lock gives one object per key (BeartypeConf, TypeHint; re-entrant factory); no '
            'pooled item is held twice; the lock-free memo returns f k; ranked lock order with RLock re-entrancy never deadlocks; the '
            'extracted skeletons of the 10 locked regions and 3 memo sites satisfy these disciplines (decide). Tie: 2-3 real threads run '
            'public-API operations under enumerated schedules (every lock event, visits of every line of the synchronisation files with one '
            'and two preemptions, PCT, random walks); oracle on real outcomes: no exception, deadlock or hang; no pooled item handed out '
            'twice; singleton identity; outcome in the outcomes of all sequential orders.',
            'PARTIAL: theorems hold for the model (atomic step = one lock op / dict get / dict set / list pop / list append; GIL builds); real '
            'interleavings are searched, not proved (free-threaded builds, C-level races not exhibited). Trusted: Lean kernel + standard '
            'axioms, AST translator, scheduler harness.', 'DESIGN §4 C15'),
})

CHECKS.update({
    'C05': ('Lean 4 proof by mutual structural induction over nested statement lists (model of BeartypeNodeTransformer = the declarative '
            'hand-decoration rule, for every module, configuration and beforelist schema) + translation validation of the real transformer on '
            'grammar-generated and exhaustive-small modules + three-way execution differential (unhooked || hooked || hand-decorated source) '
            'in fresh interpreters',
            'Theorems (Props/C05.lean), for every module of the mini-AST (any nesting of def/async def/class/compound statements, decorator '
            'stacks, Name/Attribute/Subscript targets), all settings of claw_is_pep526 / claw_decor_place_func / claw_decor_place_type / '
            'default-vs-non-default configuration and every beforelist schema: the transformation only adds nodes (erase o xform = id); it '
            'equals the hand-written rule (scope stack = "nearest enclosing def/class is a class", index loops = takeWhile/dropWhile '
            'placement) on modules without subscript-target annotated assignments; the single import sits right after the '
            'docstring/__future__ prefix and only when other statements exist; every added node carries the location of the statement it '
            'belongs to; classes are decorated exactly once, methods never themselves, functions nested in methods once; every '
            'side-effecting expression occurs once in evaluated positions when re-read annotations/attribute-target objects are pure. '
            'Counterexample theorems for the two false clauses. Tie on every run: the real transformer\'s output is abstracted and compared '
            'with xform/byHand (+ compile(), locations of all nodes), and runnable programs (clean / violating / unsupported-hint / impure / '
            'subscript families) are executed unhooked, hooked and hand-decorated comparing stdout, globals, exception class, traceback '
            'lines, warnings and offending-statement marks; the clauses are evaluated on the real outputs.',
            'Partial: C05_eq_byHand_partial (Subscript targets never checked) and C05_once_partial (attribute-target object and annotation '
            're-read by the check) - known findings with counterexample theorems. Not theorems: compile() success and run-time equivalence '
            '(CPython not modelled; differential evidence). Outside the model: PEP 695 type statements, relative imports inside beforelist '
            'packages, by-design BeartypeClawAstImportException on beforelist misuse (modelled by `raises`, validated). Trusted: Lean kernel '
            '+ standard axioms; the harness (AST abstraction, generators, by-hand rebuilding via ast.unparse + line map); stub packages stand '
            'in for celery/fastmcp/langchain_core.', 'DESIGN §4 C05'),
    'C11': ('Lean 4 proofs over translator-extracted tables (exception/warning hierarchy with ancestor certificates, every raise/warn site '
            'of beartype/) and over executable models of reraise_exception_placeholder, callable_cached, die_unless_hint and the wrapper\'s '
            'exception paths + differential malformed-hint generator driving @beartype, is_bearable, die_if_unbearable, TypeHint, is_subhint '
            'in forked children (PARTIAL)',
            'Theorems (Props/C11.lean, 24): on tables re-extracted on every run - under = reachability; exported iff no underscore; every '
            'public class under BeartypeException; Decor/Call exception and violation families rooted as documented and pairwise disjoint; '
            'warnings under BeartypeWarning; all raise sites rooted, protocol builtins or re-raise; placeholder messages only under a '
            'reraise handler. For all inputs - reraise keeps class and identity; after every history a @callable_cached function answers '
            'what the function answers, never the hashing TypeError; the die_unless_hint table is total with three public outcomes; user '
            'exceptions leave wrapper/is_bearable/die_if_unbearable as the same object. Tie: extracted = run-time classes; reraise / '
            'callable_cached / die_unless_hint / scripted user exceptions vs the real functions; 1 500 (quick) / 12 000 (thorough) malformed '
            'hints x 6 entry points judged on the REAL outcome.',
            'PARTIAL: "whatever object is supplied as a hint" ranges over all of Python; the proofs cover the exception algebra, extracted '
            'tables, memoiser, classification logic and wrapper exception paths, the unbounded claim is supported by the differential '
            'generator only. 7 repairs in /repo (5 in fixes/C11_*.patch + alias-of-Any unions, NewType over final classes), 23 listed findings. Trusted: Lean kernel + propext/Classical.choice/Quot.sound; '
            'the AST translator (cross-checked at run time); the harness; exceptions raised by the hint object\'s own dunder methods count '
            'as user code; time-outs give no verdict; third-party hints and Python other than 3.12 not driven.', 'DESIGN §4 C11'),
})

PENDING = {
}

ALL = [f'C{i:02d}' for i in range(1, 21)]


def main():
    checks = []
    for pid, (tech, text, note, ref) in CHECKS.items():
        checks.append({
            'property_id': pid,
            'quick_cmd': f'./check {pid} --tier quick',
            'thorough_cmd': f'./check {pid} --tier thorough',
            'evidence_file': f'evidence/{pid}.json',
            'replay_cmd_template': f'./check {pid} --replay {{path}}',
            'engine': 'bearverif',
            'level_claimed': {'category': 'proof', 'text': text, 'design_ref': ref},
            'level_note': note,
            'technique': tech,
        })
    na = [{'property_id': p, 'reason': PENDING.get(p, 'check not built yet in this session (build order DESIGN §12); '
                                                   'the property is decidable by the framework and will be claimed once its model, theorems and tie exist')}
          for p in ALL if p not in CHECKS]
    m = {
        'version': 1,
        'setup_cmd': './check --setup',
        'hooks': {'guard': 'BEARTYPE_VERIF', 'enable': 'no source hooks are needed: the harness controls draws, locks and '
                  'observation points by substituting module attributes from outside', 'baseline_off_cmd': BASELINE,
                  'source_commits': [], 'add_only': True},
        'engines': [{'name': 'bearverif', 'path': 'lean/ + harness/', 'serves_properties': list(CHECKS),
                     'kind_free_text': 'Lean 4 models + theorems (lean/BearVerif), tied to /repo by translators '
                                       '(harness/extract) and differential correspondence checks (harness/props)'}],
        'checks': checks,
        'not_applicable': na,
        'notes': 'See DESIGN.md. Genuine defects found are in known_findings.json (findings + fixed).',
    }
    (VERIF / 'MANIFEST.json').write_text(json.dumps(m, indent=1) + '\n')
    print('checks:', list(CHECKS), 'not_applicable:', len(na))


if __name__ == '__main__':
    main()
