"""C20 — an inferred hint always accepts the object it was inferred from (DESIGN §4 C20).

Tie (every run):
  * translator: the FSM over method names, the builtin type -> hint factory table, the scalar set and
    the root-tuple bound are re-extracted from $VERIF_REPO into Extracted/Infer.lean (harness/extract/infer.py);
  * correspondence: generated objects (specs, so every case replays alone) go through the real
    `infer_hint(obj, conf)` and through the Lean model `infer` (Core/Infer.lean) — hints compared after
    canonicalisation (unions as sets, classes by registry number) under On and under O1 with forced
    inference draws; recursion warnings counted on both sides; `I.Wf W` / `W.Wf` (the hypotheses of
    C20_roundtrip) decided by the driver for the class table of the run;
  * oracle (independent of the model): `is_bearable(obj, infer_hint(obj))` on the REAL outputs under
    several forced sampler draws and three configurations; `infer_hint` itself must not raise, must
    terminate on self-referential containers and must warn there.
"""
from __future__ import annotations

import collections
import collections.abc as A
import enum
import fractions
import functools
import inspect
import random
import signal
import time
import types
import typing as T
import warnings

from ..bear import gen as bgen
from ..bear import model as bmodel
from ..bear import real as breal
from ..bear.world import Registry
from ..common import LEAN, Check, Explore, Failure, lean_driver, parse_sexp, sexp
from ..extract import infer as xinfer

MODULE = 'BearVerif.Props.C20'
PROP_FILE = LEAN / 'BearVerif/Props/C20.lean'
DRAWS = [0, 1, 2, 7, 2 ** 31 + 5]
INFER_DRAWS = [0, 1, 5]
ASSUMPTIONS = [
    'objects are well-behaved containers (len / iteration / indexing / bool consistent); classes lying about their protocol are outside the model',
    'the object is not itself a type hint (statement of the property); callables are opaque: every hint inferred for a callable is '
    'Callable / Callable[...] and is checked by isinstance only',
    'third-party inference (numpy.ndarray) is not modelled',
    'the meaning of the inferred hint is Bear.sat (C01: sat => accepted by the generated code for every draw); which container logic the '
    'checker applies to factory[...] is taken from the Bear harness tables (harness/bear/model.py), validated by C01\'s code-level tie',
    'self-referential containers: modelled on a finite heap (addresses); the guard is a fuel-bounded traversal proved to finish within |heap|+1 nested calls',
    'O(1) inference (strategy=O1) is modelled and compared with the code, but the full-depth round trip is claimed (and holds) only for the '
    'default O(n) inference of infer_hint(obj): an O1 hint describes one sampled item per level by design',
]


# =============================================================================== user classes
class P:
    def __repr__(self):
        return 'P()'


class CallMe:
    def __call__(self, x: int) -> str:
        return ''


class Color(enum.Enum):
    RED = 1


class IE(enum.IntEnum):
    A = 1


class S(str):
    pass


class I(int):
    pass


class L(list):
    pass


class D(dict):
    pass


class C(collections.Counter):
    pass


class Tp(tuple):
    pass


class FS(frozenset):
    pass


NT = collections.namedtuple('NT', 'a b')


class USeq(A.Sequence):
    def __init__(self, xs=()):
        self._xs = list(xs)

    def __getitem__(self, i):
        return self._xs[i]

    def __len__(self):
        return len(self._xs)

    def __repr__(self):
        return f'{type(self).__name__}({self._xs!r})' if len(self._xs) < 6 else f'{type(self).__name__}(...)'


class UMSeq(A.MutableSequence):
    def __init__(self, xs=()):
        self._xs = list(xs)

    def __getitem__(self, i):
        return self._xs[i]

    def __setitem__(self, i, v):
        self._xs[i] = v

    def __delitem__(self, i):
        del self._xs[i]

    def insert(self, i, v):
        self._xs.insert(i, v)

    def __len__(self):
        return len(self._xs)

    def __repr__(self):
        return 'UMSeq(...)'


class UColl(A.Collection):
    def __init__(self, xs=()):
        self._xs = list(xs)

    def __contains__(self, x):
        return x in self._xs

    def __iter__(self):
        return iter(self._xs)

    def __len__(self):
        return len(self._xs)

    def __repr__(self):
        return f'UColl({self._xs!r})'


class USet(A.Set):
    """A.Set without an own __ne__: the FSM stops at Collection."""
    def __init__(self, xs=()):
        self._xs = list(dict.fromkeys(xs))

    def __contains__(self, x):
        return x in self._xs

    def __iter__(self):
        return iter(self._xs)

    def __len__(self):
        return len(self._xs)

    def __repr__(self):
        return f'{type(self).__name__}({self._xs!r})'


class USetNe(USet):
    """… with __ne__: the FSM reaches the Set node."""
    def __ne__(self, o):
        return not self == o

    __hash__ = None


class UMSet(A.MutableSet):
    def __init__(self, xs=()):
        self._xs = list(dict.fromkeys(xs))

    def __contains__(self, x):
        return x in self._xs

    def __iter__(self):
        return iter(self._xs)

    def __len__(self):
        return len(self._xs)

    def add(self, x):
        if x not in self._xs:
            self._xs.append(x)

    def discard(self, x):
        if x in self._xs:
            self._xs.remove(x)

    def __ne__(self, o):
        return not self == o

    __hash__ = None

    def __repr__(self):
        return f'UMSet({self._xs!r})'


class UMap(A.Mapping):
    """A.Mapping without an own __ne__: the FSM stops at Collection (keys are the items)."""
    def __init__(self, d=()):
        self._d = dict(d)

    def __getitem__(self, k):
        return self._d[k]

    def __iter__(self):
        return iter(self._d)

    def __len__(self):
        return len(self._d)

    def __repr__(self):
        return f'{type(self).__name__}({self._d!r})'


class UMapNe(UMap):
    def __ne__(self, o):
        return not self == o

    __hash__ = None


class UMMap(A.MutableMapping):
    def __init__(self, d=()):
        self._d = dict(d)

    def __getitem__(self, k):
        return self._d[k]

    def __setitem__(self, k, v):
        self._d[k] = v

    def __delitem__(self, k):
        del self._d[k]

    def __iter__(self):
        return iter(self._d)

    def __len__(self):
        return len(self._d)

    def __ne__(self, o):
        return not self == o

    __hash__ = None

    def __repr__(self):
        return f'UMMap({self._d!r})'


class DuckSeq:
    """Every Sequence method, not registered with the (nominal) Sequence ABC."""
    def __init__(self, xs=()):
        self._xs = list(xs)

    def __contains__(self, x):
        return x in self._xs

    def __iter__(self):
        return iter(self._xs)

    def __len__(self):
        return len(self._xs)

    def __getitem__(self, i):
        return self._xs[i]

    def __reversed__(self):
        return reversed(self._xs)

    def count(self, x):
        return self._xs.count(x)

    def index(self, x):
        return self._xs.index(x)

    def __repr__(self):
        return f'DuckSeq({self._xs!r})'


class DuckMap:
    def __init__(self, d=()):
        self._d = dict(d)

    def __contains__(self, k):
        return k in self._d

    def __iter__(self):
        return iter(self._d)

    def __len__(self):
        return len(self._d)

    def __getitem__(self, k):
        return self._d[k]

    def __eq__(self, o):
        return isinstance(o, DuckMap) and o._d == self._d

    def __ne__(self, o):
        return not self == o

    __hash__ = None

    def get(self, k, d=None):
        return self._d.get(k, d)

    def items(self):
        return self._d.items()

    def keys(self):
        return self._d.keys()

    def values(self):
        return self._d.values()

    def __repr__(self):
        return f'DuckMap({self._d!r})'


class OnlyIter:
    def __iter__(self):
        return iter([1])


class OnlySized:
    def __len__(self):
        return 3


class OnlyContainer:
    def __contains__(self, x):
        return True


# classes that define only SOME of the methods separating a protocol from the next narrower one (the protocol
# automaton must move only when EVERY required method is present)
class USeqAppend(USeq):
    def append(self, x):
        self._xs.append(x)


class USeqPop(USeq):
    def pop(self, i=-1):
        return self._xs.pop(i)

    def clear(self):
        self._xs.clear()


class USetAdd(USet):
    def add(self, x):
        pass


class UMapSetitem(UMap):
    def __setitem__(self, k, v):
        pass


class SizedContainer:
    def __contains__(self, x):
        return True

    def __len__(self):
        return 3


class IterClose:
    def __iter__(self):
        return self

    def __next__(self):
        raise StopIteration

    def close(self):
        pass


def f_plain(x, y):
    return x


def f_ann(x: int, y: 'str' = 's', *a: int, k: int = 0, **kw: str) -> 'list[int]':
    return []


def f_ann2(x: int, y: list[str]) -> None:
    return None


async def f_co():
    return None


def f_gen():
    yield 1


LEAVES = {
    'object': lambda: object(), 'P': lambda: P(), 'len': lambda: len, 'lambda': lambda: (lambda: 0), 'f_plain': lambda: f_plain,
    'f_ann': lambda: f_ann, 'f_ann2': lambda: f_ann2, 'f_co': lambda: f_co, 'f_gen': lambda: f_gen,
    'partial': lambda: functools.partial(f_plain, 1), 'callme': lambda: CallMe(), 'bound': lambda: CallMe().__call__,
    'list_append': lambda: [].append, 'str_upper': lambda: str.upper, 'int_add': lambda: int.__add__, 'one_add': lambda: (1).__add__,
    'staticmethod': lambda: staticmethod(f_plain), 'classmethod': lambda: classmethod(f_plain), 'property': lambda: property(),
    'int_cls': lambda: int, 'P_cls': lambda: P, 'type_cls': lambda: type, 'object_cls': lambda: object, 'seq_abc_cls': lambda: A.Sequence,
    'list_cls': lambda: list, 'none_cls': lambda: type(None), 'enum_cls': lambda: Color, 'useq_cls': lambda: USeq,
    'enum': lambda: Color.RED, 'intenum': lambda: IE.A, 'ellipsis': lambda: Ellipsis, 'notimpl': lambda: NotImplemented,
    'fraction': lambda: fractions.Fraction(1, 2), 'iter': lambda: iter([1, 2]), 'gen': lambda: (i for i in range(2)),
    'exc': lambda: ValueError('x'), 'S': lambda: S('ab'), 'S0': lambda: S(''), 'I': lambda: I(3), 'slice': lambda: slice(1, 2),
    'onlyiter': lambda: OnlyIter(), 'onlysized': lambda: OnlySized(), 'onlycontainer': lambda: OnlyContainer(),
    'sizedcontainer': lambda: SizedContainer(), 'iterclose': lambda: IterClose(),
    'module': lambda: types.ModuleType('m'), 'namespace': lambda: types.SimpleNamespace(a=1), 'zip': lambda: zip(),
    'complex': lambda: 1j, 'bytes': lambda: b'xy', 'bytes0': lambda: b'', 'bytearray': lambda: bytearray(b'ab'),
    'bytearray0': lambda: bytearray(), 'memoryview': lambda: memoryview(b'ab'), 'nt': lambda: NT(1, 'a'),
    'u0': lambda: bgen.U0(x=1), 'u1': lambda: bgen.U1(y='a'),
}
HASHABLE_LEAVES = ['P', 'len', 'f_plain', 'f_ann2', 'int_cls', 'P_cls', 'type_cls', 'object_cls', 'enum', 'intenum', 'ellipsis', 'fraction', 'S',
                   'I', 'complex', 'bytes', 'nt', 'callme', 'object', 'none_cls', 'list_cls', 'str_upper']
SEQ_KINDS = {'list': list, 'tuple': tuple, 'deque': collections.deque, 'L': L, 'Tp': Tp, 'useq': USeq, 'umseq': UMSeq, 'ucoll': UColl,
             'duckseq': DuckSeq, 'useq_bgen': bgen.UserSeq, 'useq_append': USeqAppend, 'useq_pop': USeqPop}
SET_KINDS = {'set': set, 'frozenset': frozenset, 'FS': FS, 'uset': USet, 'usetne': USetNe, 'umset': UMSet, 'uset_bgen': bgen.UserSet, 'uset_add': USetAdd}
MAP_KINDS = {'dict': dict, 'D': D, 'ordereddict': collections.OrderedDict, 'defaultdict': lambda d: collections.defaultdict(list, d),
             'chainmap': lambda d: collections.ChainMap({}, d), 'chainmap1': lambda d: collections.ChainMap(d),
             'counter': collections.Counter, 'C': C, 'umap': UMap, 'umapne': UMapNe, 'ummap': UMMap, 'duckmap': DuckMap, 'umap_setitem': UMapSetitem,
             'mappingproxy': lambda d: types.MappingProxyType(d), 'umap_bgen': bgen.UserMap}
VIEW_KINDS = {'keys': lambda d: d.keys(), 'values': lambda d: d.values(), 'items': lambda d: d.items(),
              'okeys': lambda d: collections.OrderedDict(d).keys(), 'ovalues': lambda d: collections.OrderedDict(d).values(),
              'oitems': lambda d: collections.OrderedDict(d).items()}
MUTABLE_FOR_BACKREF = ('list', 'deque', 'L', 'umseq', 'dict', 'D', 'ordereddict', 'defaultdict', 'ummap')


# =============================================================================== specs -> objects
def build(spec, stack=None):
    """spec -> object. `['back', k]` = the k-th enclosing mutable container (self-reference)."""
    stack = stack if stack is not None else []
    k = spec[0]
    if k == 'int':
        return int(spec[1])
    if k == 'bool':
        return bool(spec[1])
    if k == 'str':
        return spec[1]
    if k == 'float':
        return float(spec[1])
    if k == 'none':
        return None
    if k == 'leaf':
        return LEAVES[spec[1]]()
    if k == 'range':
        return range(spec[1])
    if k == 'back':
        return stack[-1 - spec[1]]
    if k in SEQ_KINDS or k in SET_KINDS:
        ctor = SEQ_KINDS.get(k) or SET_KINDS[k]
        if k in MUTABLE_FOR_BACKREF:
            box = ctor()
            stack.append(box)
            for c in spec[1]:
                box.append(build(c, stack))
            stack.pop()
            return box
        return ctor([build(c, stack) for c in spec[1]])
    if k in MAP_KINDS or k in VIEW_KINDS:
        if k in MUTABLE_FOR_BACKREF:
            box = MAP_KINDS[k]({}) if k == 'defaultdict' else MAP_KINDS[k]()
            stack.append(box)
            for a, b in spec[1]:
                box[build(a, stack)] = build(b, stack)
            stack.pop()
            return box
        d = {}
        for a, b in spec[1]:
            d[build(a, stack)] = build(b, stack)
        return (MAP_KINDS.get(k) or VIEW_KINDS[k])(d)
    raise AssertionError(spec)


def has_back(spec) -> bool:
    if spec[0] == 'back':
        return True
    if spec[0] in SEQ_KINDS or spec[0] in SET_KINDS:
        return any(has_back(c) for c in spec[1])
    if spec[0] in MAP_KINDS or spec[0] in VIEW_KINDS:
        return any(has_back(a) or has_back(b) for a, b in spec[1])
    return False


def children(spec) -> list:
    if spec[0] in SEQ_KINDS or spec[0] in SET_KINDS:
        return list(spec[1])
    if spec[0] in MAP_KINDS or spec[0] in VIEW_KINDS:
        return [x for ab in spec[1] for x in ab]
    return []


def shape(spec, depth=2) -> str:
    """Coarse identity of a (shrunk) failing object: container kinds, scalars collapsed to their number of distinct types."""
    k = spec[0]
    cs = children(spec)
    is_cont = k in SEQ_KINDS or k in SET_KINDS or k in MAP_KINDS or k in VIEW_KINDS
    if not is_cont:
        return spec[1] if k == 'leaf' else 'range' if k == 'range' else 'back' if k == 'back' else 'scalar'
    if not cs:
        return k + '[]'
    if depth == 0:
        return k + '[…]'
    inner = sorted({shape(c, depth - 1) for c in cs if shape(c, depth - 1) != 'scalar'})
    nsc = len({c[0] for c in cs if c[0] in ('int', 'bool', 'str', 'float', 'none')})
    return k + '[' + ','.join(([f'{nsc}-scalar-types'] if nsc else []) + inner) + ']'


class SpecGen:
    def __init__(self, rng: random.Random):
        self.rng = rng

    def scalar(self):
        r = self.rng
        return r.choice([['int', 0], ['int', 1], ['int', -3], ['bool', True], ['bool', False], ['str', 'a'], ['str', 'ab'], ['str', ''],
                         ['float', 2.5], ['none']])

    def hashable(self, depth):
        r = self.rng
        x = r.random()
        if depth <= 0 or x < 0.55:
            return self.scalar() if r.random() < 0.75 else ['leaf', r.choice(HASHABLE_LEAVES)]
        if x < 0.85:
            return ['tuple', [self.hashable(depth - 1) for _ in range(self.size())]]
        if x < 0.95:
            return ['frozenset', self.uniq([self.hashable(depth - 1) for _ in range(self.size())])]
        return ['range', r.choice([0, 1, 3])]

    def size(self):
        return self.rng.choice([0, 1, 1, 2, 2, 3, 5])

    def uniq(self, specs):
        out, seen = [], set()
        for s in specs:
            try:
                key = build(s)
                if key not in seen:
                    seen.add(key)
                    out.append(s)
            except TypeError:
                pass
        return out

    def any(self, depth, homog=None):
        """An arbitrary object spec of nesting <= depth."""
        r = self.rng
        x = r.random()
        if depth <= 0 or x < 0.30:
            if r.random() < 0.6:
                return self.scalar()
            return ['leaf', r.choice(list(LEAVES))]
        n = self.size()
        if r.random() < 0.04:
            n = r.choice([10, 11, 12])
        x = r.random()
        if x < 0.45:
            kind = r.choice(list(SEQ_KINDS))
            if r.random() < 0.35 and n:
                one = self.any(depth - 1)
                return [kind, [one for _ in range(n)]]                       # homogeneous
            return [kind, [self.any(depth - 1) for _ in range(n)]]
        if x < 0.60:
            return [r.choice(list(SET_KINDS)), self.uniq([self.hashable(depth - 1) for _ in range(n)])]
        if x < 0.63:
            return ['range', r.choice([0, 1, 2, 5])]
        kind = r.choice(list(MAP_KINDS) + list(VIEW_KINDS))
        keys = self.uniq([self.hashable(depth - 1) for _ in range(n)])
        if kind in ('counter', 'C') and r.random() < 0.8:
            vals = [['int', r.randrange(1, 4)] if r.random() < 0.9 else ['bool', True] for _ in keys]
        else:
            vals = [self.any(depth - 1) for _ in keys]
        return [kind, [[a, b] for a, b in zip(keys, vals)]]

    def recursive(self, depth):
        """A container that (transitively) contains itself."""
        r = self.rng
        kinds = [k for k in MUTABLE_FOR_BACKREF]

        def level(d, nback):
            kind = r.choice(kinds) if d == depth or r.random() < 0.7 else r.choice(['tuple', 'list', 'useq', 'dict', 'values', 'frozenset_no'])
            if kind == 'frozenset_no':
                kind = 'tuple'
            mutable = kind in MUTABLE_FOR_BACKREF
            nb = nback + (1 if mutable else 0)
            items = []
            for _ in range(r.choice([0, 1, 2, 3])):
                items.append(self.any(1) if r.random() < 0.7 else self.scalar())
            if d <= 0 or r.random() < 0.5:
                if nb:
                    items.append(['back', r.randrange(nb)])
            else:
                items.append(level(d - 1, nb))
            r.shuffle(items)
            if kind in MAP_KINDS or kind in VIEW_KINDS:
                return [kind, [[['int', i], it] for i, it in enumerate(items)]]
            return [kind, items]
        for _ in range(50):
            s = level(depth, 0)
            if has_back(s):
                return s
        return ['list', [['back', 0]]]


# =============================================================================== class table
def qual(c) -> str:
    return f'{c.__module__}.{c.__qualname__}'


_SLOT = frozenset(v for v in vars(object).values() if callable(v))


def methods_of(cls, vocab) -> list:
    """Names (within the FSM vocabulary) of callables bound to the class that are not object slot
    wrappers — the harness' own reading of `get_object_method_name_to_value`."""
    out = []
    for n in dir(cls):
        if n in vocab:
            try:
                v = inspect.getattr_static(cls, n)
            except AttributeError:
                continue
            if not callable(v):
                continue
            try:
                if v in _SLOT:
                    continue
            except Exception:
                pass
            out.append(n)
    return out


def logic_of(c) -> str:
    if c is tuple:
        return 'tuple'
    if c is collections.Counter:
        return 'counter'
    if c in bmodel.SEQ_ORIGINS:
        return 'seq'
    if c in bmodel.REIT_ORIGINS:
        return 'reit'
    if c in bmodel.QUASI_ORIGINS:
        return 'quasi'
    if c in bmodel.MAP_ORIGINS:
        return 'mapping'
    return 'shallow'


class Tables:
    def __init__(self):
        self.ext = ensure_fresh_tables()
        self.vocab = set(xinfer.vocabulary(self.ext['fsm']))
        self.reg = Registry()
        from beartype.bite._infermain import BeartypeInferHintContainerRecursion
        self.marker = BeartypeInferHintContainerRecursion
        for c in [A.Callable, A.Mapping, object, int, self.marker, A.Set, A.MutableSet, A.MutableSequence, A.MutableMapping,
                  A.Awaitable, A.Coroutine, A.AsyncIterable, A.AsyncIterator, A.AsyncGenerator, A.Buffer, A.Sized, A.Container,
                  type({}.items())]:
            self.reg.id(c)
        for f in xinfer.factories(self.ext['fsm']):
            if isinstance(f, type):
                self.reg.id(f)
        for k, v in self.ext['builtin_objs']:
            self.reg.id(k)
            if isinstance(v, type):
                self.reg.id(v)
        self._ws = None

    def close(self):
        """Register the MRO of every class (until nothing new appears)."""
        i = 0
        while i < len(self.reg.classes):
            for b in self.reg.classes[i].__mro__:
                self.reg.id(b)
            i += 1

    def sexps(self):
        self.close()
        reg = self.reg
        rows = [[qual(c), [reg.ids[b] for b in c.__mro__], methods_of(c, self.vocab),
                 'true' if hasattr(c, '__class_getitem__') else 'false'] for c in reg.classes]
        tab = [reg.id(A.Callable), reg.id(A.Mapping), reg.id(object), reg.id(int), reg.id(self.marker),
               [logic_of(c) for c in reg.classes], rows]
        return sexp(reg.world_sexp()), sexp(tab)


# =============================================================================== canonical hints
def canon_model(h, reg: Registry):
    """model hint (parsed s-expression) -> canonical tree: unions as sorted sets, callables merged"""
    k = h[0]
    if k == 'any':
        return ('any',)
    if k in ('cls', 'shallow'):
        if int(h[1]) == reg.id(A.Callable):
            return ('callable',)
        return (k, int(h[1]))
    if k == 'union':
        ms = sorted({canon_model(x, reg) for x in h[1:]}, key=repr)
        return ms[0] if len(ms) == 1 else ('union', tuple(ms))
    if k == 'tuple':
        return ('tuple', tuple(canon_model(x, reg) for x in h[1:]))
    if k in ('seq', 'reit', 'quasi'):
        return (k, int(h[1]), canon_model(h[2], reg))
    if k == 'map':
        return ('map', int(h[1]), canon_model(h[2], reg), canon_model(h[3], reg))
    if k == 'type':
        return ('type', tuple(int(c) for c in h[1:]))
    if k == 'ann':
        return ('ann', canon_model(h[1], reg), tuple(tuple(['inst'] + [int(c) for c in v[1:]]) for v in h[2:]))
    raise AssertionError(h)


def canon_real(h, reg: Registry):
    """real inferred hint -> the same canonical tree, from typing's public introspection"""
    if h is object or h is T.Any:
        return ('any',)
    if h is None:
        return ('cls', reg.id(type(None)))
    if h is A.Callable:
        return ('callable',)
    if isinstance(h, type) and not isinstance(h, types.GenericAlias):
        return ('cls', reg.id(h))
    origin, args = T.get_origin(h), T.get_args(h)
    if bmodel.is_union(h):
        ms = sorted({canon_real(a, reg) for a in args}, key=repr)
        return ms[0] if len(ms) == 1 else ('union', tuple(ms))
    if origin is T.Annotated:
        vs = []
        for m in h.__metadata__:
            r = repr(m)
            if not r.startswith('beartype.vale.IsInstance['):
                raise NotImplementedError(r)
            (cls,) = m._is_valid_code_locals.values()
            vs.append(tuple(['inst'] + [reg.id(c) for c in (cls if isinstance(cls, tuple) else (cls,))]))
        return ('ann', canon_real(h.__origin__, reg), tuple(vs))
    if origin is A.Callable:
        return ('callable',)
    if origin is tuple:
        if len(args) == 2 and args[1] is Ellipsis:
            return ('seq', reg.id(tuple), canon_real(args[0], reg))
        return ('tuple', tuple(canon_real(a, reg) for a in args))
    if origin is type:
        (a,) = args
        return ('type', (reg.id(a),))
    if isinstance(origin, type):
        lg = logic_of(origin)
        if lg in ('seq', 'reit', 'quasi') and len(args) == 1:
            return (lg, reg.id(origin), canon_real(args[0], reg))
        if lg == 'mapping' and len(args) == 2:
            return ('map', reg.id(origin), canon_real(args[0], reg), canon_real(args[1], reg))
        if lg == 'counter' and len(args) == 1:
            return ('map', reg.id(origin), canon_real(args[0], reg), ('cls', reg.id(int)))
        return ('shallow', reg.id(origin))
    raise NotImplementedError(repr(h))


def show(c, reg: Registry) -> str:
    """canonical tree -> readable text"""
    n = lambda i: reg.classes[i].__name__ if i < len(reg.classes) else f'#{i}'
    k = c[0]
    if k in ('any', 'callable'):
        return {'any': 'object', 'callable': 'Callable'}[k]
    if k == 'cls':
        return n(c[1])
    if k == 'shallow':
        return n(c[1]) + '[…]'
    if k == 'union':
        return ' | '.join(show(x, reg) for x in c[1])
    if k == 'tuple':
        return 'tuple[' + ', '.join(show(x, reg) for x in c[1]) + ']'
    if k in ('seq', 'reit', 'quasi'):
        return f'{n(c[1])}[{show(c[2], reg)}' + (', ...]' if c[1] == reg.id(tuple) else ']')
    if k == 'map':
        return f'{n(c[1])}[{show(c[2], reg)}, {show(c[3], reg)}]'
    if k == 'type':
        return 'type[' + ' | '.join(n(x) for x in c[1]) + ']'
    if k == 'ann':
        return f'Annotated[{show(c[1], reg)}, ' + ', '.join('IsInstance[' + ','.join(n(x) for x in v[1:]) + ']' for v in c[2]) + ']'
    return repr(c)


def nontrivial(c) -> bool:
    return c[0] in ('union', 'tuple', 'seq', 'reit', 'quasi', 'map', 'ann')


# =============================================================================== objects -> model objects
def is_mapping_like(x) -> bool:
    """Mappings, registered or duck-typed (the inferers ask `obj.items()` of whatever the FSM calls a Mapping)."""
    return isinstance(x, A.Mapping) or (isinstance(x, A.Collection) and not isinstance(x, (str, bytes, bytearray)) and
                                        all(callable(getattr(type(x), n, None)) for n in ('keys', 'items', '__getitem__')))


def obj_model(x, reg: Registry, depth: int = 0):
    """Real (non-recursive) object -> model object: class number, atom, items in iteration order
    (keys for mappings), parallel values. Same conventions as harness/bear/model.py::obj_model
    (a str subclass is a collection of 1-character strs; plain scalars carry no items)."""
    c = reg.id(type(x))
    items, vals = [], []
    if depth < 14:
        if isinstance(x, (str, bytes)):
            if type(x) not in (str, bytes):
                items = [obj_model(ch, reg, depth + 1) for ch in x]
        elif is_mapping_like(x):
            ks = list(x.keys())
            items = [obj_model(k, reg, depth + 1) for k in ks]
            vals = [obj_model(x[k], reg, depth + 1) for k in ks]
        elif isinstance(x, A.Collection):
            items = [obj_model(y, reg, depth + 1) for y in x]
    return ['obj', c, bmodel.atom_of(x, reg), items, vals, []]


# =============================================================================== heap encoding of (recursive) objects
def heap_of(x, reg: Registry):
    """Object graph -> ([(cls, atom, item addresses, value addresses)], root address); containers by identity."""
    nodes, addr, keep = [], {}, []

    def enc(o):
        keep.append(o)        # temporaries (view items) must stay alive: addresses are ids
        is_cont = isinstance(o, A.Collection) and not isinstance(o, (str, bytes, bytearray, memoryview, range))
        if is_cont and id(o) in addr:
            return addr[id(o)]
        a = len(nodes)
        nodes.append(None)
        if is_cont:
            addr[id(o)] = a
        items, vals = [], []
        if is_mapping_like(o):
            ks = list(o.keys())
            items = [enc(k) for k in ks]
            vals = [enc(o[k]) for k in ks]
        elif is_cont:
            items = [enc(y) for y in o]
        elif isinstance(o, (range, bytearray, memoryview)) or (isinstance(o, str) and type(o) is not str):
            items = [enc(y) for y in o]
        nodes[a] = [reg.id(type(o)), bmodel.atom_of(o, reg), items, vals]
        return a
    root = enc(x)
    return nodes, root


# =============================================================================== the real code
class Timeout(Exception):
    pass


def _alarm(signum, frame):
    raise Timeout()


def with_timeout(f, seconds=10):
    old = signal.signal(signal.SIGALRM, _alarm)
    signal.setitimer(signal.ITIMER_REAL, seconds)
    try:
        return f()
    finally:
        signal.setitimer(signal.ITIMER_REAL, 0)
        signal.signal(signal.SIGALRM, old)


_CONFS = {}


def confs():
    if not _CONFS:
        from beartype import BeartypeConf, BeartypeStrategy
        _CONFS.update(default=BeartypeConf(), On=BeartypeConf(strategy=BeartypeStrategy.On), nonrandom=BeartypeConf(is_random=False),
                      O1=BeartypeConf(strategy=BeartypeStrategy.O1))
    return _CONFS


def real_infer(obj, strat):
    """-> ('ok', hint, n_recursion_warnings, other_warnings) | ('exc', class name, message) | ('timeout',)"""
    from beartype.bite.collection import infercollectionitems as IT
    from beartype.door import infer_hint
    from beartype.roar import BeartypeDoorInferHintRecursionWarning
    if strat == 'on':
        conf = None
    else:
        conf = confs()['O1']
        IT.get_integer_pseudorandom_signed_32bit = lambda r=int(strat[1]): r
    try:
        with warnings.catch_warnings(record=True) as w:
            warnings.simplefilter('always')
            try:
                h = with_timeout(lambda: infer_hint(obj) if conf is None else infer_hint(obj, conf=conf))
            except Timeout:
                return ('timeout',)
            except RecursionError as e:
                return ('exc', 'RecursionError', 'maximum recursion depth exceeded: inference did not terminate')
            except Exception as e:
                return ('exc', type(e).__name__, str(e)[:200])
        rec = sum(1 for x in w if issubclass(x.category, BeartypeDoorInferHintRecursionWarning))
        return ('ok', h, rec, sorted({x.category.__name__ for x in w if not issubclass(x.category, BeartypeDoorInferHintRecursionWarning)}))
    finally:
        warnings.simplefilter('ignore')


def real_accepts(obj, hint) -> dict:
    """is_bearable(obj, hint) under every forced draw and configuration -> {(conf, draw): True | False | 'exc:…'}"""
    from beartype.door import is_bearable
    out = {}
    for cn in ('default', 'On', 'nonrandom'):
        for d in (DRAWS if cn != 'nonrandom' else DRAWS[:1]):
            breal.DRAW[0] = d
            try:
                out[f'{cn}/{d}'] = with_timeout(lambda: is_bearable(obj, hint, conf=confs()[cn]))
            except Timeout:
                out[f'{cn}/{d}'] = 'exc:Timeout'
            except Exception as e:
                out[f'{cn}/{d}'] = 'exc:' + type(e).__name__
    return out


def is_hint(obj) -> bool:
    from beartype._util.hint.pep.utilpeptest import is_hint_pep
    try:
        return bool(is_hint_pep(obj)) and not isinstance(obj, str) and obj is not None
    except Exception:
        return False


# =============================================================================== failure keys
NOMINAL = (A.Sequence, A.MutableSequence, A.Mapping, A.MutableMapping, A.Set, A.MutableSet)


def abc_mismatch(obj):
    """(factory, how) when the class of `obj` reaches the collections.abc inferer and the protocol the
    real FSM returns is not a superclass of the class; None otherwise."""
    from beartype._data.py.databuiltins import BUILTIN_TYPES_SCALAR
    from beartype.bite.collection.infercollectionbuiltin import _infer_hint_factory_collection_builtin
    from beartype.bite.collection.infercollectionsabc import _infer_hint_factory_collections_abc
    cls = obj.__class__
    if isinstance(obj, type) or callable(obj) or cls in BUILTIN_TYPES_SCALAR:
        return None
    try:
        if _infer_hint_factory_collection_builtin(cls):
            return None
        f = _infer_hint_factory_collections_abc(cls)
    except Exception:
        return None
    if f is None or not isinstance(f, type):
        return None
    try:
        if issubclass(cls, f):
            return None
    except TypeError:
        pass
    if f in NOMINAL:
        # the class itself (its MRO, not its metaclass) defines every method the ABC has: a genuine look-alike
        need = {n for n in dir(f) if callable(getattr(f, n, None)) and (not n.startswith('_') or n.startswith('__') and n.endswith('__'))
                and n not in vars(object) and n not in ('__class_getitem__', '__subclasshook__', '__init_subclass__', '__abstractmethods__')}
        have = {n for k in cls.__mro__ for n in vars(k)}
        how = 'duck-typed-nominal-abc' if need <= have else 'partial-protocol'
    elif any(n in vars(type(cls)) or any(n in vars(m) for m in type(cls).__mro__ if m is not type and m is not object)
             for n in ('__iter__', '__len__', '__contains__')) and f.__module__ == 'collections.abc':
        how = 'methods-on-metaclass'
    else:
        how = 'not-a-protocol'
    return f, how


def classify(spec, obj, res, acc) -> str:
    """Canonical key of a (shrunk) failing case."""
    if res[0] == 'timeout':
        return 'C20:infer-does-not-terminate:' + shape(spec, 1)
    if res[0] == 'exc':
        if res[1] == 'RecursionError':
            return 'C20:infer-does-not-terminate:' + ('recursive-container' if has_back(spec) else shape(spec, 1))
        return f'C20:infer-raises:{res[1]}:{qual(type(obj))}'
    if has_back(spec):
        return 'C20:recursive-container:placeholder-rejects-container'
    mm = abc_mismatch(obj)
    if mm:
        f, how = mm
        if how in ('duck-typed-nominal-abc', 'methods-on-metaclass'):
            return f'C20:abc-protocol-not-superclass:{how}'
        return f'C20:abc-protocol-not-superclass:{how}:{qual(f)}'
    if isinstance(obj, collections.Counter) and type(obj) is collections.Counter and \
            any(not isinstance(v, int) for v in obj.values()):
        return 'C20:counter-non-int-values'
    excs = sorted({v for v in acc.values() if isinstance(v, str)})
    if excs:
        return f'C20:is-bearable-raises:{excs[0][4:]}:{shape(spec, 1)}'
    return 'C20:rejects:' + shape(spec, 2)


def evaluate(spec, strat='on'):
    """(obj, res, acc, failed) of one spec on the real code."""
    obj = build(spec)
    res = real_infer(obj, strat)
    acc = {}
    failed = res[0] != 'ok'
    if res[0] == 'ok':
        acc = real_accepts(obj, res[1])
        failed = any(v is not True for v in acc.values())
    return obj, res, acc, failed


def descend(spec):
    """Smallest sub-object that still fails on its own (On inference); sub-objects holding a
    back-reference to an enclosing container cannot stand alone and are not entered."""
    cur = spec
    while True:
        for c in children(cur):
            if has_back(c):
                continue
            try:
                if evaluate(c)[3]:
                    cur = c
                    break
            except Exception:
                pass
        else:
            break
    return cur


def shrink(spec):
    """Smallest sub-object / smallest item list that still fails on the real code (On inference)."""
    cur = spec
    for _ in range(200):
        progressed = False
        d = descend(cur)
        if d is not cur:
            cur = d
            continue
        cs = cur[1] if isinstance(cur[1], list) and (cur[0] in SEQ_KINDS or cur[0] in SET_KINDS or cur[0] in MAP_KINDS or cur[0] in VIEW_KINDS) else None
        if cs:
            for i in range(len(cs)):
                cand = [cur[0], cs[:i] + cs[i + 1:]]
                if has_back(cur) and not has_back(cand):
                    continue
                try:
                    if evaluate(cand)[3]:
                        cur, progressed = cand, True
                        break
                except Exception:
                    pass
            if progressed:
                continue
            pair = cur[0] in MAP_KINDS or cur[0] in VIEW_KINDS
            for i, c in enumerate(cs):                      # replace an item by a scalar
                tgt = c[1] if pair else c
                if tgt[0] == 'back' or has_back(tgt):
                    continue
                for sc in (['int', 1], ['str', 'a']):
                    if tgt == sc or (tgt[0] in ('int', 'str') and sc[0] != 'int'):
                        continue
                    new = [c[0], sc] if pair else sc
                    cand = [cur[0], cs[:i] + [new] + cs[i + 1:]]
                    try:
                        if evaluate(cand)[3]:
                            cur, progressed = cand, True
                            break
                    except Exception:
                        pass
                if progressed:
                    break
            if progressed:
                continue
            simple = 'list' if cur[0] in SEQ_KINDS else 'set' if cur[0] in SET_KINDS else 'dict' if cur[0] in MAP_KINDS else None
            if simple and simple != cur[0]:                 # is the container kind essential?
                cand = [simple, cs]
                try:
                    if evaluate(cand)[3]:
                        cur, progressed = cand, True
                except Exception:
                    pass
        if not progressed:
            break
    return cur


# =============================================================================== exploration
def model_batch(tabs: Tables, cases: list) -> list:
    """cases = [('tree'|'heap', strat, payload)] -> parsed driver results"""
    ws, ts = tabs.sexps()
    out = []
    CH = 150
    lines = []
    for i in range(0, len(cases), CH):
        lines.append(f'(c20 run {ws} {ts} (' + ' '.join(cases[i:i + CH]) + '))')
    lines.append(f'(c20 wf {ws} {ts})')
    res = lean_driver(lines, 'C20')
    for line in res[:-1]:
        v = parse_sexp(line)
        assert v[0] == 'ok', line[:300]
        out.extend(v[1])
    wf = parse_sexp(res[-1])
    assert wf[0] == 'ok', res[-1][:300]
    return out, wf[1]


def strat_sx(strat):
    return 'on' if strat == 'on' else ['o1', str(strat[1])]


def fixed_specs() -> list:
    """Shapes every run covers (the hand-reproduced defects of DESIGN §10 and the edge cases of the code)."""
    i, s = (lambda n: ['int', n]), (lambda x: ['str', x])
    out = [
        ['items', [[i(1), i(2)]]], ['items', []], ['oitems', [[i(1), i(2)]]], ['okeys', [[i(1), i(2)]]], ['ovalues', [[i(1), i(2)]]],
        ['counter', [[s('a'), s('x')]]], ['counter', [[s('a'), ['float', 1.5]]]], ['counter', [[s('a'), i(1)], [i(2), i(3)]]],
        ['counter', [[s('a'), ['bool', True]]]], ['counter', []], ['C', [[s('a'), i(1)]]],
        ['list', [['back', 0]]], ['list', [i(1), ['back', 0]]], ['dict', [[i(1), ['back', 0]]]], ['list', [['tuple', [['back', 0]]]]],
        ['tuple', [['list', [i(1), ['back', 0]]]]], ['deque', [['back', 0]]], ['umseq', [['back', 0]]], ['list', [['list', [i(1), ['back', 1]]]]],
        ['dict', [[i(1), ['values', [[i(2), ['back', 0]]]]]]], ['counter', [[s('a'), ['list', [['back', 0]]]]]],
        ['list', [i(1), s('a'), ['none'], ['list', [['float', 2.0]]]]], ['dict', [[i(1), s('a')], [s('b'), i(2)]]], ['tuple', []],
        ['tuple', [i(1)] * 10], ['tuple', [i(1)] * 11], ['tuple', [i(1), s('a')]], ['list', [['tuple', [i(1), s('a')]], ['tuple', [i(2)]]]],
        ['tuple', [['tuple', []]]], ['list', [['list', []], ['list', [i(1)]]]], ['keys', []], ['values', [[i(1), i(2)]]],
        ['range', 0], ['range', 3], ['deque', [i(1)]], ['frozenset', [i(1), s('a')]], ['chainmap', [[i(1), i(2)]]], ['chainmap', []],
        ['defaultdict', [[i(1), ['list', [i(2)]]]]], ['ordereddict', [[s('a'), i(1)]]], ['list', [['leaf', 'object']]],
        ['list', [['leaf', 'object'], ['leaf', 'object']]], ['list', [['leaf', 'object'], i(1)]], ['dict', [[['leaf', 'object'], i(1)]]],
        ['dict', [[i(1), ['leaf', 'object']]]], ['list', [['bool', True], i(1)]], ['list', [['float', 1.0], i(1)]], ['list', [i(1), i(1)]],
        ['useq', [i(1), s('a')]], ['useq', []], ['umseq', [i(1)]], ['ucoll', [i(1)]], ['uset', [i(1)]], ['usetne', [i(1), s('a')]], ['usetne', []],
        ['umset', [i(1)]], ['umap', [[i(1), s('a')]]], ['umapne', [[i(1), s('a')]]], ['umapne', []], ['ummap', [[i(1), s('a')]]],
        ['duckseq', [i(1)]], ['duckseq', []], ['duckmap', [[i(1), s('a')]]], ['mappingproxy', [[i(1), i(2)]]],
        ['L', [i(1)]], ['L', []], ['D', [[i(1), i(2)]]], ['Tp', [i(1), s('a')]], ['FS', [i(1)]], ['list', [['list', [i(1)]], ['list', [i(1)]]]],
        ['dict', [[['tuple', [i(1), i(2)]], i(3)]]], ['list', [['dict', [[i(1), ['list', [i(2)]]]]], ['dict', [[s('a'), ['tuple', [i(3)]]]]]]],
    ] + [['leaf', n] for n in LEAVES] + [['list', [['leaf', n]]] for n in ('enum', 'len', 'f_ann2', 'int_cls', 'gen', 'S', 'P', 'str_upper')]
    # collections that are EQUAL (and hash-equal) although their item TYPES differ, one after the other and side by side:
    # the hint of one is not the hint of the other
    f = lambda x: ['float', x]  # noqa: E731
    out += [['tuple', [i(1), i(2)]], ['tuple', [f(1.0), f(2.0)]], ['frozenset', [i(3)]], ['frozenset', [f(3.0)]],
            ['tuple', [['tuple', [i(0), s('a')]], ['tuple', [f(0.0), s('a')]]]], ['list', [['frozenset', [i(3)]], ['frozenset', [f(3.0)]]]],
            ['list', [['tuple', [i(1)]], ['tuple', [f(1.0)]]]], ['tuple', [f(1.0), f(2.0)]], ['tuple', [i(1), i(2)]]]
    return out


def explore(ck: Check, n: int, seed: int, depth: int = 3) -> Explore:
    breal.install_draw_control()
    tabs = Tables()
    reg = tabs.reg
    rng = random.Random(seed)
    sg = SpecGen(rng)
    ex = Explore(rule='objects generated as specs: scalars, None, classes, callables (functions, builtins, bound methods, partials, '
                      'method descriptors), opaque instances, enum members, iterators/generators, builtin containers and subclasses '
                      '(list tuple set frozenset deque dict defaultdict OrderedDict ChainMap Counter namedtuple, user subclasses), '
                      'dict/OrderedDict views, ranges, bytearray/memoryview, user Sequence/MutableSequence/Collection/Set/MutableSet/'
                      'Mapping/MutableMapping implementations (with and without own __ne__), duck-typed look-alikes, of any nesting and mix, '
                      'empty / homogeneous / heterogeneous, tuples around the 10-item bound, self-referential containers (direct, through '
                      'tuples / views / nested containers). non-trivial = the model hint has a container level, a union or an Annotated; '
                      'distinct = distinct canonical inferred hints')
    specs = fixed_specs() + [sg.any(rng.choice([1, 2, 2, depth, depth])) for _ in range(n)] + \
        [sg.recursive(rng.choice([0, 1, 2])) for _ in range(max(20, n // 12))]
    # ---------------------------------------------------------------- real side (and registration of every class met)
    rows = []          # (spec, strat, obj, res, acc)
    skipped_hints = 0
    for sp in specs:
        try:
            obj = build(sp)
        except Exception as e:       # unhashable key chosen by the generator etc.
            continue
        if is_hint(obj):
            skipped_hints += 1
            continue
        strats = ['on'] + ([('o1', rng.choice(INFER_DRAWS))] if children(sp) and rng.random() < 0.5 else [])
        for st in strats:
            o = build(sp)
            res = real_infer(o, st)
            acc = real_accepts(o, res[1]) if (res[0] == 'ok' and st == 'on') else {}
            rows.append((sp, st, o, res, acc))
    # ---------------------------------------------------------------- model side
    cases = []
    for sp, st, o, res, acc in rows:
        if has_back(sp):
            nodes, root = heap_of(o, reg)
            cases.append(sexp(['heap', strat_sx(st), nodes, root, 4]))
        else:
            cases.append(sexp(['tree', strat_sx(st), obj_model(o, reg)]))
    tabs.close()
    # canonical real hints may register classes too: do it before the world is printed
    creal = []
    for sp, st, o, res, acc in rows:
        if res[0] == 'ok':
            try:
                creal.append(canon_real(res[1], reg))
            except (NotImplementedError, Exception) as e:
                creal.append(('untranslatable', repr(res[1])[:200], type(e).__name__))
        else:
            creal.append(None)
    models, wf = model_batch(tabs, cases)
    if wf != ['true', 'true', 'true']:
        ex.corr_diffs.append({'where': 'hypotheses of C20_roundtrip on the class table of this run (builtin factory is a superclass, '
                                       'tuple logic only for tuple, World.Wf)', 'driver': wf})
    seen_keys, distinct, kinds = set(), set(), {}
    lucky = 0
    state = {'shrink_time': 0.0}
    seen_pre = set()
    on_failed = set()
    def report(sp, st, o, res, acc, rec, mh):
        t0 = time.time()
        pre = descend(sp) if st == 'on' else sp
        po, pres, pacc, pfailed = evaluate(pre, st)
        pre_key = classify(pre, po, pres, pacc) if pfailed else repr(sp)
        if pre_key in seen_pre:
            state['shrink_time'] += time.time() - t0
            return
        seen_pre.add(pre_key)
        ssp = shrink(pre) if st == 'on' else sp
        state['shrink_time'] += time.time() - t0
        so, sres, sacc, sfailed = evaluate(ssp, st)
        if not sfailed and not (rec and sres[0] == 'ok' and sres[2] == 0):
            ssp, so, sres, sacc = sp, o, res, acc
        if has_back(ssp) and sres[0] == 'ok' and sres[2] == 0:
            key = 'C20:recursive-container:no-warning'
        else:
            key = classify(ssp, so, sres, sacc)
        if key not in seen_keys:
            seen_keys.add(key)
            bad = {k: v for k, v in sacc.items() if v is not True}
            what = (f'infer_hint({so!r:.80}) ' + (
                f'-> {sres[1]!r:.160}; is_bearable(obj, hint) is not True under (conf/draw) {dict(list(bad.items())[:4])}'
                if sres[0] == 'ok' and bad else
                f'-> {sres[1]!r:.160} with {sres[2]} recursion warning(s)' if sres[0] == 'ok' else
                f'raises {sres[1]}: {sres[2]}' if sres[0] == 'exc' else 'does not terminate (timeout)'))
            ex.failures.append(Failure(key=key, what=what, replay={
                'spec': ssp, 'strategy': st if st == 'on' else list(st), 'object': repr(so)[:300],
                'real_hint': repr(sres[1])[:400] if sres[0] == 'ok' else None, 'real_result': [str(x)[:200] for x in sres[:1] + sres[2:]] if sres[0] != 'ok' else 'ok',
                'not_accepted_under': bad, 'model_hint_of_unshrunk': show(mh, reg), 'unshrunk_spec': sp}))

    outcome = {'accepted': 0, 'rejected': 0, 'infer-raised': 0, 'recursive': 0, 'O1': 0}
    for (sp, st, o, res, acc), m, cr in zip(rows, models, creal):
        ex.evaluations += 1
        kinds[sp[0]] = kinds.get(sp[0], 0) + 1
        rec = has_back(sp)
        outcome['recursive'] += rec
        outcome['O1'] += st != 'on'
        if m in ('bad-case', 'out-of-fuel'):
            ex.corr_diffs.append({'spec': sp, 'where': f'model driver: {m}'})
            continue
        mh = canon_model(m[0], reg)
        if rec:
            mwarn, msat, minf = int(m[1]), m[2] == 'true', False
        else:
            minf, msat, mwarn = m[1] == 'true', m[2] == 'true', int(m[3])
        if nontrivial(mh):
            distinct.add(mh)
        # ---- the property on the real outputs (On inference only: the statement is about infer_hint(obj))
        failed = res[0] != 'ok' or (st == 'on' and any(v is not True for v in acc.values()))
        if res[0] != 'ok':
            outcome['infer-raised'] += 1
        elif st == 'on':
            outcome['rejected' if failed else 'accepted'] += 1
        if rec and st == 'on' and res[0] == 'ok' and res[2] == 0:
            failed = True
        if failed and st == 'on':
            on_failed.add(repr(sp))
        if failed and st != 'on' and repr(sp) in on_failed:
            failed = False              # the same object already failed under the default strategy (reported there, shrunk)
        if failed and len(seen_keys) < 14 and state['shrink_time'] < 45:
            report(sp, st, o, res, acc, rec, mh)
        # ---- correspondence model <-> code
        if res[0] == 'ok':
            ex.traces_validated += 1
            if cr != mh:
                ex.corr_diffs.append({'spec': sp, 'strategy': st, 'where': 'inferred hint', 'real': repr(res[1])[:300],
                                      'real_canonical': show(cr, reg) if cr and cr[0] != 'untranslatable' else cr, 'model': show(mh, reg)})
            if res[2] != mwarn:
                ex.corr_diffs.append({'spec': sp, 'strategy': st, 'where': 'number of recursion warnings', 'real': res[2], 'model': mwarn})
            if st == 'on' and not rec:
                ok_all = all(v is True for v in acc.values())
                if minf and not msat:
                    ex.corr_diffs.append({'spec': sp, 'where': 'model: Inferable object whose inferred hint it does not satisfy (theorem C20_roundtrip contradicted by the driver)'})
                if msat and not ok_all and cr == mh:
                    ex.corr_diffs.append({'spec': sp, 'where': 'model says the object satisfies the inferred hint, the real checker rejects it',
                                          'real': repr(res[1])[:300], 'not_accepted_under': {k: v for k, v in acc.items() if v is not True}})
                if not msat and ok_all:
                    lucky += 1          # the sampled check looked elsewhere: not a disagreement
        elif not rec and res[0] == 'exc':
            pass    # already a failure of the property (infer_hint raised); nothing to compare
    ex.distinct_nontrivial = len(distinct)
    ex.extra['outcomes'] = outcome
    ex.extra['hint_unsatisfied_at_depth_but_accepted_by_the_sampled_check'] = lucky
    ex.extra['container_kinds_at_root'] = dict(sorted(kinds.items(), key=lambda kv: -kv[1])[:40])
    ex.extra['classes_in_world'] = len(reg.classes)
    ex.extra['objects_skipped_because_they_are_hints'] = skipped_hints
    ex.extra['extracted_tables'] = {'fsm_factories': [qual(f) for f in xinfer.factories(tabs.ext['fsm'])], 'builtin': tabs.ext['builtin'],
                                   'scalars': tabs.ext['scalars'], 'root_tuple_max': tabs.ext['tuple_max']}
    ex.samples = [{'object': repr(o)[:120], 'real_hint': repr(res[1])[:160], 'model_hint': show(canon_model(m[0], reg), reg)}
                  for (sp, st, o, res, acc), m in list(zip(rows, models))[130:330:40] if res[0] == 'ok' and m not in ('bad-case', 'out-of-fuel')]
    return ex


def ensure_fresh_tables() -> dict:
    """Re-extract the tables and make sure the COMPILED Lean model was built from exactly them.
    lake decides by the hash of the source it read BEFORE compiling; when two checks against different
    beartype copies once rewrote Extracted/Infer.lean concurrently, the trace recorded one content and the
    olean held the other, and lake kept replaying that artifact. The driver therefore reports the
    fingerprint compiled into the model; on a mismatch the artifacts of Extracted.Infer are removed and
    rebuilt (dependants follow), and a second mismatch is an error."""
    from .. import common
    t = xinfer.extract()
    for attempt in (0, 1):
        common._DRIVER_BUILT.pop('C20', None)
        got = parse_sexp(lean_driver(['(c20 tables)'], 'C20')[0])
        if got == ['ok', t['fingerprint']]:
            return t
        for ext in ('olean', 'ilean', 'trace', 'olean.hash', 'ilean.hash'):
            f = LEAN / '.lake/build/lib/lean/BearVerif/Extracted' / f'Infer.{ext}'
            if f.exists():
                f.unlink()
        for f in (LEAN / '.lake/build/ir/BearVerif/Extracted').glob('Infer.*'):
            f.unlink()
    raise RuntimeError(f'compiled Extracted/Infer.lean reports tables {got}, extracted {t["fingerprint"]}')


def replay(data: dict) -> int:
    breal.install_draw_control()
    spec = data['spec']
    st = data.get('strategy', 'on')
    st = 'on' if st == 'on' else tuple(st)
    obj = build(spec)
    print('object :', repr(obj)[:300], ' (spec', spec, ')')
    res = real_infer(obj, st)
    if res[0] != 'ok':
        print('infer_hint:', 'does not terminate' if res[0] == 'timeout' else f'raises {res[1]}: {res[2]}')
        print('expected: a type hint that the object satisfies')
        return 1
    print('infer_hint ->', repr(res[1])[:400], f'  [{res[2]} recursion warning(s)]')
    acc = real_accepts(obj, res[1])
    bad = {k: v for k, v in acc.items() if v is not True}
    print('is_bearable(obj, infer_hint(obj)) per (configuration/forced draw):', acc)
    if has_back(spec) and res[2] == 0:
        print('expected: a recursion warning for a self-referential container')
        return 1
    if bad:
        print('expected: True under every draw and configuration; not accepted under', bad)
        return 1
    print('replay: accepted under every draw (not reproduced)')
    return 0


def main(ck: Check) -> int:
    quick = ck.tier == 'quick'
    ensure_fresh_tables()
    proof = ck.prove(MODULE, PROP_FILE)
    ex = explore(ck, n=1500 if quick else 25000, seed=ck.seed, depth=3 if quick else 4)
    ck.decide(proof, ex, deep_search=lambda: explore(ck, n=3000, seed=ck.seed + 101, depth=4))
    ck.evidence(proof, ex,
                level_note='Lean proof by induction on the object (sat of the hint inferred under the default O(n) strategy; accepted for every '
                           'draw via C01_sat_imp_chk; termination of the id-set guard on every finite heap); model tied to /repo by extracted '
                           'tables + differential of infer_hint against the model + the round trip evaluated on the real outputs under forced draws. '
                           'Partial: classes whose method-name FSM protocol is not a superclass (duck-typed look-alikes, enum members) and '
                           'self-referential containers are excluded from Inferable (known findings, witnesses C20_abc_mismatch_counterexample*, '
                           'C20_roundtrip_recursive_counterexample)',
                assumptions=ASSUMPTIONS)
    return ck.finish()
