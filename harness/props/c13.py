"""C13 — decorating a class equals decorating its methods; no-op cases are identities (DESIGN §4 C13).

Proof: `Props/C13.lean` over the executable model `Core/Decor.lean` (mirror of beartype_type /
beartype_object / beartype_nontype / the builtin-descriptor decorators / beartype_func /
is_func_unbeartypeable / make_func) and its declarative specification.

Tie, on every run: generated classes (exec of generated source: plain functions, classmethods,
staticmethods, properties with setter/deleter, nested classes 1–3 levels, classes referenced but not
defined in the body incl. adversarial names, inherited members, dataclasses, annotated / unannotated /
ignorable-only / @no_type_check / already @beartype-decorated members, members whose hints make
@beartype RAISE at decoration time (a parameter annotated `NoReturn`; in every member kind), already
decorated classes; configurations incl. `warning_cls_on_decorator_exception`) are
  * reified (introspection of the REAL objects) into the model's syntax, decorated for real
    (`beartype(conf=…)(cls)`, twice) and by the model through the line protocol; the resulting object
    graphs are compared node for node (kinds, names, docs, signatures, markers, `__wrapped__`, which
    objects are the same / new, class markers) — correspondence;
  * decorated a second way on an identical twin (by hand: `beartype` applied to FUNCTION objects only,
    descriptors rebuilt by hand, recursion only into classes the body defines) and compared on verdict
    vectors of calls with good and bad arguments (instance call, class call, property get/set/delete);
  * checked against the property's clauses directly (oracle, from the generator's spec alone).
A decoration that raises is part of the property: both routes must raise the same exception at the same
member and leave the same half-decorated class (members before it wrapped, the rest untouched, class not
marked); under the warning option the FUNCTION that cannot be decorated (a plain method, the wrappee of a
classmethod / staticmethod, one accessor of a property) is left as it was with ONE warning naming it and every
other function is decorated as if it were absent — on both routes.
`python -O` cases run in a fresh `-O` interpreter (harness.impl.c13_run).
"""
from __future__ import annotations

import copy
import inspect
import json
import random
import sys
import types
import warnings

from ..common import (LEAN, Check, Explore, Failure, lean_driver, parse_sexp, sexp, subproc_json)
from ..impl import c13_run as R

MODULE = 'BearVerif.Props.C13'
PROP_FILE = LEAN / 'BearVerif/Props/C13.lean'
CONFS = ['def', 'o0', 'on', 'nocolor', 'warn']


class InvalidCase(Exception):
    pass


# ---------------------------------------------------------------------------
# generator
# ---------------------------------------------------------------------------
BADP = [0.0]      # probability that a generated function carries a hint rejected at decoration time (set per case)


def gen_fn(rng: random.Random, needs_ret: bool = False) -> dict:
    ann = rng.choices(['chk', 'none', 'ign'], [6, 2, 1])[0]
    ret = rng.choice([None, 'ok', 'ok', 'bad'])
    if needs_ret and ann == 'chk' and ret is None:
        ret = 'ok'
    fn = {'ann': ann, 'hint': rng.choice(list(R.HINTS)), 'ret': ret, 'ntc': rng.random() < 0.12,
          'pre': rng.random() < 0.15, 'doc': rng.choice([None, 'doc of it', 'D']), 'deco': rng.random() < 0.15}
    if rng.random() < BADP[0]:
        fn['ann'] = 'bad'
        fn['pre'] = False                 # `@beartype` in the source (default configuration) would raise while building
    return fn


def sanitize(c: dict, under_pre: bool = False):
    """A class decorated in the SOURCE (`pre`, default configuration) must build: no rejected hints inside."""
    under_pre = under_pre or bool(c.get('pre'))
    for m in c['members']:
        if m['kind'] == 'class':
            sanitize(m['body'], under_pre)
        elif under_pre:
            for _r, fn in R.member_fns(m):
                if fn['ann'] == 'bad':
                    fn['ann'], fn['ret'] = 'chk', fn['ret'] or 'ok'      # (a getter / deleter is annotated through its return)


def gen_cls(rng: random.Random, name: str, depth: int, maxdepth: int, targets: list[str], has_base: bool) -> dict:
    c = {'name': name, 'base': 'Base' if (has_base and depth == 0 and rng.random() < 0.45) else None,
         'dataclass': rng.random() < 0.15, 'pre': rng.random() < (0.06 if depth == 0 else 0.04),
         'doc': rng.choice([None, 'class doc']), 'members': []}
    kinds = ['func', 'cm', 'sm', 'prop', 'const'] + (['class'] if depth < maxdepth else []) + (['alias'] if targets else [])
    weights = [4, 2, 2, 3, 0.7] + ([2.2] if depth < maxdepth else []) + ([1.6] if targets else [])
    n = rng.randint(1, 6)
    if depth < maxdepth and rng.random() < 0.5:
        kinds_forced = ['class']
    else:
        kinds_forced = []
    for i, k in enumerate(kinds_forced + rng.choices(kinds, weights, k=n)):
        nm = f'{k[0]}{depth}{i}'
        if k in ('func', 'cm', 'sm'):
            c['members'].append({'kind': k, 'name': nm, **gen_fn(rng)})
        elif k == 'prop':
            c['members'].append({'kind': 'prop', 'name': nm, 'doc': None, 'get': gen_fn(rng, True),
                                 'set': gen_fn(rng) if rng.random() < 0.7 else None,
                                 'del': gen_fn(rng, True) if rng.random() < 0.25 else None})
        elif k == 'class':
            c['members'].append({'kind': 'class', 'name': f'N{depth}{i}',
                                 'body': gen_cls(rng, f'N{depth}{i}', depth + 1, maxdepth, targets, False)})
        elif k == 'alias':
            c['members'].append({'kind': 'alias', 'name': f'A{depth}{i}', 'target': rng.choice(targets)})
        else:
            c['members'].append({'kind': 'const', 'name': nm})
    if c['dataclass']:
        for j in range(rng.randint(1, 2)):
            c['members'].insert(0, {'kind': 'field', 'name': f'fld{j}', 'hint': rng.choice(['int', 'str', 'float'])})
    return c


def gen_case(rng: random.Random, cid: str) -> dict:
    externals, targets = [], ['int']
    has_base = rng.random() < 0.5
    conf = rng.choices(CONFS, [5, 2, 1, 1, 2])[0]
    # members that cannot be decorated: none in half of the cases, ~8 % of all functions overall
    BADP[0] = rng.choices([0.0, 0.08, 0.22], [3, 4, 3] if conf == 'warn' else [5, 3, 2])[0]
    if rng.random() < 0.55:
        e = gen_cls(rng, 'KX', 1, 1, [], False)       # its name extends the name of the class under test
        e['dataclass'] = False
        externals.append(e)
        targets += ['KX', 'KX']
    if rng.random() < 0.5:
        e = gen_cls(rng, 'Other', 1, 1, [], False)
        e['dataclass'] = False
        e['members'].append({'kind': 'class', 'name': 'In', 'body': gen_cls(rng, 'In', 2, 1, [], False)})
        e['members'][-1]['body']['dataclass'] = False
        externals.append(e)
        targets += ['Other', 'Other.In']
    if has_base:
        e = gen_cls(rng, 'Base', 1, 1, [], False)
        e['dataclass'] = False
        e['members'] = [m for m in e['members'] if m['kind'] != 'class']
        for i, m in enumerate(e['members']):
            m['name'] = f'b{i}'                        # inherited names never shadowed by own names
        if not e['members']:
            e['members'].append({'kind': 'func', 'name': 'b0', **gen_fn(rng)})
        externals.append(e)
        targets.append('Base')
    maxdepth = rng.choice([0, 1, 1, 2, 3])
    case = {'id': cid, 'conf': conf, 'externals': externals,
            'cls': gen_cls(rng, 'K', 0, maxdepth, targets, has_base),
            'selfref': rng.random() < 0.06, 'standalone': []}
    for i in range(2):
        case['standalone'].append({'wrap': rng.choice(['func', 'func', 'cm', 'sm', 'prop']), 'name': f'sa{i}', **gen_fn(rng)})
    for c in externals + [case['cls']]:
        sanitize(c)
    return case


# ---------------------------------------------------------------------------
# canonical shape (failure keys, distinctness)
# ---------------------------------------------------------------------------
def shape_fn(fn: dict) -> str:
    return '+'.join([fn['ann']] + (['ntc'] if fn['ntc'] else []) + (['pre'] if fn['pre'] else []) + (['deco'] if fn.get('deco') else []))


def alias_kind(target: str, top: str) -> str:
    if target == 'int':
        return 'builtin'
    if '.' in target:
        return 'nested-of-external'
    if target != top and target.startswith(top):
        return 'name-prefix-collision'
    return 'external'


def shape_cls(c: dict, top: str) -> str:
    items = [x for x in ('base', 'dataclass', 'pre') if c.get(x)]
    for m in c['members']:
        k = m['kind']
        if k in ('func', 'cm', 'sm'):
            items.append(f'{k}[{shape_fn(m)}]')
        elif k == 'prop':
            items.append('prop[' + ','.join(f'{a}:{shape_fn(m[a])}' for a in ('get', 'set', 'del') if m.get(a)) + ']')
        elif k == 'class':
            items.append('class{' + shape_cls(m['body'], top) + '}')
        elif k == 'alias':
            items.append(f"alias[{alias_kind(m['target'], top)}]")
        else:
            items.append(k)
    return ','.join(items)


def shape_case(case: dict) -> str:
    s = f"{case['conf']}:K{{{shape_cls(case['cls'], case['cls']['name'])}}}"
    if case.get('selfref'):
        s += '+selfref'
    return s


def depth_of(c: dict) -> int:
    return 1 + max([depth_of(m['body']) for m in c['members'] if m['kind'] == 'class'] or [0])


# ---------------------------------------------------------------------------
# evaluation of one case on the real code
# ---------------------------------------------------------------------------
def fn_objs(v, kind: str, m: dict):
    """[(role, fn spec, function object)] inside a class attribute value."""
    if kind == 'func':
        return [('', m, v)]
    if kind in ('cm', 'sm'):
        return [('', m, getattr(v, '__func__', None))]
    out = [('get', m['get'], getattr(v, 'fget', None))]
    if m.get('set'):
        out.append(('set', m['set'], getattr(v, 'fset', None)))
    if m.get('del'):
        out.append(('del', m['del'], getattr(v, 'fdel', None)))
    return out


def facts_of(f):
    if not isinstance(f, types.FunctionType):
        return None
    return (f.__name__, f.__qualname__, f.__doc__, str(inspect.signature(f)),
            tuple(sorted((k, repr(v)) for k, v in f.__dict__.items() if not k.startswith('__'))))


def snapshot(cls, spec: dict) -> dict:
    """Own dictionary (objects) + facts of every function, recursively for DEFINED classes."""
    snap = {'dict': dict(cls.__dict__), 'facts': {}, 'sub': {}, 'marked': R.is_cls_marked(cls)}
    for m in spec['members']:
        k = m['kind']
        if k in ('func', 'cm', 'sm', 'prop'):
            for role, _fn, f in fn_objs(cls.__dict__[m['name']], k, m):
                snap['facts'][(m['name'], role)] = facts_of(f)
        elif k == 'class':
            snap['sub'][m['name']] = snapshot(cls.__dict__[m['name']], m['body'])
    return snap


def foreign_snapshot(ns: dict, case: dict) -> list:
    out = []

    def rec(cls, spec, label):
        out.append((label, cls, dict(cls.__dict__), R.is_cls_marked(cls)))
        for m in spec['members']:
            if m['kind'] == 'class':
                rec(cls.__dict__[m['name']], m['body'], f"{label}.{m['name']}")
    for e in case.get('externals', []):
        rec(ns[e['name']], e, e['name'])
    return out


KIND_TYPES = {'func': types.FunctionType, 'cm': classmethod, 'sm': staticmethod, 'prop': property}


def check_members(cls, spec: dict, snap: dict, conf: str, opt: bool, path: str, cls_pre: bool, out: list, pl: dict):
    """The property's clauses on one decorated class, against the spec-derived expectation `pl` (R.plan)."""
    cls_pre = (cls_pre or bool(spec.get('pre'))) and not opt
    added = [k for k in cls.__dict__ if k not in snap['dict']]
    if [k for k in added if k != '__sizeof__']:
        out.append(('keys-added', f'{path}: new class attributes {added}'))
    if list(snap['dict']) != [k for k in cls.__dict__ if k in snap['dict']]:
        out.append(('keys-added', f'{path}: attribute order changed'))
    if not opt and R.is_cls_marked(cls) != pl['marked']:
        out.append(('class-marker', f'{path}: class {"not " if pl["marked"] else ""}marked as decorated'
                                    + ('' if pl['marked'] else ' although its decoration did not complete')))
    for m in spec['members']:
        k, nm = m['kind'], m['name']
        before, after = snap['dict'][nm], cls.__dict__.get(nm)
        where = f'{path}.{nm}'
        if k in KIND_TYPES:
            if type(after) is not KIND_TYPES[k]:
                out.append(('kind', f'{where}: was {KIND_TYPES[k].__name__}, is {type(after).__name__}'))
                continue
            if k == 'prop' and after.__doc__ != before.__doc__:
                out.append(('facts', f'{where}: property __doc__ changed'))
            for (role, fn, f0), (_r, _f, f1) in zip(fn_objs(before, k, m), fn_objs(after, k, m)):
                w = f'{where}{"." + role if role else ""}'
                if not isinstance(f1, types.FunctionType):
                    out.append(('kind', f'{w}: function became {type(f1).__name__}'))
                    continue
                exp_new = pl['new'][nm][role]
                if exp_new and f1 is f0:
                    out.append(('not-wrapped', f'{w}: annotated {k} member was not wrapped'))
                elif not exp_new and f1 is not f0:
                    out.append(('noop-identity', f'{w}: a no-op case ({shape_fn(fn)}, conf {conf}) returned another function object'))
                if f1 is not f0:
                    if not R.is_marked(f1):
                        out.append(('wrapped-original', f'{w}: new function without the wrapper marker'))
                    if getattr(f1, '__wrapped__', None) is not f0:
                        out.append(('wrapped-original', f'{w}: __wrapped__ is not the original function'))
                if facts_of(f1) != snap['facts'][(nm, role)]:
                    out.append(('facts', f'{w}: name/qualname/doc/signature {snap["facts"][(nm, role)]} -> {facts_of(f1)}'))
                if R.is_marked(f1) != (R.fn_pre_wrapped(fn, opt) or exp_new or (cls_pre and R.fn_checkable(fn))):
                    out.append(('not-wrapped' if not R.is_marked(f1) else 'noop-identity',
                                f'{w}: wrapper marker is {R.is_marked(f1)}'))
        elif k == 'class':
            if after is not before:
                out.append(('same-object', f'{where}: nested class replaced by another object'))
            else:
                check_members(after, m['body'], snap['sub'][nm], conf, opt, where, cls_pre, out, pl['sub'][nm])
        else:
            if after is not before:
                out.append(('foreign-touched', f'{where}: attribute of kind {k} was replaced'))


def marker_map(cls, spec: dict, prefix: str = '') -> list:
    out = []
    for m in spec['members']:
        k, nm = m['kind'], m['name']
        v = cls.__dict__.get(nm)
        if k in KIND_TYPES:
            out.append((prefix + nm, type(v).__name__,
                        [(role, R.is_marked(f), facts_of(f) if isinstance(f, types.FunctionType) else None)
                         for role, _fn, f in fn_objs(v, k, m)]))
        elif k == 'class':
            out += marker_map(v, m['body'], f'{prefix}{nm}.')
    return out


def identity_map(cls, spec: dict) -> list:
    """every own attribute object, recursively for defined classes (for `is` comparisons)"""
    out = [(k, v) for k, v in cls.__dict__.items()]
    for m in spec['members']:
        if m['kind'] in ('cm', 'sm'):
            out.append((m['name'] + '.__func__', getattr(cls.__dict__.get(m['name']), '__func__', None)))
        elif m['kind'] == 'prop':
            p = cls.__dict__.get(m['name'])
            out += [(m['name'] + '.' + a, getattr(p, a, None)) for a in ('fget', 'fset', 'fdel')]
        elif m['kind'] == 'class' and isinstance(cls.__dict__.get(m['name']), type):
            out += [(m['name'] + '.' + a, b) for a, b in identity_map(cls.__dict__[m['name']], m['body'])]
    return out


def guarded(thunk, limit: int | None = None):
    """(result, exception or None, first lines of the warnings issued) of one decorator call"""
    with warnings.catch_warnings(record=True) as wlog:
        warnings.simplefilter('always')
        old = sys.getrecursionlimit()
        if limit:
            sys.setrecursionlimit(limit)     # generated classes nest <= 4 deep; runaway recursion must fail fast
        try:
            r, exc = thunk(), None
        except BaseException as e:  # noqa
            r, exc = None, e
        finally:
            sys.setrecursionlimit(old)
    return r, exc, [(w.category.__name__, (str(w.message).strip().splitlines() or [''])[0]) for w in wlog]


def exc_name(e) -> str | None:
    return None if e is None else type(e).__name__


def check_outcome(what: str, exc, wlog: list, exp_raise: bool, exp_warns: list | int, broken: list) -> bool:
    """Exception / warnings of one decoration against the expectation. False: not even the exception
    status is as expected (the state is not examined further)."""
    ok = True
    if exc is not None and not exp_raise:
        broken.append(('exception', f'{what} raised {exc_name(exc)}'))
        ok = False
    elif exc is None and exp_raise:
        broken.append(('exception', f'{what} raised nothing although a member cannot be decorated (expected {R.DECOR_EXC})'))
        ok = False
    elif exc is not None and exc_name(exc) != R.DECOR_EXC:
        broken.append(('exception', f'{what} raised {exc_name(exc)}, expected {R.DECOR_EXC}'))
        ok = False
    n = exp_warns if isinstance(exp_warns, int) else len(exp_warns)
    if len(wlog) != n:
        broken.append(('warnings', f'{what} issued {len(wlog)} warning(s), expected {n}; first: {(wlog or [("", "")])[0][1][:140]}'))
    elif any(c != 'UserWarning' or 'not decoratable by @beartype' not in msg for c, msg in wlog):
        broken.append(('warnings', f'{what}: unexpected warning {wlog[0][0]}: {wlog[0][1][:140]}'))
    elif not isinstance(exp_warns, int):
        for (c, msg), subject in zip(wlog, exp_warns):
            if subject not in msg:
                broken.append(('warnings', f'{what}: a warning about {subject} was expected, got: {msg[:140]}'))
                break
    return ok


def model_conf(conf_label: str) -> str:
    return conf_label if conf_label in ('o0', 'warn') else 'def'


def evaluate(case: dict) -> dict:
    """Run one case on the real code (not -O). Returns clauses broken (oracle), the model request and
    the real object graphs for the correspondence."""
    from beartype import beartype
    conf_label = case['conf']
    conf = R.make_conf(conf_label)
    deco = beartype(conf=conf)
    try:
        nsA, nsB = R.build(case, 'a'), R.build(case, 'b')
    except RecursionError:
        raise
    except Exception as e:
        raise InvalidCase(f'{type(e).__name__}: {e}')
    R.cleanup(nsA, nsB)
    spec = case['cls']
    KA, KB = nsA[spec['name']], nsB[spec['name']]
    mod = nsA['__name__']
    broken: list = []
    lab = R.Labels()
    t0 = R.reify_class(KA, lab, mod)
    n = lab.n
    lab.frozen = True
    snap = snapshot(KA, spec)
    foreign = foreign_snapshot(nsA, case)
    pl = R.plan(spec, conf_label, False)
    res = {'case': case, 'broken': broken, 'n': n, 't0': t0, 't1': None, 't2': None, 'calls': None, 'obs': None,
           'plan': pl, 'request': sexp(['c13', 'noopt', model_conf(conf_label), t0, n]), 'standalone': []}
    # ---- route A: the class decorator ----
    ra, ea, wa = guarded(lambda: deco(KA), limit=260)
    if not check_outcome('decorating the class', ea, wa, pl['raised'], pl['warns'], broken):
        return res
    if ea is None and ra is not KA:
        broken.append(('same-object', 'beartype(cls) returned another object'))
        return res
    res['t1'] = R.reify_class(KA, lab, mod)
    check_members(KA, spec, snap, conf_label, False, spec['name'], False, broken, pl)
    for label, cls, d0, marked0 in foreign:
        if list(cls.__dict__.items()) != list(d0.items()) or any(cls.__dict__[k] is not v for k, v in d0.items()):
            ch = [k for k in cls.__dict__ if k not in d0 or cls.__dict__[k] is not d0[k]]
            broken.append(('foreign-touched', f'class {label} (not defined in the decorated class) had attributes {ch} replaced/added'))
        if R.is_cls_marked(cls) != marked0:
            broken.append(('foreign-touched', f'class {label} (not defined in the decorated class) was marked as decorated'))
    # ---- idempotence: decorate again (a class whose decoration raised raises again at the same member;
    #      the descriptors before that member are rebuilt around the SAME functions) ----
    def stable(ids):
        return [(a, b) for a, b in ids if not (ea is not None and isinstance(b, (classmethod, staticmethod, property)))]
    ids1 = stable(identity_map(KA, spec))
    r2, e2, w2 = guarded(lambda: deco(KA))
    ids2 = stable(identity_map(KA, spec))
    if exc_name(e2) != exc_name(ea):
        broken.append(('idempotent', f'second beartype(cls) raised {exc_name(e2)}, the first {exc_name(ea)}'))
    elif w2:
        broken.append(('idempotent', f'second beartype(cls) issued {len(w2)} warning(s): {w2[0][1][:120]}'))
    elif e2 is None and r2 is not KA:
        broken.append(('idempotent', 'second beartype(cls) returned another object'))
    elif len(ids1) != len(ids2) or any(a[0] != b[0] or a[1] is not b[1] for a, b in zip(ids1, ids2)):
        ch = [a[0] for a, b in zip(ids1, ids2) if a[1] is not b[1]]
        broken.append(('idempotent', f'second beartype(cls) replaced {ch}'))
    res['t2'] = R.reify_class(KA, lab, mod)
    res['obs'] = [ea is not None, len(wa), e2 is not None, len(w2)]
    # ---- route B: every function by hand on the twin, in dictionary order ----
    _rb, eb, wb = guarded(lambda: R.route_hand(KB, spec, deco))
    hand_raise, hand_warns = R.hand_expectation(spec, conf_label, False)
    if not check_outcome('decorating the functions by hand', eb, wb, hand_raise, hand_warns, broken):
        return res
    if exc_name(ea) != exc_name(eb):
        broken.append(('routes-differ', f'class decoration raised {exc_name(ea)}, by-hand decoration {exc_name(eb)}'))
    if len(wa) != len(wb):
        broken.append(('routes-differ', f'class decoration issued {len(wa)} warning(s), by-hand decoration {len(wb)}'))
    ca, cb = R.calls_of(KA, spec), R.calls_of(KB, spec)
    res['calls'] = ca
    exp = R.expected_calls(spec, conf_label, False, pl=pl)
    ma, mb = marker_map(KA, spec), marker_map(KB, spec)
    if ca != cb:
        d = [(x, y) for x, y in zip(ca, cb) if x != y][:3]
        broken.append(('routes-differ', f'verdicts differ between class decoration and by-hand decoration: {d}'))
    if ma != mb:
        d = [(x, y) for x, y in zip(ma, mb) if x != y][:2]
        broken.append(('routes-differ', f'kinds/markers/facts differ between the two routes: {d}'))
    if ca != exp:
        d = [(x, y) for x, y in zip(ca, exp) if x != y][:3]
        broken.append(('verdicts', f'call verdicts (real, expected): {d}'))
    # ---- standalone objects: function-level idempotence / no-op identity / failure ----
    for s in case.get('standalone', []):
        f = nsA[s['name']]
        obj = {'func': lambda: f, 'cm': lambda: classmethod(f), 'sm': lambda: staticmethod(f),
               'prop': lambda: property(f)}[s['wrap']]()
        slab = R.Labels()
        s0 = R.reify_member(obj, slab, mod, (), set())
        sn = slab.n
        slab.frozen = True
        w = f"standalone {s['wrap']} {s['name']}"
        fails = R.fn_fails(s, conf_label, False)
        x_raise = fails and conf_label != 'warn'
        x_warns = [s['name'] + '()'] if fails and conf_label == 'warn' else []
        r1, e1, w1 = guarded(lambda: deco(obj))
        if not check_outcome(f'decorating the {w}', e1, w1, x_raise, x_warns, broken):
            continue
        if e1 is not None:
            r1 = obj                                   # the exception propagated: the caller keeps the object
        s1 = R.reify_member(r1, slab, mod, (), set())
        r2, e2, w2 = guarded(lambda: deco(r1))
        if exc_name(e2) != exc_name(e1) or len(w2) != len(w1):
            broken.append(('idempotent', f'{w}: decorating the result again raised {exc_name(e2)} / issued {len(w2)} warning(s), '
                                         f'the first time {exc_name(e1)} / {len(w1)}'))
            continue
        if e2 is not None:
            r2 = r1
        s2 = R.reify_member(r2, slab, mod, (), set())
        inner = (lambda o: o) if s['wrap'] == 'func' else (lambda o: o.fget) if s['wrap'] == 'prop' else (lambda o: o.__func__)
        if type(r1) is not type(obj):
            broken.append(('kind', f'{w}: {type(obj).__name__} became {type(r1).__name__}'))
        else:
            f1, f2 = inner(r1), inner(r2)
            exp_new = R.fn_wrapped_now(s, conf_label, False)
            if exp_new and (f1 is f or not R.is_marked(f1) or getattr(f1, '__wrapped__', None) is not f):
                broken.append(('not-wrapped' if f1 is f else 'wrapped-original', f'{w}: expected a wrapper exposing the original as __wrapped__'))
            if not exp_new and f1 is not f:
                broken.append(('noop-identity', f'{w}: a no-op case ({shape_fn(s)}, conf {conf_label}) returned another function object'))
            if fails and s['wrap'] == 'func' and r1 is not obj:
                broken.append(('noop-identity', f'{w}: cannot be decorated, yet another object came back'))
            if f2 is not f1:
                broken.append(('idempotent', f'{w}: decorating the result again returned another function object'))
            if s['wrap'] == 'func' and r2 is not r1:
                broken.append(('idempotent', f'{w}: decorating the wrapper again returned another object'))
            if isinstance(f1, types.FunctionType) and facts_of(f1) != facts_of(f):
                broken.append(('facts', f'{w}: name/qualname/doc/signature changed'))
        res['standalone'].append({'spec': s, 'n': sn, 't0': s0, 't1': s1, 't2': s2,
                                  'obs': [e1 is not None, len(w1), e2 is not None, len(w2)],
                                  'request': sexp(['c13', 'noopt', model_conf(conf_label), s0, sn])})
    return res


def compare_model(n: int, t1, t2, resp_line: str, obs: list | None = None) -> str | None:
    """First difference between the real object graphs (after one and two decorations) and the model's;
    `obs` = [raised, warnings, raised again, warnings again] observed on the real code."""
    v = parse_sexp(resp_line)
    if v[0] != 'ok':
        return f'model rejected the request: {resp_line[:200]}'
    m1, _n1, m2, _n2, x1, w1, x2, w2 = v[1]
    if obs is not None:
        mod_obs = [x1 == 'true', int(w1), x2 == 'true', int(w2)]
        if list(obs) != mod_obs:
            return f'[raised, warnings, raised again, warnings again] real {list(obs)} vs model {mod_obs}'
    ren_r, ren_m = {}, {}
    for which, real, model in (('after one decoration', t1, m1), ('after two decorations', t2, m2)):
        if real is None:
            continue
        a, b = R.normalise(real, n, ren_r), R.normalise(model, n, ren_m)
        d = R.first_tree_diff(a, b)
        if d:
            return f'{which} (real vs model) {d}'
    return None


def driver_parallel(lines: list[str], chunks: int = 3) -> list[str]:
    """the interpreted driver is the slowest part: run the batch as a few concurrent drivers"""
    if len(lines) < 40:
        return lean_driver(lines, 'C13')
    from concurrent.futures import ThreadPoolExecutor
    lean_driver(lines[:1], 'C13')                      # builds the driver once, in this thread
    size = (len(lines) + chunks - 1) // chunks
    parts = [lines[i:i + size] for i in range(0, len(lines), size)]
    with ThreadPoolExecutor(max_workers=len(parts)) as pool:
        return [x for part in pool.map(lambda p: lean_driver(p, 'C13'), parts) for x in part]


def model_diffs(results: list[dict]) -> list[tuple[int, str]]:
    """(index of the case, description) for every case on which model and real code differ."""
    lines, owners = [], []
    for i, r in enumerate(results):
        if r['t1'] is not None:
            lines.append(r['request'])
            owners.append((i, r['n'], r['t1'], r['t2'], 'class', r['obs']))
        for s in r['standalone']:
            lines.append(s['request'])
            owners.append((i, s['n'], s['t1'], s['t2'], f"standalone {s['spec']['wrap']} {s['spec']['name']}", s['obs']))
    out = []
    if not lines:
        return out
    for (i, n, t1, t2, what, obs), line in zip(owners, driver_parallel(lines)):
        d = compare_model(n, t1, t2, line, obs)
        if d:
            out.append((i, f'{what}: {d}'))
    return out


# ---------------------------------------------------------------------------
# shrinking
# ---------------------------------------------------------------------------
def candidates(case: dict):
    def variants_cls(c):
        for i in range(len(c['members'])):
            d = copy.deepcopy(c)
            del d['members'][i]
            yield d
        for flag in ('dataclass', 'pre', 'base', 'doc'):
            if c.get(flag):
                d = copy.deepcopy(c)
                d[flag] = None if flag in ('base', 'doc') else False
                if flag == 'dataclass':
                    d['members'] = [m for m in d['members'] if m['kind'] != 'field']
                yield d
        for i, m in enumerate(c['members']):
            if m['kind'] == 'class':
                for b in variants_cls(m['body']):
                    d = copy.deepcopy(c)
                    d['members'][i]['body'] = b
                    yield d
            fns = [('', m)] if m['kind'] in ('func', 'cm', 'sm') else \
                [(a, m[a]) for a in ('get', 'set', 'del') if m.get(a)] if m['kind'] == 'prop' else []
            for a, fn in fns:
                for flag, val in (('pre', False), ('ntc', False), ('doc', None), ('deco', False)):
                    if fn.get(flag):
                        d = copy.deepcopy(c)
                        (d['members'][i] if a == '' else d['members'][i][a])[flag] = val
                        yield d
                if fn['ann'] in ('bad', 'ign'):
                    d = copy.deepcopy(c)
                    g = d['members'][i] if a == '' else d['members'][i][a]
                    if fn['ann'] == 'bad':
                        g['ann'], g['ret'] = 'chk', fn['ret'] or 'ok'     # (a getter / deleter is annotated through its return)
                    else:
                        g['ann'] = 'none'
                    yield d
            if m['kind'] == 'prop':
                for a in ('set', 'del'):
                    if m.get(a):
                        d = copy.deepcopy(c)
                        d['members'][i][a] = None
                        yield d
    if case.get('standalone'):
        yield {**case, 'standalone': []}
        for i in range(len(case['standalone'])):
            yield {**case, 'standalone': case['standalone'][:i] + case['standalone'][i + 1:]}
    if case.get('selfref'):
        yield {**case, 'selfref': False}
    for i in range(len(case.get('externals', []))):
        yield {**case, 'externals': case['externals'][:i] + case['externals'][i + 1:]}
    if case['conf'] != 'def':
        yield {**case, 'conf': 'def'}
    for m in case['cls']['members']:            # hoist the body of a nested class in place of the class under test
        if m['kind'] == 'class':
            yield {**case, 'cls': {**copy.deepcopy(m['body']), 'name': case['cls']['name'], 'base': None}}
    for c in variants_cls(case['cls']):
        yield {**case, 'cls': c}
    for i, e in enumerate(case.get('externals', [])):
        for c in variants_cls(e):
            yield {**case, 'externals': case['externals'][:i] + [c] + case['externals'][i + 1:]}


def clauses_of(case: dict, with_model: bool) -> set:
    try:
        r = evaluate(case)
    except InvalidCase:
        return set()
    except RecursionError:
        return {'exception'}
    cl = {c for c, _ in r['broken']}
    if with_model and model_diffs([r]):
        cl.add('model')
    return cl


def shrink(case: dict, clause: str) -> dict:
    cur = copy.deepcopy(case)
    progress = True
    while progress:
        progress = False
        for cand in candidates(cur):
            if clause in clauses_of(cand, with_model=(clause == 'model')):
                cur = cand
                progress = True
                break
    return cur


# ---------------------------------------------------------------------------
# python -O
# ---------------------------------------------------------------------------
def explore_optimized(cases: list[dict], ex: Explore):
    if not cases:
        return
    out = subproc_json('harness.impl.c13_run', {'cases': cases}, env={'PYTHONOPTIMIZE': '1'})
    if not out.get('optimize'):
        raise RuntimeError('the -O child did not run optimised')
    lines = [sexp(['c13', 'opt', model_conf(c['conf']), r['t0'], r['n']]) for c, r in zip(cases, out['results'])]
    for c, r, line in zip(cases, out['results'], lean_driver(lines, 'C13')):
        ex.evaluations += 1
        ex.traces_validated += 1
        broken = []
        if not r['same_class']:
            broken.append('beartype(cls) is not cls')
        if r['keys_added']:
            broken.append(f"class attributes added: {r['keys_added']}")
        ren = {}
        d = R.first_tree_diff(R.normalise(r['t0'], r['n'], ren), R.normalise(r['t1'], r['n'], ren))
        if d:
            broken.append(f'the class changed: {d}')
        exp = R.expected_calls(c['cls'], c['conf'], True)
        if [list(x) for x in r['calls']] != [list(x) for x in exp]:
            broken.append('calls are checked under -O: ' + str([(x, y) for x, y in zip(r['calls'], exp) if list(x) != list(y)][:3]))
        for s in r['standalone']:
            if not s['same']:
                broken.append(f"standalone {s['wrap']} {s['name']}: another object returned")
        if broken:
            ex.failures.append(Failure(
                key=f'C13:optimized-identity:{shape_case(c)}',
                what=f'under python -O decoration is not the identity: {broken[0]}',
                replay={'case': c, 'optimized': True, 'broken': broken, 'source': R.render_case(c)}))
        md = compare_model(r['n'], r['t1'], r['t1'], line, [False, 0, False, 0])
        if md and not broken:
            ex.corr_diffs.append({'case': c['id'], 'optimized': True, 'diff': md})


# ---------------------------------------------------------------------------
# explore / replay / main
# ---------------------------------------------------------------------------
RULE = ('generated classes decorated by beartype(conf=…)(cls) and, on an identical twin, function by function by hand; '
        'non-trivial = the class under test has >= 1 member that gets a new wrapper AND >= 1 of '
        '(nested class, classmethod/staticmethod/property, inherited base, referenced class, dataclass, '
        'already-decorated member, no-op member, member that cannot be decorated); distinct = distinct canonical shapes (configuration + kinds, flags, nesting)')


def explore(ck: Check, n: int, seed: int, n_opt: int) -> Explore:
    rng = random.Random(seed)
    ex = Explore(rule=RULE)
    cases = [gen_case(rng, f'{seed}_{i}') for i in range(n)]
    results, kinds, verdict_kinds, confs, depths = [], {}, {}, {}, {}
    shapes, nontrivial = set(), set()
    reported: set = set()
    outcomes = {'completes': 0, 'raises': 0, 'warns': 0}

    def report(case, clause, detail):
        small = shrink(case, clause)
        try:
            r = evaluate(small)
            details = [d for c, d in r['broken'] if c == clause] or [detail]
            if clause == 'model':
                details = [d for _, d in model_diffs([r])] or [detail]
        except RecursionError:
            details = ['decorating the class raised RecursionError']
        key = f'C13:{clause}:{shape_case(small)}'
        if key in reported:
            return
        reported.add(key)
        ex.failures.append(Failure(key=key, what=f'{details[0]}  [shape {shape_case(small)}]',
                                   replay={'case': small, 'clause': clause, 'details': details,
                                           'source': R.render_case(small), 'unshrunk_case': case}))

    for case in cases:
        try:
            r = evaluate(case)
        except InvalidCase as e:
            raise RuntimeError(f'generator produced an invalid program: {e}\n{R.render_case(case)}')
        except RecursionError:
            r = {'case': case, 'broken': [('exception', 'decorating the class raised RecursionError')], 'n': 0,
                 't0': None, 't1': None, 't2': None, 'calls': None, 'request': None, 'standalone': []}
        results.append(r)
        ex.evaluations += 1 + len(r['standalone'])
        sh = shape_case(case)
        shapes.add(sh)
        confs[case['conf']] = confs.get(case['conf'], 0) + 1
        depths[depth_of(case['cls'])] = depths.get(depth_of(case['cls']), 0) + 1

        def count(c):
            for m in c['members']:
                kinds[m['kind']] = kinds.get(m['kind'], 0) + 1
                if m['kind'] == 'class':
                    count(m['body'])
        count(case['cls'])
        for _l, v in (r['calls'] or []):
            verdict_kinds[v] = verdict_kinds.get(v, 0) + 1
        if r.get('plan'):
            outcomes['raises' if r['plan']['raised'] else 'warns' if r['plan']['warns'] else 'completes'] += 1
        sp = case['cls']
        flat = json.dumps(sp)
        wraps = any(v in (R.PARAM_V, R.RETURN_V) for _l, v in (r['calls'] or [])) and not sp.get('pre') and case['conf'] != 'o0'
        rich = any(s in flat for s in ('"class"', '"cm"', '"sm"', '"prop"', '"alias"', '"pre": true', '"ntc": true',
                                       '"ann": "none"', '"ann": "bad"')) or sp.get('base') or sp.get('dataclass')
        if wraps and rich:
            nontrivial.add(sh)
        seen_clauses = set()
        for clause, detail in r['broken']:
            if clause not in seen_clauses and len(reported) < 8:
                seen_clauses.add(clause)
                report(case, clause, detail)
    # ---- correspondence with the model (one driver run) ----
    for i, d in model_diffs(results):
        r = results[i]
        if r['broken']:
            continue                       # already a property failure with its own replay
        ex.corr_diffs.append({'case': r['case']['id'], 'diff': d, 'shape': shape_case(r['case'])})
    ex.traces_validated += sum(1 + len(r['standalone']) for r in results if r['t1'] is not None)
    # ---- python -O ----
    explore_optimized(cases[:n_opt], ex)
    ex.distinct_nontrivial = len(nontrivial)
    ex.extra.update({'distinct_shapes': len(shapes), 'member_kind_distribution': kinds, 'conf_distribution': confs,
                     'nesting_depth_distribution': depths, 'call_verdict_distribution': verdict_kinds,
                     'optimized_cases': min(n_opt, len(cases)), 'decoration_outcome_distribution': outcomes})
    ex.samples = [{'shape': shape_case(c), 'source': R.render_case(c)[:1500]} for c in cases[:2]]
    return ex


def deep_search(ck: Check, n: int, seed: int, n_opt: int) -> Explore:
    """After a broken proof / correspondence: a larger exploration with other seeds. Only inputs on
    which the REAL code breaks a clause of the property (oracle) come back as failures; a mere
    model/implementation difference (harmless rewrite) stays a correspondence difference."""
    return explore(ck, n, seed, n_opt)


def replay(data: dict) -> int:
    case = data['case']
    print(R.render_case(case))
    print('configuration:', case['conf'], '| clause:', data.get('clause', 'optimized-identity' if data.get('optimized') else '?'))
    if data.get('optimized'):
        ex = Explore()
        explore_optimized([case], ex)
        for f in ex.failures:
            print('replay:', f.what)
        if not ex.failures:
            print('replay: decoration under python -O is the identity on this case (not reproduced)')
        return 1 if ex.failures else 0
    try:
        r = evaluate(case)
        broken = list(r['broken'])
        md = model_diffs([r])
    except RecursionError:
        broken, md = [('exception', 'decorating the class raised RecursionError')], []
    for c, d in broken:
        print(f'replay: [{c}] {d}')
    for _i, d in md:
        print(f'replay: [model] {d}')
    if not broken and not md:
        print('replay: every clause of the property holds on this case and the model agrees (not reproduced)')
        return 0
    return 1


def main(ck: Check) -> int:
    quick = ck.tier == 'quick'
    proof = ck.prove(MODULE, PROP_FILE)
    ex = explore(ck, n=300 if quick else 10000, seed=ck.seed, n_opt=40 if quick else 800)
    ck.decide(proof, ex, deep_search=lambda: deep_search(ck, n=1500 if quick else 6000, seed=ck.seed + 1000, n_opt=100))
    ck.evidence(proof, ex,
                level_note='Lean proof for every class (any member mix, nesting depth, inheritance) by mutual structural induction over '
                           'nested class bodies + node-for-node comparison of real decorated object graphs with the model + two-route '
                           'differential and direct oracle on generated classes; identity of classmethod/staticmethod/property OBJECTS is '
                           'up to the rebuilt descriptor object (the functions inside are the identical objects); decorations that RAISE '
                           '(hints rejected at decoration time) are modelled: same exception at the same member on both routes and the '
                           'same half-decorated class, or — under warning_cls_on_decorator_exception — that member alone left as it was '
                           'with one warning (exception status and warning count compared with the model on every case)',
                assumptions=[
                    'hints that need no class stack (no Self, no forward reference to an enclosing class): by-hand decoration has none',
                    'conf.is_pep557_fields is False (default): dataclass field checking monkey-patches __setattr__ beyond the members',
                    'a decoration raises only through a hint rejected by code generation (generated: `NoReturn` on a parameter), nothing else '
                    'raises between two members; blacklist / jaxtyping / sphinx disjuncts of is_func_unbeartypeable are false',
                    'by-value class dictionaries: the same class object bound twice in one body is treated as opaque the second time',
                    'qualified-name components contain no dot, so "startswith(qualname + \'.\')" is "proper prefix of the component list"',
                    'verdicts of calls come from the real wrappers; which hint accepts which value is C01/C02, here only int/str/list/Optional/float/tuple samples',
                ])
    return ck.finish()
