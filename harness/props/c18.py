"""C18 — hint-rewriting options behave exactly like rewriting the hints by hand.

Metamorphic tie on the REAL code: for every generated hint h the check under the option
(is_pep484_tower=True / hint_overrides={A: B}) must generate the same code (canonical
tree) and reach the same verdicts, for every forced draw and on the explanation path, as
the default configuration applied to the hand-rewritten hint; both must also equal the
Lean generator on the rewritten-and-flattened model hint (Props/C18.lean)."""
from __future__ import annotations

import collections
import random
import types
import typing as T

from ..common import LEAN, Check, Explore, Failure
from ..bear import astcanon, corr, explore, gen, real
from ..bear.model import atom_of, hint_model, obj_model
from ..bear.world import Registry

MODULE = 'BearVerif.Props.C18'
PROP_FILE = LEAN / 'BearVerif/Props/C18.lean'


_ALIASES: list = []


class RecursiveAlias(Exception):
    pass


def hand_rewrite(h, mp: dict):
    """Replace every occurrence of a key of `mp` inside hint `h`, at every depth, once."""
    try:
        if h in mp:
            return mp[h]
    except TypeError:
        pass
    # wrappers (TypeVar, NewType, alias) are replaced by their rewritten content ONLY when the rewriting changes that
    # content: an untouched wrapper stays the hint it is (replacing it would let typing merge union members that
    # beartype keeps apart, e.g. Union[frozenset[NT_INT], frozenset[TV_BOUND]] -> Union[frozenset[int]])
    if isinstance(h, T.TypeVar):          # a TypeVar stands for its bound / the union of its constraints
        if h.__bound__ is not None:
            r = hand_rewrite(h.__bound__, mp)
            return r if repr(r) != repr(h.__bound__) else h
        if h.__constraints__:
            rs = tuple(hand_rewrite(c, mp) for c in h.__constraints__)
            return T.Union[rs] if [repr(x) for x in rs] != [repr(c) for c in h.__constraints__] else h
        return h
    if hasattr(h, '__supertype__'):        # a NewType stands for its supertype
        r = hand_rewrite(h.__supertype__, mp)
        return r if repr(r) != repr(h.__supertype__) else h
    if isinstance(h, T.TypeAliasType):     # a PEP 695 alias stands for its value
        if any(a is h for a in _ALIASES):  # a recursive alias has no finite hand-rewritten spelling
            raise RecursiveAlias(repr(h))
        _ALIASES.append(h)
        try:
            r = hand_rewrite(h.__value__, mp)
            return r if repr(r) != repr(h.__value__) else h
        finally:
            _ALIASES.pop()
    origin, args = T.get_origin(h), T.get_args(h)
    if origin is None or not args:
        return h
    if origin is T.Literal:
        return h
    if origin is T.Annotated:
        return T.Annotated[(hand_rewrite(h.__origin__, mp),) + tuple(h.__metadata__)]
    new = tuple(a if a is Ellipsis or a == () else hand_rewrite(a, mp) for a in args)
    if origin is T.Union or isinstance(h, types.UnionType):
        return T.Union[new]
    if origin is collections.abc.Callable:
        return h
    try:
        return origin[new] if len(new) != 1 else origin[new[0]]
    except TypeError:
        return h


def explore_c18(ck: Check, n: int, seed: int) -> Explore:
    from beartype import BeartypeConf, BeartypeHintOverrides
    from beartype.door import die_if_unbearable, is_bearable
    from beartype.roar import BeartypeDoorHintViolation
    real.install_draw_control()
    rng = random.Random(seed)
    reg = Registry()
    hg, og = gen.HintGen(reg, rng), gen.ObjGen(rng)
    ex = Explore()
    preds = gen.pred_ids()
    default = BeartypeConf()
    TOWER = {float: float | int, complex: complex | float | int}
    options = [
        ('tower', BeartypeConf(is_pep484_tower=True), TOWER),
        ('override', BeartypeConf(hint_overrides=BeartypeHintOverrides({gen.U1: gen.U1 | int, str: bytes})), {gen.U1: gen.U1 | int, str: bytes}),
        ('override-container', BeartypeConf(hint_overrides=BeartypeHintOverrides({gen.U2: list[int]})), {gen.U2: list[int]}),
        # the two options together: the tower is merged into the user's overrides (whichever of its two entries the user
        # already spelled out, in either operand order) — hand rewriting applies both maps
        ('tower+override', BeartypeConf(is_pep484_tower=True, hint_overrides=BeartypeHintOverrides({gen.U1: gen.U1 | int, str: bytes})),
         {**TOWER, gen.U1: gen.U1 | int, str: bytes}),
        ('tower+float-spelled', BeartypeConf(is_pep484_tower=True, hint_overrides=BeartypeHintOverrides({float: float | int})), TOWER),
        ('tower+float-reversed', BeartypeConf(is_pep484_tower=True, hint_overrides=BeartypeHintOverrides({float: int | float, gen.U2: list[int]})),
         {**TOWER, gen.U2: list[int]}),
        ('tower+complex-spelled', BeartypeConf(is_pep484_tower=True, hint_overrides=BeartypeHintOverrides({complex: complex | float | int})), TOWER),
        ('tower+both-spelled', BeartypeConf(is_pep484_tower=True, hint_overrides=BeartypeHintOverrides(
            {float: float | int, complex: complex | float | int, str: bytes})), {**TOWER, str: bytes}),
    ]
    sens = collections.Counter()
    seen = set()
    fails = set()
    pending = []

    def fail(key, what, rp):
        if key not in fails and len(fails) < 10:
            fails.add(key)
            ex.failures.append(Failure(key, what, rp))

    # hints that mention an overridden class somewhere (option-sensitive), at random depth
    extra_leaves = [float, complex, gen.U1, gen.U2, str]
    made = 0
    while made < n:
        h = hg.hint(3)
        if rng.random() < 0.7:
            # plant a sensitive leaf
            leaf = rng.choice(extra_leaves)
            h = rng.choice([list[leaf], dict[str, leaf], tuple[int, leaf], T.Optional[leaf], set[leaf] if leaf is not gen.U2 else list[leaf],
                            collections.abc.Iterable[leaf], T.Union[int, list[leaf]], list[T.Union[leaf, None]],
                            dict[str, list[leaf]], T.Annotated[leaf, gen.IS_VALIDATORS[0]], tuple[leaf, ...], leaf,
                            collections.abc.Mapping[str, tuple[leaf, int]], list[h] if rng.random() < 0.3 else list[leaf],
                            # the overridden class as a direct member of a union UNDER type[...] (plain classes only)
                            *( [type[T.Union[leaf, str]], list[type[T.Union[leaf, bytes]]], type[leaf]] if isinstance(leaf, type) else [])])
        made += 1
        for oname, conf, mp in options:
            try:
                hr = hand_rewrite(h, mp)
            except RecursiveAlias:
                sens['skipped:recursive-alias'] += 1
                continue
            sensitive = repr(hr) != repr(h)
            if not sensitive and rng.random() < 0.8:
                continue
            sens[oname + (':sensitive' if sensitive else ':insensitive')] += 1
            try:
                hm_r = hint_model(hr, reg)
            except (NotImplementedError, KeyError):
                continue
            if explore.ignorable_model(hm_r):
                continue
            rp = {'hint': repr(h), 'option': oname, 'hand_rewritten': repr(hr)}
            # 1. code-level: option(h) == default(hand-rewritten h) == Lean gen(model of hand-rewritten)
            def gen_of(hh, cc):
                try:
                    return ('code', real.generated_code(hh, cc))
                except Exception as e:   # noqa: BLE001
                    return ('exc', type(e).__name__, str(e)[:200])
            g_opt, g_hand = gen_of(h, conf), gen_of(hr, default)
            if g_opt[0] == 'exc' or g_hand[0] == 'exc':
                # a rewriting that yields an unsupported hint (e.g. type[list[int] | bytes]) must be refused under the option
                # exactly as the hand-rewritten hint is refused under the default configuration
                if g_opt[:2] != g_hand[:2]:
                    fail(f'C18:{oname}:generator-exception:{g_opt[1] if g_opt[0] == "exc" else "none"}-vs-{g_hand[1] if g_hand[0] == "exc" else "none"}',
                         f'generating code for {h!r:.160} under {oname}: {g_opt[:2]}; for the hand-rewritten {hr!r:.160} under the default '
                         f'configuration: {g_hand[:2]}', rp)
                else:
                    sens['both-refused:' + g_opt[1]] += 1
                continue
            try:
                t_opt = astcanon.real_to_tree(*g_opt[1], reg, preds, atom_of)
                t_hand = astcanon.real_to_tree(*g_hand[1], reg, preds, atom_of)
            except astcanon.Unmodelled:
                t_opt = t_hand = None
            ex.evaluations += 1
            if t_opt is not None:
                d = astcanon.first_diff(t_opt, t_hand)
                if d:
                    ex.corr_diffs.append({'tie': 'code-level option vs hand-rewritten', **rp, 'where': d[:300]})
                pending.append((hm_r, t_hand, rp))
            # 2. behaviour: verdict pairs under forced draws, fast path and explanation path
            for j in range(4):
                x = og.make(hr if j % 2 == 0 else h)
                if j == 3:
                    x = og.mutate(x)
                for draw in (0, 1, 5):
                    real.DRAW[0] = draw
                    out = []
                    for hh, cc in ((h, conf), (hr, default)):
                        try:
                            b = is_bearable(x, hh, conf=cc)
                        except Exception as e:
                            b = 'exc:' + type(e).__name__
                        real.DRAW[0] = draw
                        try:
                            die_if_unbearable(x, hh, conf=cc)
                            dd = True
                        except BeartypeDoorHintViolation:
                            dd = False
                        except Exception as e:
                            dd = 'exc:' + type(e).__name__
                        out.append((b, dd))
                    ex.traces_validated += 1
                    if sensitive:
                        seen.add((explore.shape(hm_r), oname, str(out[0])))
                    if out[0] != out[1]:
                        fail(f'C18:{oname}:verdict:{explore.shape(hm_r)}',
                             f'{oname}: checking {x!r:.80} against {h!r:.140} under the option gives (is_bearable, die_if_unbearable)={out[0]}, '
                             f'against the hand-rewritten hint {hr!r:.140} under the default configuration {out[1]} (draw={draw})',
                             {**rp, 'object': repr(x)[:300], 'draw': draw, 'option_result': str(out[0]), 'hand_result': str(out[1])})
    for (hm_r, t_hand, rp), mt in zip(pending, corr.model_gen([p[0] for p in pending], True)):
        d2 = astcanon.first_diff(t_hand, mt) if mt is not None else 'model refused'
        if d2:
            ex.corr_diffs.append({'tie': 'code-level hand-rewritten vs Lean gen', **rp, 'where': str(d2)[:300]})
    ex.distinct_nontrivial = len(seen)
    ex.rule = ('seeded hints with float/complex/overridden classes planted at every depth and container family; 8 options (numeric tower, tower merged with user overrides that spell none / one / both of its entries, '
               'class->union override incl. self-recursive A->A|int, class->container override); each compared with the hand-rewritten hint '
               'under the default configuration: canonical generated code, is_bearable and die_if_unbearable under 3 forced draws on conforming '
               'and perturbed objects. distinct_nontrivial = distinct (rewritten hint shape, option, verdict pair) among option-SENSITIVE hints')
    ex.extra['option_sensitivity'] = dict(sens)
    ex.samples = [{'hint': 'list[float]', 'option': 'tower', 'hand_rewritten': 'list[float | int]'}]
    return ex


def main(ck: Check) -> int:
    quick = ck.tier == 'quick'
    proof = ck.prove(MODULE, PROP_FILE)
    ex = explore_c18(ck, 400 if quick else 5000, ck.seed)
    ck.decide(proof, ex, deep_search=lambda: explore_c18(ck, 3000, ck.seed + 11))
    ck.evidence(proof, ex, level_note='Lean: rewriting reaches every depth once, union flattening preserves the check; tie: metamorphic differential '
                'of the real options against real hand-rewritten hints (code and verdicts) and against the Lean generator',
                assumptions=['the rewriting function itself (_reduce_hint_overrides) is tied only through this metamorphic differential',
                             'hint grammar as in C01'])
    return ck.finish()


def replay(data: dict) -> int:
    print({k: data[k] for k in data})
    return 1
