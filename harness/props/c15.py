"""C15 — the public API is safe to use from many threads under every interleaving (DESIGN §4 C15; PARTIAL).

Proof side: `Props/C15.lean` — table theorems over the lock skeletons re-extracted from the source on every run
(`harness/extract/conc.py` -> `Extracted/Conc.lean`) + theorems about transition systems with CPython's atomicity
assumptions, for every schedule and any number of threads.

Tie / search side (this file + `harness/sched.py` + `harness/impl/c15_worker.py`): a controlled scheduler runs REAL
beartype operations on 2-3 real threads, one thread at a time, switching only where the schedule says (every line —
optionally every bytecode instruction of the synchronisation files — inside beartype is a possible switch point; every
beartype lock is replaced by a cooperative lock so that blocking is a scheduling decision and deadlock is detected).
Schedules are enumerated per scenario: serial orders, one preemption at every lock event, one/two preemptions at the
1st/2nd/3rd/last visit of every distinct line of the synchronisation files (stratified), preemption-bounded random
points, PCT priorities, random walks — all seeded by VERIF_SEED.

Oracle on the REAL outcomes of every schedule: no deadlock/hang, no pooled item handed out twice, one object per equal
BeartypeConf/TypeHint arguments, and (per-thread results, final registry observation) equal to those of SOME sequential
order of the same operations — the reference set is computed by running the operations in every order, sequentially.
Model tie: identity outcomes must be among the outcomes of the Lean get-or-create system explored exhaustively
(variant chosen by what the extracted skeleton says), observed lock nesting must be allowed by the extracted lock order.

Replay = scenario (operations per thread) + schedule (run-length encoded thread ids), re-executed in a fresh interpreter.
"""
from __future__ import annotations

import concurrent.futures as cf
import hashlib
import json
import random
import time

from ..common import LEAN, Check, Explore, Failure, lean_driver, parse_sexp, sexp, subproc_json
from ..extract import conc as xconc

MODULE = 'BearVerif.Props.C15'
PROP_FILE = LEAN / 'BearVerif/Props/C15.lean'

Q = ['pa', 'pa.sub', 'pa.sub.y', 'pb', 'pb.z', 'zz']

# fixed scenarios: every mechanism of the property, 2 and 3 threads, fresh (cold=not warmed up) and warmed interpreters
FIXED = [
    ('conf2', 'conf', True, [[['conf', 'K2']], [['conf', 'K2b']]]),
    ('conf3', 'conf', True, [[['conf', 'K2'], ['conf', 'K4']], [['conf', 'K2b']], [['conf', 'K4'], ['conf', 'K2']]]),
    ('conf2cold', 'conf', False, [[['conf', 'K5']], [['conf', 'K5']]]),
    ('th2', 'typehint', True, [[['typehint', 'nested']], [['typehint', 'nested']]]),
    ('th3cold', 'typehint', False, [[['typehint', 'nested'], ['typehint', 'union']], [['typehint', 'union'], ['is_subhint', 'cls_B', 'cls_A']],
                                    [['typehint', 'nested']]]),
    ('door2', 'door', True, [[['is_bearable', 'nested_ok', 'nested'], ['die_if', 'nested_bad', 'nested']], [['is_bearable', 'nested_bad', 'nested']]]),
    ('door3', 'door', True, [[['is_bearable', 'list_A', 'union']], [['die_if', 'str', 'union']], [['is_bearable', 'none', 'union']]]),
    ('decor2', 'decor', True, [[['decorate', 'f', 'dict_str_list_A', 'K1'], ['call', 'f', 'dict_ok'], ['call', 'f', 'dict_bad']],
                               [['decorate', 'g', 'dict_str_list_A', 'K1'], ['call', 'g', 'dict_bad']]]),
    ('decorcold', 'decor', False, [[['decorate', 'f', 'annot', 'K4'], ['call', 'f', 'list_A']], [['conf', 'K4'], ['is_bearable', 'list_A', 'annot']]]),
    ('memo2', 'decor', True, [[['decor_factory', 'K3'], ['decorate', 'f', 'tuple_fixed', 'K3'], ['call', 'f', 'tuple_ok']],
                              [['decor_factory', 'K3'], ['decorate', 'g', 'tuple_fixed', 'K3'], ['call', 'g', 'tuple_bad']]]),
    ('hook2', 'hook', True, [[['pkg', 'pa', 'K1'], ['lookup', 'pa.x']], [['pkg', 'pa', 'K3'], ['lookup', 'pa.sub.y']]]),
    ('hook3', 'hook', True, [[['pkgs', ['pa.sub', 'pb'], 'K1']], [['pkg', 'pa', 'K6'], ['lookup', 'pa.sub.y']], [['all', 'K3']]]),
    ('hook4', 'hook', True, [[['pkgs', ['pa.sub', 'pb'], 'K1']], [['lookup', 'pa.sub.y'], ['lookup', 'pb.z']]]),
    ('ctx2', 'beartyping', True, [[['enter', 'K1'], ['lookup', 'zz'], ['exit']], [['all', 'K3'], ['lookup', 'zz']]]),
    ('ctx2b', 'beartyping', True, [[['enter', 'K1'], ['lookup', 'zz'], ['exit']], [['enter', 'K3'], ['exit']]]),
    ('mixed3', 'mixed', True, [[['typehint', 'tuple_var'], ['is_bearable', 'tuple_A', 'tuple_var']], [['conf', 'K3'], ['pkg', 'pb', 'K3']],
                               [['decorate', 'f', 'tuple_var', 'K3'], ['lookup', 'pb.z']]]),
]
HEAVY = {'door', 'decor', 'mixed'}

HINT_OBJS = {  # hint key -> objects with a draw-independent verdict
    'list_A': ['list_A', 'list_str', 'int'], 'dict_str_list_A': ['dict_ok', 'dict_bad', 'none'],
    'tuple_fixed': ['tuple_ok', 'tuple_bad'], 'tuple_var': ['tuple_A', 'tuple_bad', 'str'],
    'union': ['int', 'list_A', 'none', 'str'], 'opt_set': ['set_B', 'none', 'list_empty'],
    'nested': ['nested_ok', 'nested_bad', 'list_empty'], 'annot': ['list_A', 'tuple_A'],
    'seq_union': ['list_A', 'list_str', 'int'], 'type_A': ['clsB', 'clsint'], 'cls_A': ['A', 'B', 'int'],
}
CONF_KEYS = ['K0', 'K1', 'K2', 'K2b', 'K3', 'K4', 'K5', 'K6']
PKGS = ['pa', 'pa.sub', 'pb', 'pb.z.w']


def gen_scenario(rng: random.Random, i: int):
    """seeded scenario: 2-3 threads, 1-3 operations each, one mechanism (or a mix) on SHARED hints/configurations"""
    kind = rng.choice(['conf', 'typehint', 'door', 'decor', 'hook', 'beartyping', 'mixed'])
    n = rng.choice([2, 2, 3])
    h = rng.choice(sorted(HINT_OBJS))
    k = rng.choice(CONF_KEYS)
    k2 = rng.choice([x for x in CONF_KEYS if x not in (k, 'K2b' if k == 'K2' else 'K2')])

    def op(kd, t, j):
        if kd == 'conf':
            return ['conf', rng.choice([k, k, k2, 'K2b' if k == 'K2' else k])]
        if kd == 'typehint':
            return rng.choice([['typehint', h], ['typehint', h], ['typehint', rng.choice(sorted(HINT_OBJS))], ['is_subhint', 'cls_B', 'cls_A']])
        if kd == 'door':
            o = rng.choice(HINT_OBJS[h])
            return rng.choice([['is_bearable', o, h], ['die_if', o, h]])
        if kd == 'hook':
            return rng.choice([['pkg', rng.choice(PKGS), rng.choice([k, k2])], ['pkgs', rng.sample(PKGS, 2), rng.choice([k, k2])],
                               ['all', rng.choice([k, k2])], ['lookup', rng.choice(Q)], ['lookup', rng.choice(Q)]])
        return None
    threads = []
    for t in range(n):
        ops = []
        kd = kind if kind != 'mixed' else rng.choice(['conf', 'typehint', 'door', 'decor', 'hook'])
        if kd == 'decor':
            slot = f's{t}'
            ops = [['decorate', slot, h, k]] + [['call', slot, rng.choice(HINT_OBJS[h])] for _ in range(rng.randint(1, 2))]
        elif kd == 'beartyping':
            if t == 0 or rng.random() < 0.5:
                ops = [['enter', rng.choice([k, k2])]] + ([['lookup', rng.choice(Q)]] if rng.random() < 0.7 else []) + [['exit']]
            else:
                ops = [op('hook', t, j) for j in range(rng.randint(1, 2))]
        else:
            ops = [op(kd, t, j) for j in range(rng.randint(1, 2 if n == 3 else 3))]
        threads.append(ops)
    return (f'gen{i}', kind, rng.random() < 0.75, threads)


def scenario_json(name, kind, warm, threads):
    uses_claw = any(op[0] in ('pkg', 'pkgs', 'all', 'enter', 'lookup') for t in threads for op in t)
    return {'name': name, 'kind': kind, 'warm': warm, 'threads': threads, 'queries': Q if uses_claw else []}


def budgets(kind, tier):
    heavy = kind in HEAVY
    if tier == 'quick':
        return ({'core': 260, 'single': 30, 'double': 20, 'pct': 20, 'random': 20} if heavy else
                {'core': 400, 'single': 150, 'double': 100, 'pct': 80, 'random': 80}), 170
    return ({'core': 1200, 'single': 300, 'double': 200, 'pct': 150, 'random': 150} if heavy else
            {'core': 2000, 'single': 800, 'double': 500, 'pct': 300, 'random': 300}), 600


def plan(seed: int, tier: str, deep=False):
    rng = random.Random(seed * 7919 + (17 if deep else 0))
    scs = [scenario_json(*f) for f in FIXED]
    ngen = 6 if tier == 'quick' and not deep else 24
    scs += [scenario_json(*gen_scenario(rng, i)) for i in range(ngen)]
    jobs = []
    for sc in scs:
        b, tl = budgets(sc['kind'], 'thorough' if deep else tier)
        jobs.append({'scenario': sc, 'gran': 'line', 'seed': rng.getrandbits(30), 'budget': b, 'time_limit': tl})
        if (tier == 'thorough' or deep) and sc['kind'] not in HEAVY:
            jobs.append({'scenario': sc, 'gran': 'opcode', 'seed': rng.getrandbits(30), 'budget': b, 'time_limit': tl})
    # heavy episodes first (longest processing time first)
    jobs.sort(key=lambda j: (j['scenario']['kind'] not in HEAVY, j['scenario']['name']))
    return jobs


def run_job(job):
    try:
        return subproc_json('harness.impl.c15_worker', job, timeout=job.get('time_limit', 900) + 600)
    except Exception as e:  # noqa: BLE001
        return {'harness_error': f'{type(e).__name__}: {e}'[-1500:]}


def describe(sc):
    def o(op):
        k = op[0]
        if k == 'conf':
            return f'BeartypeConf(**{op[1]})'
        if k == 'typehint':
            return f'TypeHint({op[1]})'
        if k in ('is_bearable', 'die_if'):
            return f'{"is_bearable" if k == "is_bearable" else "die_if_unbearable"}({op[1]}, {op[2]})'
        if k == 'decorate':
            return f'{op[1]} = beartype(conf={op[3]})(def f(x: {op[2]}) -> {op[2]})'
        if k == 'call':
            return f'{op[1]}({op[2]})'
        if k == 'decor_factory':
            return f'beartype(conf={op[1]})'
        if k == 'pkg':
            return f'beartype_package({op[1]!r}, conf={op[2]})'
        if k == 'pkgs':
            return f'beartype_packages({tuple(op[1])!r}, conf={op[2]})'
        if k == 'all':
            return f'beartype_all(conf={op[1]})'
        if k == 'enter':
            return f'with beartyping(conf={op[1]}): <enter>'
        if k == 'exit':
            return '<leave the beartyping block>'
        if k == 'lookup':
            return f'conf of module {op[1]!r}'
        return ' '.join(map(str, op))
    return [f'T{t}: ' + '; '.join(o(op) for op in ops) for t, ops in enumerate(sc['threads'])]


def preempt_spec(switch_log, nthreads):
    """a recorded run as a preemption-point schedule: voluntary switches become points on the THREAD-LOCAL yield counter
    (so that dropping one of them leaves the others meaningful), involuntary ones (start/blocked/finished) a choice list"""
    points, inv = [], []
    for frm, n, kind, to in switch_log:
        if kind in ('start', 'done', 'block'):
            inv.append(to)
        else:
            points.append([frm, 'any', n, to])
    return ['preempt', list(range(nthreads)), points, inv]


def confirm(job, fail):
    """Find a short episode that reproduces the failure in a FRESH interpreter (= the replay): the recorded schedule as
    preemption points, minimised by delta debugging over the points (every candidate judged by execution, the survivor
    confirmed alone in a fresh interpreter); else the recorded decisions; else the generating spec; else the episode's
    history up to the failing schedule."""
    sc, gran, kind = job['scenario'], job['gran'], fail['kind']
    n = len(sc['threads'])

    def episode(specs):
        r = run_job({'scenario': sc, 'gran': gran, 'specs': specs, 'time_limit': 300})
        return r.get('verdicts') or [], r
    if fail.get('switch_log') and len(fail['switch_log']) < 3000:
        spec = preempt_spec(fail['switch_log'], n)
        v, r = episode([spec])
        if v and kind in v[-1]:
            pts, inv, best = spec[2], spec[3], r
            chunk = max(1, len(pts) // 2)
            rounds = 0
            while len(pts) > 1 and rounds < 16:
                rounds += 1
                cands = [pts[:i] + pts[i + chunk:] for i in range(0, len(pts), chunk)][:64]
                vs, rr = episode([['preempt', spec[1], c, inv] for c in cands])
                hit = next((i for i, vv in enumerate(vs) if kind in vv), None)
                if hit is not None:
                    # involuntary choices are re-recorded from the run that has just failed
                    sl = (rr.get('switch_logs') or [])[hit] if hit < len(rr.get('switch_logs') or []) else None
                    if sl:
                        ns = preempt_spec(sl, n)
                        pts, inv = ns[2], ns[3]
                    else:
                        pts = cands[hit]
                    chunk = max(1, min(chunk, len(pts) // 2))
                elif chunk == 1:
                    break
                else:
                    chunk = max(1, chunk // 2)
            final = ['preempt', spec[1], pts, inv]
            v3, r3 = episode([final])
            if v3 and kind in v3[-1]:
                return [final], r3
            return [spec], best
    v, r = episode([['replay', fail['rle']]])
    if v and kind in v[-1]:
        return [['replay', fail['rle']]], r
    v1, r1 = episode([fail['spec']])
    if v1 and kind in v1[-1]:
        return [fail['spec']], r1
    v2, r2 = episode(fail['history'])
    if v2 and kind in v2[-1]:
        return fail['history'], r2
    return None, r2


def inst_label(label: str) -> str:
    """'beartype.door._cls.doormeta:_HINT_TO_WRAPPER._lock' -> 'doormeta._HINT_TO_WRAPPER._lock' (the extractor's naming)"""
    mod, _, rest = label.partition(':')
    return mod.split('.')[-1] + '.' + rest


def explore(ck: Check, tier: str, seed: int, deep=False) -> Explore:
    xt = xconc.extract()
    ex = Explore(rule='a schedule = sequence of thread choices at line (bytecode-instruction in opcode episodes) granularity inside '
                      'beartype for 2-3 real threads running real public-API operations on shared fresh hints/configurations; '
                      'non-trivial = distinct schedule with at least one preemption or blocked acquire (more context switches than a '
                      'serial run) in which two threads requested the same lock; every schedule is judged against the outcomes of all '
                      'sequential orders of the same operations')
    jobs = plan(seed, tier, deep)
    t0 = time.time()
    with cf.ThreadPoolExecutor(max_workers=16) as pool:
        results = list(pool.map(run_job, jobs))
    ck.log(f'[C15] {len(jobs)} episodes (fresh interpreters) in {time.time() - t0:.1f}s')
    per = {}
    edges = set()
    kinds = {}
    failures = []
    ident_checks = []
    for job, r in zip(jobs, results):
        sc = job['scenario']
        nm = f'{sc["name"]}/{job["gran"]}'
        if r.get('harness_error'):
            raise RuntimeError(f'worker failed on {nm}: {r["harness_error"]}')
        st = r['stats']
        ex.evaluations += st['schedules']
        ex.distinct_nontrivial += st['nontrivial']
        ex.traces_validated += st['schedules']
        per[nm] = {k: st[k] for k in ('schedules', 'distinct_schedules', 'nontrivial', 'nonserial', 'contended', 'decisions', 'switches',
                                       'distinct_outcomes', 'reference_orders', 'reference_outcomes', 'focus_locations', 'wall_s')
                   if k in st}
        if st.get('time_limited'):
            per[nm]['time_limited'] = True
        ck.log(f'[C15]   {nm:18s} schedules={st["schedules"]:5d} nontrivial={st["nontrivial"]:5d} outcomes={st["distinct_outcomes"]}'
               f'/{st["reference_outcomes"]} steps={st["decisions"]:9d} wall={st["wall_s"]}s' + (' TIME-LIMITED' if st.get('time_limited') else '')
               + (f' FAILURES={[f["kind"] for f in r["failures"]]}' if r['failures'] else ''))
        for k, v in st['kinds'].items():
            kinds[k] = kinds.get(k, 0) + v
        edges.update(tuple(e) for e in st['lock_edges'])
        for f in r['failures']:
            failures.append((job, f))
        if sc['kind'] in ('conf', 'typehint') and all(op[0] in ('conf', 'typehint') for t in sc['threads'] for op in t) \
                and sum(len(t) for t in sc['threads']) <= 6:
            ident_checks.append((job, st['outcomes']))
    ex.extra['episodes'] = per
    ex.extra['schedule_kinds'] = kinds
    ex.extra['scenarios'] = len(jobs)
    ex.extra['locks_replaced_by_cooperative_locks'] = results[0].get('locks_replaced') if results else []
    ex.extra['extracted_regions'] = {k: len(v) for k, v in xt['progs'].items()}
    ex.samples = [{'scenario': describe(j['scenario']), 'granularity': j['gran'], 'reference_outcomes': r.get('reference', [])[:2]}
                  for j, r in list(zip(jobs, results))[:3]]

    # -- model tie (one batched driver call) ----------------------------------------------
    es = sorted(edges)
    lines = [sexp(['c15', 'skeleton']), sexp(['c15', 'lockorder', [[inst_label(a), inst_label(b)] for a, b in es]])]
    idjobs = []
    for job, outs in ident_checks:
        sc = job['scenario']
        ops = [op for t in sc['threads'] for op in t]
        names = sorted({('K2' if op[1] == 'K2b' else op[1]) for op in ops})
        keys = [names.index('K2' if op[1] == 'K2b' else op[1]) for op in ops]
        idjobs.append((sc, keys, outs))
        for variant in ('locked', 'unlocked'):
            lines.append(sexp(['c15', 'goc', variant, [str(x) for x in keys]]))
    t0 = time.time()
    resp = [parse_sexp(x) for x in lean_driver(lines, 'C15')]
    ck.log(f'[C15] model driver: {len(lines)} requests in {time.time() - t0:.1f}s')
    assert all(v[0] == 'ok' for v in resp), resp
    rep = resp[0]
    flags = {row[0]: [x == 'true' for x in row[1:]] for row in rep[1][0] + rep[1][1]}
    ex.extra['skeleton_disciplines'] = {k: all(v) for k, v in flags.items()}
    for k, v in flags.items():
        if not all(v):
            ex.corr_diffs.append({'what': f'extracted skeleton of {k} violates a locking discipline '
                                          f'(wellLocked/atomicOp/flat/lockOrder or memoShape/lockOrder = {v})',
                                  'skeleton': xt['progs'].get(k)})
    ex.extra['observed_lock_nesting'] = [[inst_label(a), inst_label(b), v] for (a, b), v in zip(es, resp[1][1])]
    for (a, b), v in zip(es, resp[1][1]):
        if v != 'ok':
            ex.corr_diffs.append({'what': f'observed lock nesting {a} -> {b} is {v} in the extracted lock table/order'})
    region = {'conf': 'BeartypeConf.__new__', 'typehint': 'CacheUnboundedStrong.cache_or_get_cached_func_return_passed_arg'}
    for i, (sc, keys, outs) in enumerate(idjobs):
        variant = 'locked' if all(flags.get(region[sc['kind']], [False])) else 'unlocked'
        allowed = {tuple(o) for o in resp[2 + 2 * i + (0 if variant == 'locked' else 1)][1]}
        for o in outs:
            got = tuple(str(x[1]) for row in json.loads(o)['threads'] for x in row if x[0] == 'obj')
            if len(got) == len(keys) and got not in allowed:
                ex.corr_diffs.append({'what': f'identity outcome {got} of scenario {sc["name"]} is not an outcome of the {variant} '
                                              f'get-or-create model {sorted(allowed)}', 'scenario': describe(sc)})
    ex.extra['model_identity_checks'] = len(ident_checks)

    # -- failures: confirm in a fresh interpreter, shrink, key ---------------------
    seen = set()
    failures.sort(key=lambda jf: (jf[1].get('switches') or 0))
    for job, f in failures:
        sc = job['scenario']
        key = f'C15:{sc["kind"]}:{f["kind"]}'
        if key in seen:
            continue
        specs, rr = confirm(job, f)
        if specs is None:
            ck.log(f'[C15] schedule failing inside its episode did not reproduce in a fresh interpreter ({key}); kept as a '
                   f'correspondence difference')
            ex.corr_diffs.append({'what': f'failure {key} seen once, not reproducible: {f["what"]}', 'scenario': describe(sc)})
            continue
        seen.add(key)
        last = rr.get('last') or {}
        ex.failures.append(Failure(
            key=key,
            what=f'threads {describe(sc)} under schedule {str(last.get("rle"))[:160]} ({last.get("switches")} context switches, '
                 f'{job["gran"]} granularity): {f["what"]}',
            replay={'scenario': sc, 'gran': job['gran'], 'specs': specs, 'expect': f['kind'], 'readable': describe(sc),
                    'real_outcome': last.get('outcome') or last.get('partial'), 'fatal': last.get('fatal'),
                    'sequential_outcomes': rr.get('reference'), 'where_threads_were': f.get('at'),
                    'lock_events': (last.get('locks') or [])[:40]}))
    return ex


def replay(data: dict) -> int:
    xconc.extract()
    r = run_job({'scenario': data['scenario'], 'gran': data['gran'], 'specs': data['specs'], 'time_limit': 600})
    if r.get('harness_error'):
        print(r['harness_error'])
        return 2
    last = r.get('last') or {}
    print('threads:')
    for line in describe(data['scenario']):
        print('   ', line)
    print('schedule (thread, steps):', str(last.get('rle'))[:400])
    print('real outcome:', json.dumps(last.get('outcome') or last.get('partial')))
    if last.get('fatal'):
        print('scheduler:', json.dumps(last['fatal'])[:600])
    print('outcomes of the sequential orders:')
    for o in r.get('reference', []):
        print('   ', o)
    v = r.get('last_verdict') or []
    kinds = [k for k, _ in v]
    if data.get('expect') in kinds or (kinds and not data.get('expect')):
        print('replay: REPRODUCED —', '; '.join(t for _, t in v))
        return 1
    print('replay: not reproduced (verdict of this schedule now:', kinds or 'ok', ')')
    return 0


def main(ck: Check) -> int:
    quick = ck.tier == 'quick'
    xconc.extract()          # Extracted/Conc.lean must reflect $VERIF_REPO before the theorems are re-checked
    proof = ck.prove(MODULE, PROP_FILE)
    ex = explore(ck, ck.tier, ck.seed)
    ck.decide(proof, ex, deep_search=lambda: explore(ck, ck.tier, ck.seed + 1, deep=True))
    ck.evidence(
        proof, ex,
        level_note='PARTIAL: the theorems hold for the model (lock skeletons re-extracted from the source + transition systems with '
                   "CPython's atomicity assumptions: one lock operation / dict get / dict set / list pop / list append per step), for "
                   'every schedule and any number of threads; real interleavings are exhibited by a controlled scheduler on the real '
                   'code (search over ' + ('thousands' if quick else 'tens of thousands') + ' of enumerated schedules, not proof)',
        assumptions=['atomic steps of the model = operations CPython performs without a thread switch (GIL builds); free-threaded '
                     'builds and C-level races are outside the model',
                     'the skeleton translator (harness/extract/conc.py) reads with-blocks, shared-name accesses and statically '
                     'resolvable callees; callables passed as parameters are opaque `call` entries',
                     'the scheduler switches threads only at line (or bytecode-instruction) boundaries inside beartype; code outside '
                     'beartype (typing, abc, importlib) runs atomically',
                     'sampler draws are not controlled: operations use containers whose verdict does not depend on the draw',
                     'each schedule starts from an interpreter in which all beartype modules are imported; object pools are trimmed to '
                     'their post-start-up size and the claw registry is reset before every schedule'])
    return ck.finish()
