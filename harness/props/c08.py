"""C08 — wrapped coroutines and generators are indistinguishable from the originals (DESIGN §4 C08).

Tie. Bodies are finite TRANSITION TABLES. `harness/impl/c08_tables.py` interprets a table as a REAL generator /
coroutine / async generator function (one interpreter per kind, so @beartype sees genuine CO_GENERATOR / CO_COROUTINE /
CO_ASYNC_GENERATOR code objects and emits its PEP 342 / await / PEP 525 wrappers); the Lean driver interprets the same
table as `Body Nat` and returns the reachable automaton of (a) the undecorated object under the model of CPython's
protocol, (b) the specification object (`checkRet` / `violBody`), (c) the decorated object = protocol over
`wrap342 / wrapCoro / wrap525`. Every operation sequence is then run on the real objects and folded through the
automata — three-way differential:
   model of CPython      vs real undecorated object        (validates the protocol model)       -> corr_diffs
   model of the wrapper  vs real @beartype-decorated one   (validates wrap342/wrapCoro/wrap525) -> corr_diffs
   real decorated        vs real undecorated/specification (THE PROPERTY, the oracle)           -> failures
plus: `reinit`'s flag->snippet decision (real attributes vs hand model vs extracted program) and inspect kinds.
"""
from __future__ import annotations

import concurrent.futures as cf
import hashlib
import itertools
import json
import multiprocessing
import os
import random
import time

from ..common import LEAN, Check, Explore, Failure, lean_build, lean_driver, parse_sexp, run, sexp
from ..extract import gen as xgen
from ..impl import c08_tables as T

MODULE = 'BearVerif.Props.C08'
PROP_FILE = LEAN / 'BearVerif/Props/C08.lean'
WORKERS = max(2, min(15, (os.cpu_count() or 4) - 1))

E = ['U', 0, 7]                       # ValueError(7)
EB = ['U', 3, 7]                      # UserBase(7): a BaseException that is no Exception
OPS = {
    'gen': [['send', 'none'], ['send', 0], ['throw', E], ['throw', EB], ['throw', 'GE'], ['throw', ['SI', 3]], 'close'],
    'coro': [['send', 'none'], ['send', 0], ['throw', E], ['throw', EB], ['throw', 'GE'], ['throw', ['SI', 3]], 'close'],
    'agen': [['send', 'none'], ['send', 0], ['throw', E], ['throw', EB], ['throw', 'GE'], ['throw', 'SAI'], ['throw', ['SI', 3]], 'close'],
}
PRIMARY = {'gen': 'ok', 'coro': 'int', 'agen': 'ok'}
SPEC_NOTE = {'plain': '', 'chk': ' (specification: its returned value goes through the return check)',
             'never': ' (specification: annotated NoReturn - the body is awaited, then any returned value is a violation)',
             'viol': ' (specification: the produced object fails the return hint -> violation when started)'}
KNOWN_KEYS = {
    'gen': 'C08:gen:explicit-throw(GeneratorExit):body-swallows-it-and-returns:StopIteration->GeneratorExit',
    'coro': 'C08:coro:explicit-throw(GeneratorExit):body-swallows-it-and-returns:StopIteration->GeneratorExit',
    'agen': 'C08:agen:explicit-athrow(GeneratorExit):body-swallows-it-and-returns:StopAsyncIteration->GeneratorExit',
}


# ---------------------------------------------------------------------------------------------------------
# tables
# ---------------------------------------------------------------------------------------------------------
def start_row(first):
    return [first, [[], ['x', 'same']], [[], ['x', 'same']], [[], ['x', 'same']]]


def row_alphabet(s: int, nxt: int, kind: str, with_yield_on_exit: bool):
    """every reaction row of yield point `s` (continuing at `nxt`) over the per-slot alphabets"""
    rv = 'none' if kind == 'agen' else 7
    send = [[[], ['y', 10 + s, nxt]], [[], ['y', 'echo', nxt]], [[], ['r', rv]], [[], ['x', ['U', 1, 3]]]]
    thr = [[[], ['x', 'same']], [[s], ['x', 'same']], [[20 + s], ['y', 20 + s, nxt]], [[], ['r', 'none' if kind == 'agen' else 8]]]
    ext = [[[], ['x', 'same']], [[30 + s], ['x', 'same']], [[40 + s], ['r', rv]], [[], ['x', ['U', 1, 3]]]]
    if with_yield_on_exit:
        ext.append([[50 + s], ['y', 50 + s, nxt]])
    stop = [[[], ['x', 'same']], [[], ['r', 'none' if kind == 'agen' else 9]]]
    for a, b, c, d in itertools.product(send, thr, ext, stop):
        yield [a, b, c, d]


def small_row_alphabet(s, nxt, kind):
    rv = 'none' if kind == 'agen' else 7
    send = [[[], ['y', 'echo', nxt]], [[], ['r', rv]]]
    thr = [[[], ['x', 'same']], [[20 + s], ['y', 20 + s, nxt]]]
    ext = [[[30 + s], ['x', 'same']], [[40 + s], ['r', rv]]]
    stop = [[[], ['x', 'same']]]
    for a, b, c, d in itertools.product(send, thr, ext, stop):
        yield [a, b, c, d]


def exhaustive_tables(kind, points: int, alphabet='full', with_yield_on_exit=False):
    """all tables with `points` yield points chained 1 -> 2 -> … (the last one continues past the table)"""
    first = start_row([[], ['y', 1, 1]])
    per_point = [list(row_alphabet(s, s + 1, kind, with_yield_on_exit) if alphabet == 'full'
                      else small_row_alphabet(s, s + 1, kind)) for s in range(1, points + 1)]
    for rows in itertools.product(*per_point):
        yield [first, *rows]


def random_table(rng: random.Random, kind: str):
    """arbitrary transitions (loops, jumps), every reaction kind incl. explicit StopIteration / StopAsyncIteration /
    GeneratorExit raised by the body, echo, logs; ~20% of the tables yield while handling GeneratorExit (out of the
    property's scope: they only validate the models)"""
    n = rng.randint(1, 3)
    bad = rng.random() < 0.2

    def val():
        return rng.choice(['echo', 'none', rng.randint(10, 19)])

    def exc():
        return rng.choice([['U', 1, 3], ['U', 2, 'none'], ['SI', 'none'], ['SI', 4], 'SAI', 'GE'])

    def slot(which):
        lg = [rng.randint(1, 9)] if rng.random() < 0.35 else []
        r = rng.random()
        nxt = rng.randint(1, n + 1)
        if which == 'send':
            react = ['y', val(), nxt] if r < 0.6 else ['r', val()] if r < 0.8 else ['x', exc()]
        elif which == 'exit':
            react = ['x', 'same'] if r < 0.45 else ['r', val()] if r < 0.7 else ['x', exc()] if r < 0.85 else \
                (['y', val(), nxt] if bad else ['x', 'same'])
        else:
            react = ['x', 'same'] if r < 0.4 else ['y', val(), nxt] if r < 0.65 else ['r', val()] if r < 0.8 else ['x', exc()]
        return [lg, react]
    first = [[], ['y', val(), rng.randint(1, n)]] if rng.random() < 0.9 else slot('send')
    return [start_row(first)] + [[slot('send'), slot('throw'), slot('exit'), slot('stop')] for _ in range(n)]


def nontrivial(table) -> bool:
    """has a first yield and at least one yield point reacting to a throw otherwise than by propagating silently"""
    if table[0][0][1][0] != 'y':
        return False
    return any(slot != [[], ['x', 'same']] for row in table[1:] for slot in row[1:])


# ---------------------------------------------------------------------------------------------------------
# model side
# ---------------------------------------------------------------------------------------------------------
_NATIVE = {}


def native_driver():
    """The SAME driver (lean/MainC08.lean + BearVerif.Driver.C08) compiled with the toolchain's `leanc` instead of being
    interpreted by `lean --run` (DESIGN §5 allows either): same line protocol, ~50x the throughput. Objects are cached
    per C-source hash under lean/.lake/build/c08bin; None (-> interpreted driver) whenever anything fails."""
    if 'exe' in _NATIVE:
        return _NATIVE['exe']
    _NATIVE['exe'] = None
    try:
        ok, log = lean_build(['BearVerif.Driver.C08', 'BearVerif.Core.Loop'])           # emits the .c files
        if not ok:
            raise RuntimeError(log[-500:])
        ir, out = LEAN / '.lake/build/ir', LEAN / '.lake/build/c08bin'
        out.mkdir(parents=True, exist_ok=True)
        mods = ['BearVerif/Driver/C08', 'BearVerif/Core/Gen', 'BearVerif/Extracted/Gen', 'BearVerif/Core/Sexp', 'BearVerif/Core/Loop']
        srcs = [ir / f'{m}.c' for m in mods]
        main_c = out / 'MainC08.c'
        stamp = hashlib.sha1((LEAN / 'MainC08.lean').read_bytes() + b''.join(f.read_bytes() for f in srcs)).hexdigest()
        exe = out / f'c08driver_{stamp[:16]}'
        if not exe.exists():
            rc, _, err = run(['lake', 'env', 'lean', '-c', str(main_c), 'MainC08.lean'], cwd=LEAN, timeout=900)
            if rc != 0:
                raise RuntimeError(err[-500:])
            objs = []
            for f in [main_c, *srcs]:
                h = hashlib.sha1(f.read_bytes()).hexdigest()[:16]
                o = out / f'{f.stem}_{h}.o'
                if not o.exists():
                    rc, _, err = run(['leanc', '-O1', '-c', '-o', str(o), str(f)], cwd=LEAN, timeout=900)
                    if rc != 0:
                        raise RuntimeError(err[-500:])
                objs.append(str(o))
            tmp = out / f'.{exe.name}.{os.getpid()}'
            rc, _, err = run(['leanc', '-o', str(tmp), *objs], cwd=LEAN, timeout=900)
            if rc != 0:
                raise RuntimeError(err[-500:])
            os.replace(tmp, exe)
        rc, o, _ = run([str(exe)], input=sexp(['c08', 'kind', 'true', 'false', 'false']) + '\n', timeout=60)
        if rc == 0 and o.startswith('(ok '):
            _NATIVE['exe'] = str(exe)
    except Exception as e:      # noqa: BLE001 — any problem means: use the interpreted driver
        _NATIVE['why'] = str(e)[-300:]
    return _NATIVE['exe']


LAKE_EXE = 'c08driver'      # optional `[[lean_exe]] name = "c08driver", root = "MainC08"` of lean/lakefile.toml (shared file)


def drive(lines):
    """request lines -> response lines: the lake-built native driver when the lakefile declares it, else the same driver
    compiled here with leanc, else interpreted"""
    import inspect
    if f'name = "{LAKE_EXE}"' in (LEAN / 'lakefile.toml').read_text() and 'exe' in inspect.signature(lean_driver).parameters:
        _NATIVE.setdefault('exe', f'lake lean_exe {LAKE_EXE}')
        return lean_driver(lines, 'C08', exe=LAKE_EXE)
    exe = native_driver()
    if exe is None:
        return lean_driver(lines, 'C08')
    rc, out, err = run([exe], input='\n'.join(lines) + '\n', timeout=3000)
    res = out.splitlines()
    if rc != 0 or len(res) != len(lines):
        raise RuntimeError(f'native model driver rc={rc} lines={len(res)}/{len(lines)} {err[-500:]}')
    return res


def model_automata(cases):
    """cases: [(kind, variant, table)] -> [{plain, spec, wrapped}] from the Lean driver (parallel driver processes);
    identical requests (variants sharing a model) are sent once."""
    lines = [sexp(['c08', 'aut', k, *T.VARIANTS[k][v], t, OPS[k]]) for k, v, t in cases]
    if not lines:
        return []
    uniq = list(dict.fromkeys(lines))
    drive([sexp(['c08', 'kind', 'false', 'false', 'false'])])       # builds whichever driver is used, once
    nchunk = max(1, min(WORKERS, len(uniq) // 40 or 1))
    size = (len(uniq) + nchunk - 1) // nchunk
    chunks = [uniq[i:i + size] for i in range(0, len(uniq), size)]
    with cf.ThreadPoolExecutor(max_workers=len(chunks)) as ex:
        outs = list(ex.map(drive, chunks))
    got = {}
    for req, line in zip(uniq, itertools.chain.from_iterable(outs)):
        p = parse_sexp(line)
        if p[0] != 'ok':
            raise RuntimeError(f'model driver refused a request: {line[:200]}')
        got[req] = {a[0]: a[1] for a in p[1]}
    return [got[req] for req in lines]


# ---------------------------------------------------------------------------------------------------------
# rendering / keys / shrinking
# ---------------------------------------------------------------------------------------------------------
EXC_NAME = {'GE': 'GeneratorExit', 'SAI': 'StopAsyncIteration'}


def op_str(kind, op):
    a = 'a' if kind == 'agen' else ''
    if op == 'close':
        return a + 'close'
    if op[0] == 'send':
        if op[1] == 'none':
            return {'gen': 'next', 'coro': 'send(None)', 'agen': 'anext'}[kind]
        return f'{a}send({op[1]})'
    e = op[1]
    name = EXC_NAME.get(e) if isinstance(e, str) else ('StopIteration' if e[0] == 'SI' else T.USER[e[1]].__name__)
    return f'{a}throw({name})'


def res_class(r):
    return 'value' if r[0] == 'val' else r[1]


def table_str(table):
    def react(r):
        if r[0] == 'y':
            return f'yield {r[1]} -> s{r[2]}'
        if r[0] == 'r':
            return f'return {r[1]}'
        return 'raise ' + ('<same>' if r[1] == 'same' else str(r[1]))
    out = []
    for s, row in enumerate(table):
        parts = []
        for name, slot in zip(('send', 'throw', 'GeneratorExit', 'Stop*'), row):
            if s == 0 and name != 'send':
                continue
            parts.append(f'{name}: ' + (f'log{slot[0]} ' if slot[0] else '') + react(slot[1]))
        out.append(f's{s}[' + '; '.join(parts) + ']')
    return ' '.join(out)


class TraceLog(list):
    """finalisation log that also records which (state, slot) the interpreter consulted"""
    def __init__(self):
        super().__init__()
        self.hits = []


def slot_hit(kind, table, oseq, upto):
    """(state, slot index, reaction) the UNDECORATED body consulted while answering operation `upto`."""
    T.quiet()
    hits_per_op = []
    log = TraceLog()
    orig = T._react

    def spy(table_, s, exc, log_):
        r = orig(table_, s, exc, log_)
        if isinstance(log_, TraceLog):
            row = table_[s] if s < len(table_) else T.DEFAULT_ROW
            idx = 0 if exc is None else 2 if type(exc) is GeneratorExit else 3 if type(exc) in (StopIteration, StopAsyncIteration) else 1
            log_.hits.append((s, idx, row[idx][1]))
        return r
    T._react = spy
    try:
        o = T.plain_func(kind)(table, log, 'plain')
        apply = T._apply_async if kind == 'agen' else T._apply_sync
        for op in oseq[:upto + 1]:
            n = len(log.hits)
            try:
                apply(o, op)
            except BaseException:
                pass
            hits_per_op.append(log.hits[n:])
    finally:
        T._react = orig
    return hits_per_op[upto][-1] if hits_per_op and hits_per_op[upto] else None


def differs(kind, variant, table, oseq):
    spec, dec = T.oracle_once(kind, variant, table, oseq)
    return spec != dec


def shrink(kind, variant, table, oseq):
    """greedy: drop operations, simplify operations, default/simplify table slots, retarget transitions"""
    table = json.loads(json.dumps(table))
    oseq = list(oseq)
    changed = True
    while changed:
        changed = False
        spec, dec = T.oracle_once(kind, variant, table, oseq)
        i = T.first_diff(spec, dec)
        if i is not None and i + 1 < len(oseq):
            oseq, changed = oseq[:i + 1], True
        for j in range(len(oseq) - 1, -1, -1):
            cand = oseq[:j] + oseq[j + 1:]
            if cand and differs(kind, variant, table, cand):
                oseq, changed = cand, True
        for j, op in enumerate(oseq):
            if op != 'close' and op[0] == 'send' and op[1] != 'none':
                cand = oseq[:j] + [['send', 'none']] + oseq[j + 1:]
                if differs(kind, variant, table, cand):
                    oseq, changed = cand, True
        while len(table) > 1 and T.no_yield_on_exit(table[:-1]) and differs(kind, variant, table[:-1], oseq):
            table, changed = table[:-1], True
        for s in range(len(table)):
            for k in range(4):
                cands = []
                if table[s][k] != T.DEFAULT_ROW[k]:
                    cands.append(T.DEFAULT_ROW[k])
                if table[s][k][0]:
                    cands.append([[], table[s][k][1]])
                r = table[s][k][1]
                if r[0] == 'y':
                    cands += [[table[s][k][0], ['y', r[1], n]] for n in range(1, r[2])]
                if r[0] in ('y', 'r') and r[1] != 'none':
                    cands.append([table[s][k][0], [r[0], 'none', *r[2:]]])
                for c in cands:
                    t2 = json.loads(json.dumps(table))
                    t2[s][k] = c
                    if T.no_yield_on_exit(t2) and differs(kind, variant, t2, oseq):
                        table, changed = t2, True
                        break
    return table, oseq


def make_failure(kind, variant, table, oseq) -> Failure:
    table, oseq = shrink(kind, variant, table, oseq)
    spec, dec = T.oracle_once(kind, variant, table, oseq)
    i = T.first_diff(spec, dec)
    hit = slot_hit(kind, table, oseq, i)
    slot_names = ['send', 'throw', 'GeneratorExit', 'Stop']
    react_names = {'y': 'yield', 'r': 'return', 'x': 'raise'}
    reaction = 'not-reached' if hit is None else f'on-{slot_names[hit[1]]}={react_names[hit[2][0]]}'
    ops_s = ','.join(op_str(kind, o) for o in oseq)
    same_log = spec[i][0] == dec[i][0]
    what_differs = f'{res_class(spec[i][1])}->{res_class(dec[i][1])}' if spec[i][1] != dec[i][1] else 'finalisation-log'
    family = (oseq[i] == ['throw', 'GE'] and hit is not None and hit[1] == 2 and hit[2][0] == 'r' and same_log
              and res_class(spec[i][1]) in ('StopIteration', 'StopAsyncIteration') and res_class(dec[i][1]) == 'GeneratorExit'
              and spec[:i] == dec[:i] and spec[i + 1:] == dec[i + 1:])
    key = KNOWN_KEYS[kind] if family else f'C08:{kind}:{ops_s}:{reaction}:{what_differs}'
    what = (f'{kind} body {table_str(table)} under [{ops_s}] (variant {variant}): operation #{i} {op_str(kind, oseq[i])} gives '
            f'{spec[i]} on the undecorated object{SPEC_NOTE[T.spec_mode(kind, variant)]}'
            f' but {dec[i]} on the @beartype-decorated one')
    return Failure(key=key, what=what, replay={
        'kind': kind, 'variant': variant, 'table': table, 'ops': oseq, 'ops_readable': [op_str(kind, o) for o in oseq],
        'table_readable': table_str(table), 'expected_undecorated': spec, 'actual_decorated': dec, 'first_difference_at': i})


# ---------------------------------------------------------------------------------------------------------
# kind: reinit's decision + inspect
# ---------------------------------------------------------------------------------------------------------
def _kind_samples():
    def plain(x: int = 0):
        return x

    async def coro(x: int = 0):
        return x

    def gen(x: int = 0):
        yield x

    async def agen(x: int = 0):
        yield x
    return {'plain': plain, 'coroutine': coro, 'generator': gen, 'asyncgen': agen}


def kind_checks(ex: Explore):
    import inspect
    from beartype import BeartypeConf, beartype
    from beartype._check.cls.call.calldatadecorfunc import BeartypeCallDecorFuncData
    names = {}
    for n, code in xgen.snippets().items():
        if isinstance(code, str) and not n.startswith('CODE_CALL_CHECKED'):
            names[code] = n
    samples = _kind_samples()
    lines, flags = [], {}
    for k, f in samples.items():
        fl = f.__code__.co_flags
        flags[k] = [bool(fl & inspect.CO_COROUTINE), bool(fl & inspect.CO_GENERATOR), bool(fl & inspect.CO_ASYNC_GENERATOR)]
        lines.append(sexp(['c08', 'kind', *flags[k]]))
    resp = [dict((a[0], a[1]) for a in parse_sexp(line)[1]) for line in drive(lines)]
    report = {}
    for (k, f), m in zip(samples.items(), resp):
        d = BeartypeCallDecorFuncData()
        d.reinit(f, BeartypeConf())
        real = [d.func_wrapper_code_signature_prefix, d.func_wrapper_code_call_prefix,
                names.get(d.func_wrapper_code_return_checked, '?'), names.get(d.func_wrapper_code_return_unchecked, '?')]
        d.deinit()
        ex.evaluations += 1
        for who in ('hand', 'extracted'):
            if real != m[who]:
                ex.corr_diffs.append({'which': f'reinit decision for a {k} function: real attributes vs {who} model',
                                      'real': real, 'model': m[who]})
        # oracle: same kind as reported by inspect, for a checked and an unchecked wrapper
        for variant, ann in (('checked-return', {'return': object if k in ('generator', 'asyncgen') else int, 'x': int}),
                             ('unchecked-return', {'x': int})):
            import types
            g = types.FunctionType(f.__code__, f.__globals__, f.__name__, f.__defaults__, f.__closure__)
            g.__annotations__ = dict(ann)
            if k == 'generator' and 'return' in ann:
                from collections.abc import Generator
                g.__annotations__['return'] = Generator[int, None, None]
            if k == 'asyncgen' and 'return' in ann:
                from collections.abc import AsyncGenerator
                g.__annotations__['return'] = AsyncGenerator[int, None]
            w = beartype(g)
            ex.evaluations += 1
            got, want = T.inspect_kind(w), T.inspect_kind(g)
            report[f'{k}/{variant}'] = got
            mk = m['wrapper-checked' if variant == 'checked-return' else 'wrapper-unchecked']
            if w is not g and mk != want:
                ex.corr_diffs.append({'which': f'kind of the wrapper emitted for a {k} function ({variant}): model', 'model': mk,
                                      'undecorated': want})
            if got != want:
                ex.failures.append(Failure(
                    key=f'C08:kind:{k}:{variant}:{want}->{got}',
                    what=f'@beartype on a {k} function ({variant} wrapper) yields a callable inspect reports as {got}, not {want}',
                    replay={'kind_check': k, 'variant': variant, 'expected': want, 'actual': got}))
    ex.extra['inspect_kinds_of_decorated'] = report
    adapter_checks(ex)


def adapter_checks(ex: Explore):
    """What @beartype decorates need not be the function that carries the hints: a functools.wraps closure with the
    signature (*args, **kwargs) around it may be of ANOTHER kind (an `async def` adapter around a plain function, a
    generator adapter, …). The wrapper must take its kind from the callable it wraps and calls."""
    import functools
    from beartype import beartype

    def inner_plain(x: int) -> int:
        return x + 1

    def inner_noret(x: int):
        return x + 1

    def mk(kind, inner):
        if kind == 'coroutine':
            @functools.wraps(inner)
            async def adapter(*args, **kwargs):
                return inner(*args, **kwargs)
        elif kind == 'generator':
            @functools.wraps(inner)
            def adapter(*args, **kwargs):
                yield inner(*args, **kwargs)
        elif kind == 'asyncgen':
            @functools.wraps(inner)
            async def adapter(*args, **kwargs):
                yield inner(*args, **kwargs)
        else:
            @functools.wraps(inner)
            def adapter(*args, **kwargs):
                return inner(*args, **kwargs)
        return adapter

    def drive1(kind, f):
        """first observable result of calling f(41)"""
        try:
            o = f(41)
            if kind == 'coroutine':
                try:
                    o.send(None)
                except StopIteration as e:
                    return ['val', repr(e.value)]
                return ['suspended']
            if kind == 'generator':
                return ['val', repr(next(o))]
            if kind == 'asyncgen':
                try:
                    o.asend(None).send(None)
                except StopIteration as e:
                    return ['val', repr(e.value)]
                return ['suspended']
            return ['val', repr(o)]
        except BaseException as e:   # noqa: BLE001
            return ['exc', type(e).__name__]
    report = {}
    for kind in ('plain', 'coroutine', 'generator', 'asyncgen'):
        # (a generator adapter may not inherit a return hint `int`: beartype rightly refuses that at decoration time)
        inners = (('inner(x: int)', inner_noret),) + ((('inner(x: int) -> int', inner_plain),) if kind in ('plain', 'coroutine') else ())
        for iname, inner in inners:
            und = mk(kind, inner)
            try:
                dec = beartype(mk(kind, inner))
            except Exception as e:   # noqa: BLE001
                report[f'{kind}-adapter/{iname}'] = ['decoration raised', type(e).__name__]
                continue
            ex.evaluations += 2
            want_k, got_k = T.inspect_kind(und), T.inspect_kind(dec)
            want_r, got_r = drive1(kind, und), drive1(kind, dec)
            report[f'{kind}-adapter/{iname}'] = [got_k, got_r]
            if got_k != want_k or got_r != want_r:
                ex.failures.append(Failure(
                    key=f'C08:adapter:{kind}-around-{iname}:{want_k}->{got_k}',
                    what=f'@beartype on a functools.wraps (*args, **kwargs) {kind} adapter around a {iname} function: inspect kind '
                         f'{want_k} -> {got_k}, first result of f(41) {want_r} -> {got_r}',
                    replay={'adapter_check': kind, 'inner': iname, 'expected': [want_k, want_r], 'actual': [got_k, got_r]}))
    ex.extra['adapters'] = report


# ---------------------------------------------------------------------------------------------------------
# exploration
# ---------------------------------------------------------------------------------------------------------
def plan(tier: str, seed: int, scale: float = 1.0):
    """[(kind, variant, table, length, extra sequences)]"""
    rng = random.Random(seed)
    quick = tier == 'quick'
    cases = []
    for kind in T.KINDS:
        variants = list(T.VARIANTS[kind])
        # exhaustive small scope: every table with 1 yield point over the full reaction alphabet (incl. yield-on-exit)
        one = list(exhaustive_tables(kind, 1, 'full', with_yield_on_exit=True))
        if quick:
            deep = set(rng.sample(range(len(one)), int(40 * scale)))
            for i, t in enumerate(one):
                cases.append((kind, PRIMARY[kind], t, 4 if i in deep else 3, None))
            for t in rng.sample(list(exhaustive_tables(kind, 2, 'full')), int(150 * scale)):
                cases.append((kind, rng.choice(variants), t, 3, _long_seqs(rng, kind, 12)))
        else:
            for t in one:
                cases.append((kind, PRIMARY[kind], t, 5, None))
            two = list(exhaustive_tables(kind, 2, 'full'))
            deep = set(rng.sample(range(len(two)), len(two) // 5))
            for i, t in enumerate(two):          # every 2-yield-point table: all sequences of length 3, a fifth of them of length 4
                cases.append((kind, PRIMARY[kind], t, 4 if i in deep else 3, None if i in deep else _long_seqs(rng, kind, 8)))
            for t in exhaustive_tables(kind, 3, 'small'):
                for v in variants:
                    cases.append((kind, v, t, 4, None))
            for t in one:
                for v in variants:
                    if v != PRIMARY[kind]:
                        cases.append((kind, v, t, 4, None))
        for _ in range(int((450 if quick else 6000) * scale)):
            cases.append((kind, rng.choice(variants), random_table(rng, kind), 3, _long_seqs(rng, kind, 25)))
    return cases


def _long_seqs(rng, kind, n):
    k = len(OPS[kind])
    return [[0] + [rng.randrange(k) for _ in range(rng.randint(4, 8))] for _ in range(n)]


def explore(ck: Check, tier: str, seed: int, scale: float = 1.0) -> Explore:
    ex = Explore(rule='case = (kind, hint variant, transition table); every case is run on ALL operation sequences of the stated '
                      'length over the kind\'s operation alphabet (next/send(0)/throw(ValueError)/throw(GeneratorExit)/'
                      'throw(StopIteration)[/throw(StopAsyncIteration)]/close, resp. a-forms) plus random longer ones; '
                      'non-trivial = table in the property\'s scope (no yield on GeneratorExit) with a first yield and >= 1 '
                      'yield point that reacts to a throw otherwise than by silently propagating (catch-and-continue, '
                      'try/finally log, swallow-and-return, raise another); distinct = distinct (kind, variant, table)')
    t0 = time.time()
    kind_checks(ex)
    cases = plan(tier, seed, scale)
    auts = model_automata([(k, v, t) for k, v, t, _, _ in cases])
    t_model = time.time() - t0
    jobs = [{'kind': k, 'variant': v, 'table': t, 'ops': OPS[k], 'auts': a, 'length': L, 'extra': xs}
            for (k, v, t, L, xs), a in zip(cases, auts)]
    # big jobs first, so that the pool drains evenly
    order = sorted(range(len(jobs)), key=lambda i: -(len(jobs[i]['ops']) ** jobs[i]['length']))
    results = [None] * len(jobs)
    # fresh interpreters (spawn): forked workers would inherit — and, through reference counts, copy — this process's heap
    with cf.ProcessPoolExecutor(max_workers=WORKERS, mp_context=multiprocessing.get_context('spawn')) as pool:
        for i, r in zip(order, pool.map(T.check_table, [jobs[i] for i in order], chunksize=8)):
            results[i] = r
    seen, nontriv = set(), set()
    dist = {'by_kind': {}, 'by_variant': {}, 'by_yield_points': {}, 'in_scope': 0, 'out_of_scope': 0}
    outcomes: dict = {}
    groups: dict = {}
    predicted = 0
    for (k, v, t, L, xs), r in zip(cases, results):
        ex.evaluations += r['runs']
        ex.traces_validated += 2 * r['runs']
        ident = json.dumps([k, v, t])
        if ident not in seen:
            seen.add(ident)
            dist['by_kind'][k] = dist['by_kind'].get(k, 0) + 1
            dist['by_variant'][f'{k}/{v}'] = dist['by_variant'].get(f'{k}/{v}', 0) + 1
            dist['by_yield_points'][len(t) - 1] = dist['by_yield_points'].get(len(t) - 1, 0) + 1
            scope = T.no_yield_on_exit(t)
            dist['in_scope' if scope else 'out_of_scope'] += 1
            if scope and nontrivial(t):
                nontriv.add(ident)
        for name, n in r['outcomes'].items():
            outcomes[name] = outcomes.get(name, 0) + n
        predicted += r['predicted_family']
        for c in r['corr']:
            if len(ex.corr_diffs) < 12:
                ex.corr_diffs.append({'kind': k, 'variant': v, 'table': table_str(t), **c,
                                      'seq_readable': [op_str(k, o) for o in c['seq']]})
        for f in r['fail']:
            i = T.first_diff(f['spec'], f['decorated'])
            sig = (k, v if T.spec_mode(k, v) != 'plain' else '-', op_str(k, f['seq'][i]), res_class(f['spec'][i][1]),
                   res_class(f['decorated'][i][1]), f['spec'][i][0] == f['decorated'][i][0])
            groups.setdefault(sig, (k, v, t, f['seq']))
    for sig, (k, v, t, seq) in list(groups.items())[:16]:
        ex.failures.append(make_failure(k, v, t, seq))
    ex.distinct_nontrivial = len(nontriv)
    ex.extra.update({
        'distinct_cases': len(seen), 'case_distribution': dist, 'decorated_outcome_distribution': outcomes,
        'oracle_failures_matching_the_model_counterexample_family': predicted,
        'failure_signatures': [list(map(str, s)) for s in groups],
        'operation_alphabets': {k: [op_str(k, o) for o in v] for k, v in OPS.items()},
        'model_driver': f'native ({_NATIVE["exe"].split("/")[-1]})' if _NATIVE.get('exe') else 'interpreted (lean --run): ' + _NATIVE.get('why', ''),
        'model_driver_seconds': round(t_model, 1), 'exploration_seconds': round(time.time() - t0, 1)})
    ex.samples = [{'kind': k, 'variant': v, 'table': table_str(t), 'sequence_length': L} for k, v, t, L, _ in
                  (cases[0], cases[len(cases) // 2], cases[-1])]
    return ex


def replay(data: dict) -> int:
    xgen.extract()
    T.quiet()
    if 'adapter_check' in data:
        ex = Explore()
        adapter_checks(ex)
        hits = [f for f in ex.failures if f.replay.get('adapter_check') == data['adapter_check'] and f.replay.get('inner') == data['inner']]
        for f in hits:
            print('replay: property violated on the real code:', f.what)
        print('adapters:', ex.extra.get('adapters'))
        return 1 if hits else 0
    if 'kind_check' in data:
        ex = Explore()
        kind_checks(ex)
        hits = [f for f in ex.failures if f.replay.get('kind_check') == data['kind_check'] and f.replay.get('variant') == data['variant']]
        for f in hits:
            print('replay:', f.what)
        if not hits:
            print('replay: decorated and undecorated callables are of the same kind (not reproduced)')
        return 1 if hits else 0
    kind, variant, table, oseq = data['kind'], data['variant'], data['table'], data['ops']
    spec, dec = T.oracle_once(kind, variant, table, oseq)
    print(f'{kind} body: {table_str(table)}   (hint variant {variant})')
    print('operations:  ', [op_str(kind, o) for o in oseq])
    print('expected (undecorated object' + SPEC_NOTE[T.spec_mode(kind, variant)].replace(' (specification:', ';').rstrip(')') + '):', spec)
    print('actual   (decorated object):', dec)
    try:
        aut = model_automata([(kind, variant, table)])[0]
        idx = [OPS[kind].index(o) for o in oseq]
        print('model (undecorated / specification / wrapper):', T.fold(aut['plain'], idx), '/', T.fold(aut['spec'], idx), '/',
              T.fold(aut['wrapped'], idx))
    except Exception as e:     # the replay verdict needs the real objects only
        print('model side unavailable:', e)
    i = T.first_diff(spec, dec)
    if i is None:
        print('replay: decorated and undecorated objects agree on this sequence (not reproduced)')
        return 0
    print(f'replay: operation #{i} {op_str(kind, oseq[i])}: expected {spec[i]}, the decorated object gives {dec[i]}')
    return 1


def main(ck: Check) -> int:
    xgen.extract()                      # Extracted/Gen.lean from the current $VERIF_REPO, before anything is built
    proof = ck.prove(MODULE, PROP_FILE)
    ex = explore(ck, ck.tier, ck.seed)
    ck.decide(proof, ex, deep_search=lambda: explore(ck, 'quick', ck.seed + 1, scale=4.0))
    ck.evidence(
        proof, ex,
        level_note='PARTIAL at one point (F-C08a, recorded): the literal bisimulation is false for an explicit throw/athrow(GeneratorExit) '
                   'into a body that swallows it and returns (`_counterexample` theorems); `C08_bisim_sync_partial`, '
                   '`C08_bisim_coro_partial`, `C08_return_checked`, `C08_bisim_async_partial` prove it for all bodies and all operation '
                   'sequences outside exactly that family, `C08_bisim_family_differs` that the family always differs. Models of '
                   'CPython 3.12\'s generator protocol and of the emitted wrappers are validated three-way on every run.',
        assumptions=[
            'bodies are deterministic reactions to (state, sent value | thrown exception) with a finalisation log; the theorems hold for '
            'ANY such body (any state type), the tie enumerates finite tables',
            'CPython 3.12 generator-object protocol is modelled (G.step / A.step / convert) and validated against real objects, not verified',
            'every asend/athrow/aclose awaitable is awaited to completion (no event loop, no real suspension inside an async generator); '
            'coroutines suspend on a generator-based awaitable (a thrown StopIteration reaches their code as RuntimeError)',
            'finalisation of abandoned objects by reference counting / the cyclic collector, sys.set_asyncgen_hooks, tracebacks and '
            '__context__/__cause__ are not observed',
            'hint variants: Generator[...]/AsyncGenerator[...]/int/Coroutine[...,int] return hints, parameter-only hints (unchecked '
            'snippets), and return hints the produced object does not satisfy',
        ])
    return ck.finish()
