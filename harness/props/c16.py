"""C16 — hooked and unhooked bytecode caches never mix; cached bytecode is never stale (DESIGN §4 C16).

Tie: REAL sequences of interpreter runs. Every generated history (per run: hook registrations with a
configuration per package or none, source edits with explicit mtimes, imports, optionally two imports in two
threads with a forced interleaving) is executed run by run in fresh subprocesses over a scratch tree under
tempfile.mkdtemp() with `-X pycache_prefix=<scratch>/pyc` and PYTHONDONTWRITEBYTECODE unset. Per run the
subprocess reports, for every import: which cache file was probed / reused / written, a position-independent
digest of the code object that was executed, the module's behaviour (do a badly typed call, a bad annotated
assignment, decorated function/class calls raise, warn or pass; what pre-existing decorators saw), and the
listing of the cache directory with header stamps, digests and injected beartype names.

  oracle (the property itself, independent of the model): the same module under the same configuration and
      source version imported on an EMPTY cache (memoised per (configuration, version)); behaviour and code
      must be equal; a cache file holds transformed code iff its name carries a beartype marker.
  correspondence: the same history through the Lean model (`Core/Pyc.lean`) under the recipe extracted from
      /repo on this run: probed tag, reuse decision, executed code (version, shape), behaviour and the
      directory listing after every run must agree.
"""
from __future__ import annotations

import itertools
import json
import random
import shutil
import tempfile
import threading
import time
from concurrent.futures import ThreadPoolExecutor
from pathlib import Path

from ..common import LEAN, REPO, Check, Explore, Failure, lean_driver, parse_sexp, sexp
from ..extract import pyc as xpyc
from ..impl import c16tree as T

MODULE = 'BearVerif.Props.C16'
PROP_FILE = LEAN / 'BearVerif/Props/C16.lean'
WORKERS = 16

# AST-shaping options (label, BeartypeConf kwargs, model (pep526, func place, type place))
SHAPES = [
    ('default', {}, (1, 3, 2)),
    ('claw_is_pep526=False', {'claw_is_pep526': False}, (0, 3, 2)),
    ('claw_decor_place_func=FIRST', {'claw_decor_place_func': 'FIRST'}, (1, 1, 2)),
    ('claw_decor_place_func=LAST', {'claw_decor_place_func': 'LAST'}, (1, 2, 2)),
    ('claw_decor_place_type=FIRST', {'claw_decor_place_type': 'FIRST'}, (1, 3, 1)),
    ('claw_decor_place_type=LAST_BEFORE_DECOR_HOSTILE', {'claw_decor_place_type': 'LAST_BEFORE_DECOR_HOSTILE'}, (1, 3, 3)),
    ('claw_is_pep526=False,func=FIRST,type=FIRST',
     {'claw_is_pep526': False, 'claw_decor_place_func': 'FIRST', 'claw_decor_place_type': 'FIRST'}, (0, 1, 1)),
]
# options resolved at run time through the `conf=` keyword (label, kwargs, model rt; rt=1: only the claw warning class differs from the default)
# run-time options (resolved by the injected `conf=` lookup, never baked into the bytecode): the marker need not tell them apart
RTS = [('', {}, 1), ('violation_type=UserWarning', {'violation_type': 'UserWarning'}, 2), ('strategy=O0', {'strategy': 'O0'}, 3)]
NCONF = len(SHAPES) * len(RTS)


def conf_spec(ci: int) -> dict:
    return {**SHAPES[ci // len(RTS)][1], **RTS[ci % len(RTS)][1]}


def conf_label(ci) -> str:
    if ci is None:
        return 'off'
    s, r = SHAPES[ci // len(RTS)][0], RTS[ci % len(RTS)][0]
    return 'hook(' + (s if not r else (r if s == 'default' else s + ',' + r)) + ')'


def conf_model(ci: int) -> list:
    p, f, t = SHAPES[ci // len(RTS)][2]
    return [p, f, t, RTS[ci % len(RTS)][2]]


def conf_of(run: dict, mod: str):
    for pkg, ci in run['hooks']:
        if mod.split('.')[0] == pkg:
            return ci
    return None


def describe(history) -> list:
    out = []
    for r in history:
        hooks = ', '.join(f'{pkg}:{conf_label(ci)}' for pkg, ci in r['hooks']) or 'no hook'
        ed = ''.join(f' edit {m}->v{v};' for m, v in r['edits'])
        if r['kind'] == 'conc':
            out.append(f'run[{hooks}]{ed} threads: A imports {r["imports"][0]} (held at {r["point"]}) || B imports {r["imports"][1]}')
        else:
            out.append(f'run[{hooks}]{ed} import ' + ', '.join(r['imports']))
    return out


# ---------------------------------------------------------------------------
# the real side
# ---------------------------------------------------------------------------
class Lab:
    """Scratch directory + memoised empty-cache oracle."""

    def __init__(self):
        self.root = Path(tempfile.mkdtemp(prefix='verif_c16_'))
        assert not str(self.root).startswith(('/repo', '/verif', str(REPO)))
        self.prefix = self.root / 'pyc'
        self.n = 0
        self.lock = threading.Lock()
        self.oracle_memo: dict = {}
        self.oracle_locks: dict = {}
        self.runs = 0

    def close(self):
        shutil.rmtree(self.root, ignore_errors=True)

    def fresh_tree(self, version=0) -> Path:
        with self.lock:
            self.n += 1
            d = self.root / f't{self.n}'
        T.make_tree(d, version)
        return d

    def run(self, payload) -> dict:
        with self.lock:
            self.runs += 1
        return T.run_once(self.prefix, payload)

    def oracle(self, ci, v) -> dict:
        """{module: {'beh', 'digest'}} on an empty cache: configuration `ci` (None = unhooked), version v."""
        key = (ci, v)
        with self.lock:
            if key in self.oracle_memo:
                return self.oracle_memo[key]
            lk = self.oracle_locks.setdefault(key, threading.Lock())
        with lk:
            if key in self.oracle_memo:
                return self.oracle_memo[key]
            tree = self.fresh_tree(v)
            hooks = [] if ci is None else [[p, conf_spec(ci)] for p in T.PACKAGES]
            res = self.run({'tree': str(tree), 'hooks': hooks, 'imports': T.MODULES})
            out = {}
            for r in res['imports']:
                assert r['event'].get('reused') is False and r['import'] == 'ok', ('oracle run not from an empty cache', r)
                out[r['mod']] = {'beh': beh_of(r), 'digest': r['event']['digest']}
            shutil.rmtree(tree, ignore_errors=True)
            with self.lock:
                self.oracle_memo[key] = out
            return out


def beh_of(r: dict) -> dict:
    return {k: v for k, v in r.items() if k not in ('mod', 'event')}


def run_real(lab: Lab, history) -> list:
    """Execute the history; per run: {'imports': [...], 'listing': [...], 'versions': {mod: v}, 'paused', ...}."""
    tree = lab.fresh_tree(0)
    ver = {m: 0 for m in T.MODULES}
    out = []
    try:
        for r in history:
            for m, v in r['edits']:
                T.write_version(tree, m, v)
                ver[m] = v
            payload = {'tree': str(tree), 'hooks': [[p, conf_spec(ci)] for p, ci in r['hooks']], 'imports': r['imports'],
                       'watch': T.MODULES}
            if r['kind'] == 'conc':
                payload['conc'] = {'mods': r['imports'], 'point': r['point'], 'order': r.get('order', 'nested')}
            res = lab.run(payload)
            res['versions'] = dict(ver)
            res['listing'] = [f for f in res['listing'] if f['mod'] in T.MODULES]
            out.append(res)
    finally:
        shutil.rmtree(tree, ignore_errors=True)
        shutil.rmtree(lab.prefix / str(tree).lstrip('/'), ignore_errors=True)
    return out


def property_failures(lab: Lab, history, real) -> list:
    """The property evaluated on the real outputs: [(run index, kind, module, detail)];
    kind 'current-conf' (behaviour/code differs from the empty-cache oracle) or 'mix' (file content vs marker)."""
    fails = []
    for i, (r, res) in enumerate(zip(history, real)):
        if res.get('stuck') or any(imp['event'].get('sched_timeout') for imp in res['imports']):
            raise RuntimeError(f'forced schedule did not terminate in time (no verdict): {describe(history)}')
        for imp in res['imports']:
            m = imp['mod']
            want = lab.oracle(conf_of(r, m), res['versions'][m])[m]
            got = beh_of(imp)
            if got != want['beh']:
                diff = {k: (got.get(k), want['beh'].get(k)) for k in set(got) | set(want['beh']) if got.get(k) != want['beh'].get(k)}
                fails.append((i, 'current-conf', m, {'differs(actual, empty-cache)': diff, 'cache_file_tag': imp['event'].get('probed'),
                                                     'reused': imp['event'].get('reused')}))
            elif imp['event'].get('digest') != want['digest']:
                fails.append((i, 'current-conf', m, {'code_digest(actual, empty-cache)': [imp['event'].get('digest'), want['digest']],
                                                     'cache_file_tag': imp['event'].get('probed')}))
        for f in res['listing']:
            if 'error' in f:
                fails.append((i, 'mix', f['mod'], {'unreadable cache file': f}))
            elif bool(f['names']) != bool(f['tag']):
                fails.append((i, 'mix', f['mod'], {'file': f['mod'] + ('.opt-' + f['tag'] if f['tag'] else '') + '.pyc',
                                                   'injected_names': f['names'],
                                                   'what': 'transformed code under the stock name' if f['names'] else 'untransformed code under a beartype marker'}))
        if res.get('patch_left'):
            fails.append((i, 'patch-left', '-', {'what': 'importlib._bootstrap_external.cache_from_source still patched at the end of the run '
                                                          '(every import has finished)'}))
    return fails


# ---------------------------------------------------------------------------
# the model side
# ---------------------------------------------------------------------------
def sched_of(r: dict, res: dict | None) -> list:
    """Thread-step schedule the forced interleaving corresponds to (thread 0 = A, 1 = B)."""
    a_hooked = conf_of(r, r['imports'][0]) is not None
    paused = True if res is None else res.get('paused', False)
    if not paused:
        return [0] * 5 + [1] * 5
    if r.get('order') == 'overlap':
        # A up to its first pause point, B up to ITS first pause point, A to the end, B to the end
        b_hooked = conf_of(r, r['imports'][1]) is not None
        ba, bb = (1 if a_hooked else 0), (1 if b_hooked else 0)
        if res is not None and not res.get('paused_b', True):
            bb = 5
        return [0] * ba + [1] * bb + [0] * (5 - ba) + [1] * (5 - bb)
    if r['point'] == 'P1':
        before = 1 if a_hooked else 0          # patch set, file not yet named
    else:
        before = 3 if a_hooked else 2          # file named and probed (miss), not yet compiled
    return [0] * before + [1] * 5 + [0] * 5


def model_line(history, real, recipe='extracted') -> str:
    runs = []
    for i, r in enumerate(history):
        hooks = [[m, conf_model(conf_of(r, m))] for m in T.MODULES if conf_of(r, m) is not None]
        edits = [[m, v] for m, v in r['edits']]
        if r['kind'] == 'conc':
            runs.append(['conc', hooks, edits, r['imports'], sched_of(r, real[i] if real else None)])
        else:
            runs.append(['seq', hooks, edits, r['imports']])
    return sexp(['c16', recipe, runs])


def run_models(pairs, recipe='extracted') -> list:
    lines = [model_line(h, real, recipe) for h, real in pairs]
    out = []
    for line in lean_driver(lines, 'C16'):
        v = parse_sexp(line)
        assert v[0] == 'ok', line
        out.append(v[1])
    return out


def shape_index(shape) -> int | None:
    if shape == 'none':
        return None
    key = tuple(int(x) for x in shape[:3])
    for i, s in enumerate(SHAPES):
        if s[2] == key:
            assert shape[3] == '1', ('model produced a shape without conf keyword', shape)
            return i
    raise KeyError(shape)


def correspondence(lab: Lab, history, real, model) -> list:
    """Differences between the real runs and the model's account of them."""
    diffs = []
    untag = lambda t: '' if t == '-' else t
    for i, (r, res, mo) in enumerate(zip(history, real, model)):
        obs, disk = mo[0], mo[1]
        for ok in res.get('conf_kw', []):
            if not ok:
                diffs.append({'run': i, 'what': 'a hooked configuration equals BEARTYPE_CONF_DEFAULT (model assumes the conf keyword is always emitted)'})
        for imp, o in zip(res['imports'], obs):
            m, tag, reused, src, shape, rt, broken, done = o
            assert m == imp['mod'] and done == '1', (o, imp)
            ev = imp['event']
            si = shape_index(shape)
            exp_code = lab.oracle(None if si is None else si * len(RTS), int(src))[m]['digest']
            got = {'tag': ev.get('probed'), 'reused': bool(ev.get('reused')), 'code': ev.get('digest')}
            exp = {'tag': untag(tag), 'reused': reused == '1', 'code': exp_code}
            if broken == '1':
                if not imp['import'].startswith('raise:'):
                    got['import'], exp['import'] = imp['import'], 'raise:*'
            else:
                ci = None if si is None else si * len(RTS) + {'1': 0, '2': 1, '3': 2}[rt]
                eb = lab.oracle(ci, int(src))[m]['beh']
                if beh_of(imp) != eb:
                    got['behaviour'], exp['behaviour'] = beh_of(imp), eb
            if got != exp:
                diffs.append({'run': i, 'module': m, 'real': got, 'model': exp})
        real_files = sorted((f['mod'], f['tag'], (f.get('mtime', 0) - T.T0) // 100, f.get('digest')) for f in res['listing'])
        model_files = []
        for m, tag, stamp, src, shape in disk:
            si = shape_index(shape)
            model_files.append((m, untag(tag), int(stamp), lab.oracle(None if si is None else si * len(RTS), int(src))[m]['digest']))
        if real_files != sorted(model_files):
            diffs.append({'run': i, 'what': 'cache directory listing (module, tag, stamp version, code)', 'real': real_files,
                          'model': sorted(model_files)})
    return diffs


# ---------------------------------------------------------------------------
# generation
# ---------------------------------------------------------------------------
def gen_history(rng: random.Random, conc_rate: float) -> list:
    n = rng.randint(2, 5)
    few = rng.sample(range(NCONF), k=rng.randint(1, 3))
    ver = {m: 0 for m in T.MODULES}
    hist = []
    for _ in range(n):
        pick = lambda: rng.choice(few) if rng.random() < 0.85 else rng.randrange(NCONF)
        x = rng.random()
        if x < 0.2:
            hooks = []
        elif x < 0.65:
            hooks = [['pkg', pick()]]
        elif x < 0.9:
            c = pick()
            hooks = [['pkg', c], ['other', c if rng.random() < 0.5 else pick()]]
        else:
            hooks = [['other', pick()]]
        edits = []
        if rng.random() < 0.35:
            for m in rng.sample(T.MODULES, k=rng.randint(1, 2)):
                v = rng.choice([x for x in range(4) if x != ver[m]])
                edits.append([m, v])
                ver[m] = v
        if rng.random() < conc_rate:
            a, b = rng.sample(T.MODULES, k=2)
            hist.append({'kind': 'conc', 'hooks': hooks, 'edits': edits, 'imports': [a, b], 'point': rng.choice(['P1', 'P2'])})
        else:
            ms = rng.sample(T.MODULES, k=rng.randint(1, 3))
            hist.append({'kind': 'seq', 'hooks': hooks, 'edits': edits, 'imports': ms})
    return hist


def exhaustive_pairs() -> list:
    """Smallest exhaustive scope: every ordered pair of hook states (off + every shape) over one module."""
    states = [None] + [i * len(RTS) for i in range(len(SHAPES))]
    out = []
    for a, b in itertools.product(states, repeat=2):
        out.append([{'kind': 'seq', 'hooks': [] if c is None else [['pkg', c]], 'edits': [], 'imports': ['pkg.ma']} for c in (a, b)])
    return out


def directed_concurrent() -> list:
    """Every forced interleaving of one hooked import with a second import, on an empty cache and after a
    sequential run that hooked everything; plus a later unhooked run that sees what was left behind."""
    out = []
    seq = lambda hooks, ms: {'kind': 'seq', 'hooks': hooks, 'edits': [], 'imports': ms}
    for point in ('P1', 'P2'):
        for b in ('other.mc', 'pkg.mb'):
            conc = {'kind': 'conc', 'hooks': [['pkg', 0]], 'edits': [], 'imports': ['pkg.ma', b], 'point': point}
            out.append([conc, seq([], ['pkg.ma', b])])
            out.append([seq([['pkg', 0], ['other', 0]], ['other.mc', 'pkg.mb']), conc])
            out.append([seq([], ['pkg.ma']), conc, seq([], ['pkg.ma'])])
    # overlapping, NOT nested: A enters, B enters, A leaves, B leaves — then a later run sees what was left behind
    for b, hooks in (('other.mc', [['pkg', 0], ['other', 0]]), ('pkg.mb', [['pkg', 0]]), ('other.mc', [['pkg', 0]])):
        conc = {'kind': 'conc', 'hooks': hooks, 'edits': [], 'imports': ['pkg.ma', b], 'point': 'P1', 'order': 'overlap'}
        out.append([conc, seq([], ['pkg.ma', b])])
        out.append([conc, seq(hooks, ['pkg.ma', b])])
    return out


# ---------------------------------------------------------------------------
# shrinking and keys
# ---------------------------------------------------------------------------
def shrink_candidates(h) -> list:
    cands = []
    for i in range(len(h)):
        if len(h) > 1:
            cands.append(h[:i] + h[i + 1:])
    for i, r in enumerate(h):
        rep = lambda nr: h[:i] + [nr] + h[i + 1:]
        if r['kind'] == 'conc':
            cands.append(rep({'kind': 'seq', 'hooks': r['hooks'], 'edits': r['edits'], 'imports': r['imports']}))
            cands.append(rep({'kind': 'seq', 'hooks': r['hooks'], 'edits': r['edits'], 'imports': r['imports'][::-1]}))
        elif len(r['imports']) > 1:
            for j in range(len(r['imports'])):
                cands.append(rep({**r, 'imports': r['imports'][:j] + r['imports'][j + 1:]}))
        for j in range(len(r['edits'])):
            cands.append(rep({**r, 'edits': r['edits'][:j] + r['edits'][j + 1:]}))
        for j in range(len(r['hooks'])):
            cands.append(rep({**r, 'hooks': r['hooks'][:j] + r['hooks'][j + 1:]}))
        for j, (p, ci) in enumerate(r['hooks']):
            if ci % len(RTS):
                cands.append(rep({**r, 'hooks': r['hooks'][:j] + [[p, ci - ci % len(RTS)]] + r['hooks'][j + 1:]}))
            if ci // len(RTS) == len(SHAPES) - 1:     # the combined shape -> a single-option shape
                cands.append(rep({**r, 'hooks': r['hooks'][:j] + [[p, 1 * len(RTS) + ci % len(RTS)]] + r['hooks'][j + 1:]}))
    return cands


def shrink(lab: Lab, history, kind, pool: ThreadPoolExecutor):
    def failing(h):
        real = run_real(lab, h)
        fs = [f for f in property_failures(lab, h, real) if f[1] == kind]
        return (h, real, fs) if fs else None
    cur = failing(history)
    assert cur, 'failure did not reproduce when re-executed'
    for _ in range(40):
        cands = shrink_candidates(cur[0])
        if not cands:
            break
        hit = None
        for k in range(0, len(cands), WORKERS):          # candidates in order, one batch of parallel executions at a time
            hit = next((r for r in pool.map(failing, cands[k:k + WORKERS]) if r), None)
            if hit:
                break
        if hit is None:
            break
        cur = hit
    return cur


def canonical_key(history, fails) -> str:
    i, kind, mod, _ = fails[0]
    h = history[:i + 1] if all(r['kind'] == 'seq' for r in history[i + 1:]) and kind == 'mix' else history
    conc = [r for r in history if r['kind'] == 'conc']
    if conc:
        r = conc[0]
        b_hooked = conf_of(r, r['imports'][1]) is not None
        if kind == 'patch-left':
            return 'C16:concurrent:patch-still-installed-after-all-imports-finished'
        return f'C16:concurrent:{"hooked" if b_hooked else "unhooked"}-import-inside-patch-window'
    letters: dict = {}
    toks = []
    for r in h:
        if not r['hooks']:
            t = 'off'
        else:
            # packages hooked in this run, each with the letter of its AST shape (letters by first occurrence)
            t = '+'.join(f'{p}:' + letters.setdefault(ci // len(RTS), chr(ord('A') + len(letters))) for p, ci in sorted(r['hooks']))
        toks.append(t + ('+edit' if r['edits'] else ''))
    return f'C16:seq:[{",".join(toks)}]:{kind}'


# ---------------------------------------------------------------------------
# exploration
# ---------------------------------------------------------------------------
def warmup(lab: Lab, ex: Explore):
    """First run on the fresh prefix: compiles beartype's own modules once for everybody, and shows which
    modules OUTSIDE the tree were named by the patched cache_from_source during one hooked import."""
    tree = lab.fresh_tree(0)
    res = lab.run({'tree': str(tree), 'hooks': [['pkg', {}]], 'imports': ['pkg.ma'], 'foreign': True})
    bad = [f for f in res.get('foreign_marked', []) if not f.get('names')]
    if bad:
        ex.failures.append(Failure(
            key='C16:window:nested-import-cached-under-marker',
            what=f'one hooked import of pkg.ma on an empty cache leaves untransformed, unhooked modules cached under the beartype '
                 f'marker: {[f["file"] for f in bad][:4]} (imported inside the window in which get_code has the global '
                 f'cache_from_source patched)',
            replay={'scenario': 'nested', 'files': bad}))
    shutil.rmtree(tree, ignore_errors=True)
    return res


def explore(ck: Check, n: int, seed: int, conc_rate: float, exhaustive=True, max_shrinks=2) -> Explore:
    ex = Explore(rule='histories of 2-5 interpreter runs over one tree (3 modules in 2 packages): per run no hook / one or both '
                      f'packages hooked with one of {NCONF} configurations ({len(SHAPES)} AST shapes x {len(RTS)} run-time option sets), '
                      'source edits to versions 0-3 with explicit mtimes (also back to older versions), 1-3 imports or two imports in '
                      'two threads with a forced interleaving; plus every ordered pair of hook states over one module and every forced '
                      'interleaving of a hooked import with a second import. non-trivial = some run reused a cache file of an earlier '
                      'run AND (two runs differ in hook state of a module OR an edit made a cached file stale); distinct = distinct histories')
    info = dict(zip(*[iter(parse_sexp(lean_driver(['(c16info)'], 'C16')[0])[1])] * 2))
    ex.extra['extracted_recipe'] = {'never_stock_name': info['nonempty'] == '1', 'marker_determines_shape': info['injective'] == '1',
                                    'is_legacy_constant_marker': info['legacy'] == '1', 'is_repaired_marker': info['fixed'] == '1',
                                    'observed_shapes': int(info['observed'])}
    lab = Lab()
    rng = random.Random(seed)
    t0 = time.time()
    phase = {}

    def mark(name):
        nonlocal t0
        phase[name] = round(time.time() - t0, 1)
        t0 = time.time()
    try:
        warmup(lab, ex)
        mark('warmup')
        hists = (exhaustive_pairs() + directed_concurrent() if exhaustive else []) + [gen_history(rng, conc_rate) for _ in range(n)]
        with ThreadPoolExecutor(WORKERS) as pool:
            list(pool.map(lambda k: lab.oracle(*k), [(ci, v) for v in range(4) for ci in [None] + list(range(NCONF))]))
            mark('oracle')
            reals = list(pool.map(lambda h: run_real(lab, h), hists))
            mark('real_runs')
            models = run_models(list(zip(hists, reals)))
            mark('model')
            seen, nontrivial, shrunk_classes = set(), set(), {}
            kinds = {'runs': 0, 'seq': 0, 'conc': 0, 'conc_paused': 0, 'imports': 0, 'reused': 0, 'compiled': 0, 'hooked_imports': 0}
            confs_used: dict = {}
            for h, real, mo in zip(hists, reals, models):
                ex.evaluations += len(h)
                ex.traces_validated += len(h)
                key = json.dumps(h, sort_keys=True)
                reused_any = False
                for r, res in zip(h, real):
                    kinds['runs'] += 1
                    kinds[r['kind']] += 1
                    kinds['conc_paused'] += bool(res.get('paused'))
                    for p, ci in r['hooks']:
                        confs_used[conf_label(ci)] = confs_used.get(conf_label(ci), 0) + 1
                    for imp in res['imports']:
                        kinds['imports'] += 1
                        kinds['hooked_imports'] += conf_of(r, imp['mod']) is not None
                        if imp['event'].get('reused'):
                            kinds['reused'] += 1
                            reused_any = True
                        else:
                            kinds['compiled'] += 1
                if key not in seen:
                    seen.add(key)
                    changed = any(conf_of(a, m) != conf_of(b, m) for a in h for b in h for m in T.MODULES) or any(r['edits'] for r in h)
                    if reused_any and changed:
                        nontrivial.add(key)
                fails = property_failures(lab, h, real)
                for kind in sorted({f[1] for f in fails}):
                    cls = (kind, any(r['kind'] == 'conc' for r in h))
                    shrunk_classes.setdefault(cls, []).append(h)
                diffs = correspondence(lab, h, real, mo)
                if diffs:
                    ex.corr_diffs.append({'history': describe(h), 'raw_history': h, 'first_differences': diffs[:3]})
            ex.extra['property_failures_before_shrinking'] = {f'{k}{"/concurrent" if c else ""}': len(v) for (k, c), v in shrunk_classes.items()}
            # shrink a few representatives of every failure class (shortest first); distinct shrunk keys are distinct reports
            for (kind, _), hs in sorted(shrunk_classes.items()):
                keys_here = set()
                for h in sorted(hs, key=lambda h: (len(h), sum(len(r['imports']) for r in h)))[:max_shrinks]:
                    hs_, real_, fs_ = shrink(lab, h, kind, pool)
                    k = canonical_key(hs_, fs_)
                    if k in keys_here:
                        continue
                    keys_here.add(k)
                    i, _, mod, detail = fs_[0]
                    ex.failures.append(Failure(
                        key=k,
                        what=f'{describe(hs_)}: in run #{i + 1} module {mod} ' +
                             ('does not behave as its current configuration applied to the current source '
                              '(= the same run on an empty cache)' if kind == 'current-conf' else 'cache file content contradicts its name') +
                             f': {json.dumps(detail, sort_keys=True)[:600]}',
                        replay={'history': hs_, 'history_readable': describe(hs_), 'kind': kind, 'failing_run': i + 1, 'module': mod,
                                'detail': detail, 'unshrunk_history': h}))
            mark('compare_and_shrink')
        ex.distinct_nontrivial = len(nontrivial)
        ex.extra['phase_seconds'] = phase
        ck.log(f'[C16] explore: histories={len(hists)} runs={ex.evaluations} interpreter_runs={lab.runs} phases={phase}')
        ex.extra['distribution'] = kinds
        ex.extra['configurations_used'] = confs_used
        ex.extra['distinct_histories'] = len(seen)
        ex.extra['interpreter_runs_incl_oracle_and_shrinking'] = lab.runs
        ex.samples = [{'history': describe(h)} for h in hists[-3:]]
    finally:
        lab.close()
    return ex


def replay(data: dict) -> int:
    xpyc.extract()
    lab = Lab()
    try:
        ex = Explore()
        res = warmup(lab, ex)
        if data.get('scenario') == 'nested':
            bad = [f for f in res.get('foreign_marked', []) if not f.get('names')]
            print('scenario: one hooked import of pkg.ma (default configuration) on an empty cache')
            print('expected: no module outside the hooked package is cached under a beartype marker')
            print('actual:  ', [(f['file'], f['names']) for f in res.get('foreign_marked', [])])
            return 1 if bad else 0
        h = data['history']
        real = run_real(lab, h)
        fails = property_failures(lab, h, real)
        model = run_models([(h, real)])[0]
        diffs = correspondence(lab, h, real, model)
        for line in describe(h):
            print('  ', line)
        for i, kind, mod, detail in fails:
            print(f'replay: run #{i + 1} module {mod} [{kind}] expected = same run on an empty cache; {json.dumps(detail, sort_keys=True)}')
        print('model (extracted recipe) vs real:', 'agree' if not diffs else json.dumps(diffs[:2], default=str)[:1500])
        if not fails:
            print('replay: every module behaves as on an empty cache and every cache file matches its name (not reproduced)')
        return 1 if fails else 0
    finally:
        lab.close()


def main(ck: Check) -> int:
    quick = ck.tier == 'quick'
    xpyc.extract()
    proof = ck.prove(MODULE, PROP_FILE)
    ex = explore(ck, n=110 if quick else 3000, seed=ck.seed, conc_rate=0.15)
    ck.decide(proof, ex, deep_search=lambda: explore(ck, n=1500, seed=ck.seed + 1, conc_rate=0.25, exhaustive=True))
    rec = ex.extra.get('extracted_recipe', {})
    ck.evidence(proof, ex,
                level_note='invariant proof over every history of runs (Lean) + real subprocess histories compared with the empty-cache '
                           'oracle and, lock-step, with the model under the recipe extracted on this run; '
                           f'marker determines AST shape on this tree: {rec.get("marker_determines_shape")} '
                           '(hypothesis of C16_current_conf_extracted); concurrent clause: partial (serial schedules), negation witnesses '
                           'C16_concurrent_counterexample* exhibited on the real code with a forced interleaving',
                assumptions=['CPython 3.12 import system and .pyc stamping modelled (SourceLoader.get_code: name, probe, validate stamp, compile, write), not verified',
                             'source stamp (mtime, size) abstracted to a version number; the harness gives every version its own mtime',
                             'concurrency: imports are atomic at the five steps patch / name / probe / compile+write / restore; two threads; '
                             'real interleavings forced at two points (after the patch, after the missed probe)',
                             'hooked configurations always differ from BEARTYPE_CONF_DEFAULT (checked per run): the conf= keyword is always emitted',
                             'python -O (hook disabled by beartype) and hash-based pycs not driven'])
    return ck.finish()
