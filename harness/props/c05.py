"""C05 — the import hook preserves program meaning and equals writing the checks by hand (DESIGN §4 C05).

Two ties of the Lean model (`Core/ClawAst.lean`, theorems in `Props/C05.lean`) to the real code, both on every run:

(a) transformer tie (in-process): grammar-generated modules -> `ast.parse` -> the REAL BeartypeNodeTransformer (built as
    `source_to_code` builds it) -> both ASTs abstracted to the mini-AST (`harness/impl/c05_ast.py`) -> compared with the
    model's `xform` through the line protocol. Independently of the model, the property clauses are evaluated on the real
    output: only additions (erase), import position, locations of added/original nodes, no double decoration, `compile()`
    succeeds, and "equals the hand-written rule" (the model's `byHand` is the expected side).
(b) behaviour tie (fresh interpreter per run): each runnable program is imported unhooked, hooked (`beartype_package`) and
    hand-decorated (`byHand` rebuilt as a real AST and `ast.unparse`d to source); stdout, canonicalised final globals,
    exception class, traceback line numbers (mapped back through the unparse line map), warnings and the reached/missed
    marks of the deliberately offending statements are compared.
"""
from __future__ import annotations

import ast
import collections
import concurrent.futures as cf
import copy
import hashlib
import json
import os
import random
import shutil
import subprocess
import tempfile
import time
from pathlib import Path

from ..common import LEAN, PY, REPO, VERIF, Check, Explore, Failure, lean_build, lean_driver, parse_sexp, run, sexp
from ..impl import c05_ast as A
from ..impl import c05_gen as G

MODULE = 'BearVerif.Props.C05'
PROP_FILE = LEAN / 'BearVerif/Props/C05.lean'
RUNNER = VERIF / 'harness/impl/c05_run.py'
MODNAME = 'pk.m'

KEY_SUB = 'C05:annassign:subscript-target-unchecked'
KEY_ATTR = 'C05:annassign:attribute-target-impure-object'
KEY_ANN = 'C05:annassign:impure-annotation-evaluated-by-check'

PLACES = ['FIRST', 'LAST', 'LAST_BEFORE_DECOR_HOSTILE']


# ---------------------------------------------------------------------------
# configurations
# ---------------------------------------------------------------------------
def make_conf(kw: dict, hookable: bool):
    from beartype import BeartypeConf, BeartypeDecorPlace
    from beartype.claw._package._clawpkgmake import make_conf_hookable
    k = dict(kw)
    for n in ('claw_decor_place_func', 'claw_decor_place_type'):
        if n in k:
            k[n] = BeartypeDecorPlace[k[n]]
    c = BeartypeConf(**k)
    return make_conf_hookable(c) if hookable else c


def rand_conf(rng: random.Random) -> tuple[dict, bool]:
    """all settings of claw_is_pep526 / claw_decor_place_func / claw_decor_place_type, default vs non-default"""
    x = rng.random()
    if x < 0.12:
        return {}, False                                  # BEARTYPE_CONF_DEFAULT itself: no `conf=` keyword
    if x < 0.24:
        return {}, True                                   # what beartype_package() makes of the default
    kw = {}
    if rng.random() < 0.5:
        kw['claw_is_pep526'] = rng.random() < 0.5
    if rng.random() < 0.7:
        kw['claw_decor_place_func'] = rng.choice(PLACES)
    if rng.random() < 0.7:
        kw['claw_decor_place_type'] = rng.choice(PLACES)
    if rng.random() < 0.2:
        kw['is_pep484_tower'] = True
    return kw, rng.random() < 0.7


def norm(x):
    """python lists/ints -> the all-strings form `parse_sexp` returns"""
    if isinstance(x, (list, tuple)):
        return [norm(y) for y in x]
    if isinstance(x, bool):
        return '1' if x else '0'
    return str(x)


# ---------------------------------------------------------------------------
# the model
# ---------------------------------------------------------------------------
_NATIVE: dict = {}


def native_driver() -> str | None:
    """The model driver compiled to native code (same Lean source as `lean --run MainC05.lean`, ~10x faster).
    Uses the `c05driver` lean_exe target when lean/lakefile.toml declares it; otherwise compiles the C files lake
    emitted for the driver's modules with `leanc` into lean/.lake/build/bin (cached by content hash)."""
    if 'exe' in _NATIVE:
        return _NATIVE['exe']
    _NATIVE['exe'] = None
    try:
        ok, log = lean_build(['BearVerif.Driver.C05', 'BearVerif.Core.Loop'])
        if not ok:
            return None
        ir = LEAN / '.lake/build/ir/BearVerif'
        cs = [ir / 'Driver/C05.c', ir / 'Core/ClawAst.c', ir / 'Core/Sexp.c', ir / 'Core/Loop.c']
        main = LEAN / 'MainC05.lean'
        h = hashlib.sha1(b''.join(f.read_bytes() for f in cs + [main])).hexdigest()[:16]
        exe = LEAN / '.lake/build/bin' / f'c05driver-{h}'
        if not exe.exists():
            tmp = Path(tempfile.mkdtemp(prefix='c05drv_'))
            try:
                rc, out, err = run(['lake', 'env', 'lean', '-c', str(tmp / 'MainC05.c'), 'MainC05.lean'], cwd=LEAN, timeout=600)
                if rc != 0:
                    return None
                rc, out, err = run(['leanc', '-O2', '-o', str(tmp / 'drv'), str(tmp / 'MainC05.c')] + [str(c) for c in cs],
                                   cwd=LEAN, timeout=900)
                if rc != 0:
                    return None
                exe.parent.mkdir(parents=True, exist_ok=True)
                shutil.move(str(tmp / 'drv'), str(exe))
            finally:
                shutil.rmtree(tmp, ignore_errors=True)
        _NATIVE['exe'] = str(exe)
    except Exception:
        _NATIVE['exe'] = None
    return _NATIVE['exe']


def driver_lines(lines: list[str]) -> list[str]:
    if '"c05driver"' in (LEAN / 'lakefile.toml').read_text():
        return lean_driver(lines, 'C05', exe='c05driver')
    exe = native_driver()
    if exe is None:
        return lean_driver(lines, 'C05')
    rc, out, err = run([exe], cwd=LEAN, input='\n'.join(lines) + '\n', timeout=3000)
    res = out.splitlines()
    if rc != 0 or len(res) != len(lines):
        raise RuntimeError(f'native driver rc={rc} lines={len(res)}/{len(lines)} stderr={err[-1000:]}')
    return res


def lean_batch(items: list[tuple[list, list]]) -> list[dict]:
    """[(conf sexp, module mini-AST)] -> [{raises, xform, byhand, obs}]"""
    if not items:
        return []
    lines = [sexp(['c05', c, m]) for c, m in items]
    out = []
    for line in driver_lines(lines):
        v = parse_sexp(line)
        if v[0] != 'ok':
            raise RuntimeError(f'model driver rejected a request: {line[:200]}')
        d = {x[0]: x[1:] for x in v[1]}
        out.append({'raises': d['raises'][0] == '1', 'xform': d['xform'][0], 'byhand': d['byhand'][0], 'obs': d['obs']})
    return out


# ---------------------------------------------------------------------------
# the property clauses as independent predicates over (original, real output) mini-ASTs
# ---------------------------------------------------------------------------
def strip_added(body):
    out = []
    for s in body:
        k = s[0]
        if k in ('bi', 'die'):
            continue
        if k == 'fn':
            s = s[:4] + [[d for d in s[4] if d[0] != 'bt']] + s[5:7] + [strip_added(s[7])]
        elif k == 'cl':
            s = s[:3] + [[d for d in s[3] if d[0] != 'bt']] + [s[4]] + [strip_added(s[5])]
        elif k == 'cp':
            s = s[:4] + [[strip_added(b) for b in s[4]]]
        out.append(s)
    return out


def count_kind(body, kind):
    n = 0
    for s in body:
        if s[0] == kind:
            n += 1
        elif s[0] == 'fn':
            n += count_kind(s[7], kind)
        elif s[0] == 'cl':
            n += count_kind(s[5], kind)
        elif s[0] == 'cp':
            n += sum(count_kind(b, kind) for b in s[4])
    return n


def clause_import_pos(orig, out):
    """-> None | (readable, shape)"""
    p = 0
    while p < len(orig) and orig[p][0] in ('doc', 'fu'):
        p += 1
    nimp = count_kind(out, 'bi')
    if p == len(orig):
        if nimp == 0:
            return None
        return f'import added to a module holding only docstring/__future__ statements ({nimp})', 'prefix-only-module'
    if nimp != 1:
        return f'{nimp} imports added', f'count-{nimp}'
    idx = [i for i, s in enumerate(out) if s[0] == 'bi']
    if not idx:
        return 'import added below the top level', 'nested'
    i = idx[0]
    if i != p:
        if i < p:
            return f'import at index {i}, before a docstring/__future__ statement (expected index {p})', 'inside-prefix'
        return f'import at index {i}, after another statement (expected index {p})', 'after-other-statement'
    return None


def clause_no_double(body, in_class=False, path=''):
    for s in body:
        if s[0] == 'fn':
            n = sum(1 for d in s[4] if d[0] == 'bt')
            want = 1 if (s[5] == '1' and not in_class) else 0
            if n != want:
                what = 'method' if in_class else ('annotated function' if s[5] == '1' else 'unannotated function')
                return f'{path}{what} carries {n} added decorators, expected {want}', f'{path}{what}:{n}'
            r = clause_no_double(s[7], False, path + ('afn>' if s[2] == '1' else 'fn>'))
        elif s[0] == 'cl':
            n = sum(1 for d in s[3] if d[0] == 'bt')
            if n != 1:
                return f'{path}class carries {n} added decorators, expected 1', f'{path}class:{n}'
            r = clause_no_double(s[5], True, path + 'cl>')
        elif s[0] == 'cp':
            r = None
            for b in s[4]:
                r = r or clause_no_double(b, in_class, path + 'cp>')
        else:
            r = None
        if r:
            return r
    return None


def clause_lines(body, path=''):
    """mini-level location clause (the deep col/end offsets are checked while abstracting)"""
    prev = None
    for i, s in enumerate(body):
        k = s[0]
        if k == 'bi':
            nxt = body[i + 1] if i + 1 < len(body) else None
            if nxt is None or nxt[1] != s[1]:
                return f'{path}import carries line {s[1]}, its sibling is at {nxt and nxt[1]}', 'import'
        elif k == 'die':
            if prev is None or prev[0] != 'aa' or prev[1] != s[1]:
                return f'{path}check carries line {s[1]}, the assignment before it is at {prev and prev[1]}', 'check'
            if prev[2] != s[2] or prev[3] != s[3]:
                return f'{path}check re-reads {s[2]}/{s[3]}, the assignment wrote {prev[2]}/{prev[3]}', 'check-args'
        elif k in ('fn', 'cl'):
            decos = s[4] if k == 'fn' else s[3]
            for d in decos:
                if d[0] == 'bt' and d[1] != s[1]:
                    return f'{path}added decorator carries line {d[1]}, its definition is at {s[1]}', 'decorator'
            r = clause_lines(s[7] if k == 'fn' else s[5], path + k + '>')
            if r:
                return r
        elif k == 'cp':
            for b in s[4]:
                r = clause_lines(b, path + 'cp>')
                if r:
                    return r
        prev = s
    return None


def branch_stats(body, stats, in_class=False, in_method=False, place=None):
    """which corners of the rule the expected (hand-written) output exercises"""
    for s in body:
        k = s[0]
        if k in ('fn', 'cl'):
            decos = s[4] if k == 'fn' else s[3]
            pos = [i for i, d in enumerate(decos) if d[0] == 'bt']
            if pos:
                i, n = pos[0], len(decos)
                if n > 1:
                    stats['added decorator ' + ('first' if i == 0 else 'last' if i == n - 1 else 'inside') + ' of an existing stack'] += 1
            if k == 'fn':
                if in_class:
                    stats['method left to its class' if s[5] == '1' else 'unannotated method'] += 1
                elif in_method and s[5] == '1':
                    stats['function nested in a method decorated'] += 1
                branch_stats(s[7], stats, False, in_class or in_method)
            else:
                stats['class nested in ' + ('class' if in_class else 'function' if in_method else 'module/other')] += 1
                branch_stats(s[5], stats, True, False)
        elif k == 'cp':
            for b in s[4]:
                branch_stats(b, stats, in_class, in_method)
            if in_class:
                stats['compound statement in a class body'] += 1
        elif k == 'aa':
            if in_class:
                stats['annotated assignment in a class body (unchecked)'] += 1
            elif s[5] == 'none':
                stats['annotated name without value (unchecked)'] += 1
        elif k == 'die':
            stats['check after ' + {'n': 'name', 'a': 'attribute', 's': 'subscript'}[s[2][0]] + ' target'] += 1


def kind_of(s):
    k = s[0]
    if k == 'fn':
        return 'afn' if s[2] == '1' else 'fn'
    if k == 'aa':
        return 'aa-' + {'n': 'name', 'a': 'attr', 's': 'sub'}[s[2][0]]
    if k == 'cp':
        return 'cp-' + s[2]
    return k


def first_diff(exp, got, path=''):
    """(readable, shape) of the first difference between expected and real mini-AST bodies"""
    for i in range(max(len(exp), len(got))):
        e = exp[i] if i < len(exp) else None
        g = got[i] if i < len(got) else None
        if e == g:
            continue
        if e is not None and e[0] in ('die', 'bi') and (g is None or g[0] != e[0]):
            prev = exp[i - 1] if i else None
            tk = kind_of(prev) if prev is not None else '-'
            return (f'{path or "module"}: the {"check" if e[0] == "die" else "import"} expected after/before line {e[1]} '
                    f'is missing'), f'{path}{tk}:missing-{e[0]}'
        if g is not None and g[0] in ('die', 'bi') and (e is None or e[0] != g[0]):
            prev = got[i - 1] if i else None
            tk = kind_of(prev) if prev is not None else '-'
            return f'{path or "module"}: unexpected {g[0]} at line {g[1]}', f'{path}{tk}:unexpected-{g[0]}'
        if e is None or g is None or e[0] != g[0]:
            return f'{path or "module"}: statement {i}: expected {e and kind_of(e)}, got {g and kind_of(g)}', f'{path}stmt-kind'
        k = e[0]
        if k in ('fn', 'cl'):
            de, dg = (e[4], g[4]) if k == 'fn' else (e[3], g[3])
            if de != dg:
                pe = [j for j, d in enumerate(de) if d[0] == 'bt']
                pg = [j for j, d in enumerate(dg) if d[0] == 'bt']

                def cat(pos, n):
                    if len(pos) != 1:
                        return f'{len(pos)}-added'
                    return 'only' if n == 1 else 'first' if pos[0] == 0 else 'last' if pos[0] == n - 1 else 'inside'
                shape = f'{cat(pe, len(de))}-vs-{cat(pg, len(dg))}'
                if pe == pg and len(de) == len(dg):
                    shape = 'added-decorator-fields'
                return (f'{path}{kind_of(e)} {e[3] if k == "fn" else e[2]!r} line {e[1]}: decorators expected '
                        f'{[d[0] for d in de]} (added at {pe}), got {[d[0] for d in dg]} (added at {pg})',
                        f'{path}{kind_of(e)}:decorators:{shape}')
            be, bg = (e[7], g[7]) if k == 'fn' else (e[5], g[5])
            if e[:7 if k == 'fn' else 5] != g[:7 if k == 'fn' else 5]:
                return f'{path}{kind_of(e)} line {e[1]}: header differs', f'{path}{kind_of(e)}:header'
            r = first_diff(be, bg, path + kind_of(e) + '>')
            if r:
                return r
        elif k == 'cp':
            if e[:4] != g[:4] or len(e[4]) != len(g[4]):
                return f'{path}compound line {e[1]}: header differs', f'{path}cp:header'
            for be, bg in zip(e[4], g[4]):
                r = first_diff(be, bg, path + kind_of(e) + '>')
                if r:
                    return r
        else:
            return f'{path or "module"}: {kind_of(e)} at line {e[1]} differs: expected {e}, got {g}', f'{path}{kind_of(e)}:fields'
    return None


# ---------------------------------------------------------------------------
# (a) transformer tie
# ---------------------------------------------------------------------------
def real_transform(source: str, kw: dict, hookable: bool):
    conf = make_conf(kw, hookable)
    r = A.transform(source, conf, MODNAME)
    return conf, r


def judge_transform(source, kw, hookable, r, conf_sx, model):
    """-> (failure (key, what, detail) | None, corr_diff | None). `r` = A.transform result, `model` = lean_batch item."""
    orig = norm(r['orig'])
    if r['raised'] is not None:
        if model['raises']:
            return None, None                   # deliberate BeartypeClawAstImportException (beforelist misuse), as modelled
        return (f'C05:transform-raises:{r["raised"]}',
                f'the transformer raises {r["raised"]} on a syntactically valid module', {}), None
    out = norm(r['out'])
    if r['compile_error']:
        return (f'C05:compile:{r["compile_error"].split(":")[0]}',
                f'the transformed module does not compile: {r["compile_error"]}', {}), None
    for p in r['problems']:
        if p.startswith('loc:'):
            return (f'C05:lines:{p.split(":")[1]}', f'location metadata: {p[4:]}', {}), None
        if p.startswith('PEP 695'):
            return None, None
        return (f'C05:added-node:{p.split()[0]}-{p.split()[1]}', p, {}), None
    if strip_added(out) != orig:
        d = first_diff(orig, strip_added(out))
        return (f'C05:erase:{d[1]}', f'removing the added nodes does not give the original module back: {d[0]}', {}), None
    e = clause_import_pos(orig, out)
    if e:
        return (f'C05:import-pos:{e[1]}', e[0], {}), None
    e = clause_lines(out)
    if e:
        return (f'C05:lines:{e[1]}', e[0], {}), None
    e = clause_no_double(out)
    if e:
        return (f'C05:no-double:{e[1]}', e[0], {}), None
    if model['raises']:
        return None, {'what': 'model says the transformer raises, the real one does not', 'source': source}
    if out != model['byhand']:
        d = first_diff(model['byhand'], out)
        key = KEY_SUB if d[1].endswith('aa-sub:missing-die') else f'C05:eq-byhand:{d[1]}'
        return (key, f'hooked AST differs from the hand-written rule: {d[0]}', {'shape': d[1]}), None
    if out != model['xform']:
        d = first_diff(model['xform'], out)
        return None, {'what': f'model xform differs from the real transformer: {d[0]}', 'shape': d[1], 'source': source}
    return None, None


def shrink_candidates(source: str):
    """sources with one statement removed (or one compound/def/class replaced by its first body)"""
    try:
        tree = ast.parse(source)
    except SyntaxError:
        return
    slots = []
    for node in ast.walk(tree):
        for name in ('body', 'orelse', 'finalbody'):
            lst = getattr(node, name, None)
            if isinstance(lst, list) and lst and isinstance(lst[0], ast.stmt):
                for i in range(len(lst)):
                    slots.append((node, name, i))
    for node, name, i in slots:
        lst = getattr(node, name)
        saved = list(lst)
        s = lst[i]
        variants = [[]]
        inner = getattr(s, 'body', None)
        if isinstance(inner, list) and inner and isinstance(inner[0], ast.stmt):
            variants.append(list(inner))
        if getattr(s, 'decorator_list', None):
            variants.append('nodeco')
        for v in variants:
            if v == 'nodeco':
                sd = list(s.decorator_list)
                for j in range(len(sd)):
                    s.decorator_list = sd[:j] + sd[j + 1:]
                    yield _unparse(tree)
                s.decorator_list = sd
                continue
            new = saved[:i] + v + saved[i + 1:]
            if not new:
                if name != 'body':
                    new = []
                else:
                    new = [ast.Pass()]
            setattr(node, name, new)
            src = _unparse(tree)
            setattr(node, name, saved)
            if src is not None:
                yield src


def _unparse(tree):
    try:
        src = ast.unparse(ast.fix_missing_locations(copy.deepcopy(tree))) + '\n'
        compile(src, '<shrink>', 'exec', dont_inherit=True)
        return src
    except Exception:
        return None


def transform_keys(sources, kw, hookable, schema):
    """failure key (or None) of each source, one model batch"""
    rs, items = [], []
    for s in sources:
        try:
            conf, r = real_transform(s, kw, hookable)
        except SyntaxError:
            rs.append(None)
            continue
        rs.append((conf, r))
        items.append((A.conf_sx(conf, schema), r['orig']))
    models = iter(lean_batch(items))
    keys = []
    for s, cr in zip(sources, rs):
        if cr is None:
            keys.append(None)
            continue
        f, _ = judge_transform(s, kw, hookable, cr[1], None, next(models))
        keys.append(f[0] if f else None)
    return keys


def key_class(key: str) -> str:
    """clause + the innermost two path elements of the shape: what must be preserved while shrinking (the outer
    nesting is exactly what shrinking removes; the final key is recomputed from the shrunk module)"""
    parts = key.split(':')
    rest = ':'.join(parts[2:])
    return parts[1] + '|' + rest.split('>')[-1]


def shrink_transform(source, kw, hookable, schema, key, rounds=40):
    cur, cls = source, key_class(key)
    for _ in range(rounds):
        cands = [c for c in dict.fromkeys(x for x in shrink_candidates(cur) if x) if len(c) < len(cur)][:400]
        if not cands:
            break
        keys = transform_keys(cands, kw, hookable, schema)
        nxt = [c for c, k in zip(cands, keys) if k is not None and key_class(k) == cls]
        if not nxt:
            break
        cur = min(nxt, key=len)
    return cur


def explore_transform(ck, seed, n_struct, n_enum_stmts, extra_sources=(), shrink=True, enum3=False):
    """-> (Explore-like dict)"""
    rng = random.Random(seed * 7919 + 5)
    schema = A.real_schema()
    cases = []          # (source, kw, hookable)
    for i in range(n_struct):
        src = G.gen_structural(rng, misuse=(i % 25 == 0))
        kw, hk = rand_conf(rng)
        cases.append((src, kw, hk, 'struct'))
    confs_enum = [({}, True), ({'claw_decor_place_func': 'FIRST', 'claw_decor_place_type': 'FIRST'}, True),
                  ({'claw_is_pep526': False, 'claw_decor_place_type': 'LAST_BEFORE_DECOR_HOSTILE'}, False), ({}, False)]
    for j, src in enumerate(G.enum_small(n_enum_stmts)):
        kw, hk = confs_enum[j % len(confs_enum)]
        cases.append((src, kw, hk, 'enum'))
    if enum3:
        for j, src in enumerate(G.enum_small(3, small=True)):
            kw, hk = confs_enum[(j // 3) % len(confs_enum)]
            cases.append((src, kw, hk, 'enum3'))
    for src, kw in extra_sources:
        cases.append((src, {k: v for k, v in kw.items()}, True, 'runnable'))
    done, items = [], []
    skipped = 0
    for src, kw, hk, origin in cases:
        try:
            compile(src, '<c05>', 'exec', dont_inherit=True)
        except SyntaxError:
            skipped += 1
            continue
        conf, r = real_transform(src, kw, hk)
        done.append((src, kw, hk, origin, r))
        items.append((A.conf_sx(conf, schema), r['orig']))
    models = lean_batch(items)
    res = {'evaluations': len(done), 'skipped_uncompilable': skipped, 'failures': [], 'corr': [], 'shapes': set(),
           'nontrivial': set(), 'kinds': {}, 'raised': 0, 'by_origin': {}, 'conf_cover': set(), 'samples': [],
           'branches': collections.Counter()}
    seen_keys = {}
    for (src, kw, hk, origin, r), (csx, _), model in zip(done, items, models):
        res['by_origin'][origin] = res['by_origin'].get(origin, 0) + 1
        res['conf_cover'].add((csx[0], csx[1], csx[2], csx[3]))
        if r['raised']:
            res['raised'] += 1
        h = hashlib.sha1(sexp(r['orig']).encode()).hexdigest()
        res['shapes'].add(h)
        out = model['byhand']
        nadd = count_kind(out, 'die') + sexp(out).count('(bt ')
        nested = any(s[0] in ('fn', 'cl', 'cp') and (count_kind(s[7] if s[0] == 'fn' else s[5] if s[0] == 'cl' else
                     [x for b in s[4] for x in b], 'fn') + count_kind(s[7] if s[0] == 'fn' else s[5] if s[0] == 'cl' else
                     [x for b in s[4] for x in b], 'aa') + count_kind(s[7] if s[0] == 'fn' else s[5] if s[0] == 'cl' else
                     [x for b in s[4] for x in b], 'cl')) > 0 for s in norm(r['orig']))
        if nadd >= 2 and nested:
            res['nontrivial'].add(h)
        for s in norm(r['orig']):
            res['kinds'][kind_of(s)] = res['kinds'].get(kind_of(s), 0) + 1
        branch_stats(out, res['branches'])
        f, c = judge_transform(src, kw, hk, r, csx, model)
        if c:
            c['conf'] = kw
            c['hookable'] = hk
            res['corr'].append(c)
        if f:
            key, what, detail = f
            seen_keys.setdefault(key_class(key), []).append((src, kw, hk, what, detail, key))
        if len(res['samples']) < 3 and origin == 'struct' and nadd >= 2:
            res['samples'].append({'source': src[:600], 'conf': kw, 'hookable': hk})
    for cls, lst in list(seen_keys.items())[:8]:
        src, kw, hk, what, detail, key = min(lst, key=lambda t: len(t[0]))
        small = shrink_transform(src, kw, hk, schema, key) if shrink else src
        conf, r2 = real_transform(small, kw, hk)
        m2 = lean_batch([(A.conf_sx(conf, schema), r2['orig'])])[0]
        f2, _ = judge_transform(small, kw, hk, r2, None, m2)
        if f2 and key_class(f2[0]) == cls:
            key, what2 = f2[0], f2[1]
        else:
            small, what2 = src, what
        res['failures'].append(Failure(
            key=key, what=f'[{len(lst)} module(s)] {what2}; smallest module:\n' + small.rstrip(),
            replay={'kind': 'transform', 'source': small, 'conf': kw, 'hookable': hk, 'oracle': key,
                    'unshrunk_source': src}))
    return res


# ---------------------------------------------------------------------------
# (b) behaviour tie
# ---------------------------------------------------------------------------
HEADER = '''from beartype import beartype as _bh_beartype, BeartypeConf as _bh_Conf, BeartypeDecorPlace as _bh_Place
from beartype.door import die_if_unbearable as _bh_die
from beartype.roar import BeartypeClawDecorWarning as _bh_W
_bh_conf = _bh_Conf({kwargs}warning_cls_on_decorator_exception=_bh_W)
'''


def conf_kwargs_src(kw: dict) -> str:
    parts = []
    for k, v in kw.items():
        parts.append(f'{k}=_bh_Place.{v}, ' if k.startswith('claw_decor_place') else f'{k}={v!r}, ')
    return ''.join(parts)


def build_byhand(source: str, byhand_body, kw: dict):
    """Lean `byHand` output (mini-AST) + the original source -> (hand-decorated source, {new line -> original line})"""
    tree = ast.parse(source)
    ab = A.Abstractor(MODNAME)
    ab.module(tree, create=True)

    def enode(e):
        return copy.deepcopy(ab.nodes[int(e[1])])

    def stamp(node, line):
        for n in ast.walk(node):
            if 'lineno' in getattr(n, '_attributes', ()):
                n.lineno = n.end_lineno = int(line)
                n.col_offset = n.end_col_offset = 0
        return node

    def deco(d, real_decos):
        if d[0] == 'bt':
            src = '_bh_beartype(conf=_bh_conf)' if d[2] == '1' else '_bh_beartype'
            return stamp(ast.parse(src, mode='eval').body, d[1])
        return real_decos[int(d[1][1])]

    def build(mini, real):
        out = []
        it = iter(real)
        for ms in mini:
            k = ms[0]
            if k == 'bi':
                hdr = ast.parse(HEADER.format(kwargs=conf_kwargs_src(kw))).body
                out.extend(stamp(h, ms[1]) for h in hdr)
                continue
            if k == 'die':
                t = ms[2]
                if t[0] == 'n':
                    pith = ast.Name(t[1], ast.Load())
                elif t[0] == 'a':
                    pith = ast.Attribute(enode(t[1]), t[2], ast.Load())
                else:
                    pith = ast.Subscript(enode(t[1]), enode(t[2]), ast.Load())
                kws = [ast.keyword('conf', ast.Name('_bh_conf', ast.Load()))] if ms[4] == '1' else []
                call = ast.Expr(ast.Call(ast.Name('_bh_die', ast.Load()), [pith, enode(ms[3])], kws))
                out.append(stamp(call, ms[1]))
                continue
            rs = next(it)
            if k in ('fn', 'cl'):
                decos = ms[4] if k == 'fn' else ms[3]
                by_id = {ab.ids[id(d)][1]: d for d in rs.decorator_list}
                rs.decorator_list = [deco(d, by_id) for d in decos]
                rs.body = build(ms[7] if k == 'fn' else ms[5], rs.body)
            elif k == 'cp':
                bodies = iter(ms[4])
                for name, val in ast.iter_fields(rs):
                    if name in ('body', 'orelse', 'finalbody'):
                        setattr(rs, name, build(next(bodies), val))
                    elif name in ('handlers', 'cases'):
                        for h in val:
                            h.body = build(next(bodies), h.body)
            out.append(rs)
        assert next(it, None) is None, 'byHand dropped a statement'
        return out

    tree.body = build(byhand_body, tree.body)
    ast.fix_missing_locations(tree)
    text = ast.unparse(tree) + '\n'
    tree2 = ast.parse(text)
    linemap = {}
    for n1, n2 in zip(ast.walk(tree), ast.walk(tree2)):
        if type(n1) is not type(n2):
            raise RuntimeError('unparse/parse round trip changed the tree shape')
        if hasattr(n2, 'lineno') and hasattr(n1, 'lineno'):
            linemap.setdefault(n2.lineno, n1.lineno)
    return text, linemap


def write_tree(root: Path, module_source: str):
    for rel, src in G.STUBS.items():
        p = root / rel
        p.parent.mkdir(parents=True, exist_ok=True)
        p.write_text(src)
    (root / 'pk').mkdir(exist_ok=True)
    (root / 'pk/__init__.py').write_text('')
    (root / 'pk/m.py').write_text(module_source)


def run_one(root: Path, mode: str, kw: dict) -> dict:
    env = dict(os.environ)
    env.update({'PYTHONPATH': str(REPO), 'PYTHONDONTWRITEBYTECODE': '1', 'PYTHONHASHSEED': '0'})
    p = subprocess.run([PY, '-S', str(RUNNER), str(root), mode, json.dumps(kw)], capture_output=True, text=True, timeout=300,
                       env=env, cwd=str(root))
    if p.returncode != 0 or not p.stdout.strip():
        raise RuntimeError(f'runner failed rc={p.returncode}: {p.stderr[-1500:]}')
    return json.loads(p.stdout.splitlines()[-1])


def run_three(prog: dict, byhand_text: str, scratch: Path, tag: str) -> dict:
    r1 = scratch / f'{tag}_a'
    r2 = scratch / f'{tag}_b'
    write_tree(r1, prog['source'])
    write_tree(r2, byhand_text)
    res = {'plain': run_one(r1, 'plain', {}), 'hook': run_one(r1, 'hook', prog['conf']), 'hand': run_one(r2, 'plain', {})}
    if prog.get('id', 0) % 3 == 0 or prog.get('rehook'):
        # the same module imported a SECOND time in one process, under another hook: the first import (a decoy
        # configuration downgrading violations to warnings) must leave no trace in the second
        res['rehook'] = run_one(r1, 'rehook', prog['conf'])
    shutil.rmtree(r1, ignore_errors=True)
    shutil.rmtree(r2, ignore_errors=True)
    return res


def nometa(lines):
    return [x for x in lines if not x.startswith('#M ')]


def calls_of(lines):
    for x in reversed(lines):
        if x.startswith('calls ['):
            try:
                return ast.literal_eval(x[6:])
            except Exception:
                return None
    return None


VIOLATION = 'BeartypeCallHintViolation'   # common base of call/door violations


def is_violation(res):
    return res['exc'] is not None and any(c in ('BeartypeCallHintViolation', 'BeartypeDoorHintViolation')
                                          for c in res.get('exc_mro', []))


def judge_behaviour(prog: dict, runs: dict, linemap: dict, model_differs: bool):
    """-> list of (key, what). Oracles = the clauses of the property evaluated on the three real executions."""
    out = []
    plain, hook, hand = runs['plain'], runs['hook'], runs['hand']
    marks = {int(k): v for k, v in prog['marks'].items()}
    fam = prog['family']
    # the unhooked program itself must be a sane reference
    if plain['exc'] is not None:
        return [('HARNESS', f'generated program raises {plain["exc"]} unhooked: {plain.get("exc_msg")}')]
    # 1 the import is never broken by anything but a violation
    if hook['exc'] is not None and not is_violation(hook):
        out.append((f'C05:import-broken:{hook["exc"]}', f'hooked import raises {hook["exc"]}: {hook.get("exc_msg", "")[:200]}'))
        return out
    # 2 each original expression exactly once (call-counting side effects)
    dup = []
    cp, ch = calls_of(plain['stdout']), calls_of(hook['stdout'])
    if cp is not None and ch is not None and hook['exc'] is None and not hook['reached']:
        for t in dict.fromkeys(cp + ch):
            if cp.count(t) != ch.count(t):
                dup.append((t, cp.count(t), ch.count(t)))
    for t, a, b in dup[:1]:
        key = {'T': KEY_ATTR, 'A': KEY_ANN}.get(t[0], f'C05:once:{t[0]}')
        out.append((key, f'expression tagged {t!r} is evaluated {a}x unhooked but {b}x hooked'))
    # 3 violations are raised, at the first offending statement
    missed = [m for m in hook['missed'] if m in marks]
    if missed:
        m = missed[0]
        kind = marks[m]['kind']
        key = KEY_SUB if kind == 'ann-sub' else f'C05:violation-not-raised:{kind}'
        out.append((key, f'offending statement at line {marks[m]["line"]} ({kind}) ran to completion under the hook '
                         f'without a violation'))
    if hook['exc'] is not None and not missed:
        # every offending statement reached so far raised (none is in `missed`); the violation that ended the import must
        # come from one of the reached offending statements
        lines = sorted({marks[m]['line'] for m in hook['reached'] if m in marks})
        if not any(ln in hook['tb'] for ln in lines):
            out.append(('C05:violation-line', f'violation {hook["exc"]} raised with traceback lines {hook["tb"]}; the '
                                              f'offending statements reached are at lines {lines}'))
    # 4 nothing violates its hints -> hooked == unhooked
    if not hook['reached'] and not dup and fam in ('clean', 'impure', 'subscript', 'unsupported'):
        if hook['exc'] is not None:
            out.append((f'C05:false-alarm:{hook["exc"]}', f'hooked import raises {hook["exc"]} at lines {hook["tb"]} although '
                                                          f'nothing violates its hints: {hook.get("exc_msg", "")[:200]}'))
        elif nometa(hook['stdout']) != nometa(plain['stdout']):
            out.append(('C05:meaning:stdout', f'hooked stdout differs from unhooked: {_first_line_diff(nometa(plain["stdout"]), nometa(hook["stdout"]))}'))
        elif hook['globals'] != plain['globals']:
            ks = [k for k in set(hook['globals']) | set(plain['globals']) if hook['globals'].get(k) != plain['globals'].get(k)]
            out.append(('C05:meaning:globals', f'final globals differ hooked vs unhooked: {sorted(ks)[:5]}'))
    # 5 unsupported hints: left unchecked with a warning, siblings still checked (3 above), import not broken (1 above)
    if fam == 'unsupported':
        wn = [w for w in hook['warnings'] if w[0] == 'BeartypeClawDecorWarning' and not w[1].startswith(('Task', 'Runnable'))]
        for name in prog['unsupported']:
            if not any(name.split('.')[-1] + '()' in w[1] for w in wn):
                out.append(('C05:unsupported:no-warning', f'definition {name} with an unsupported hint got no BeartypeClawDecorWarning '
                                                          f'(warnings: {hook["warnings"][:3]})'))
                break
    # 6 hooked == hand-decorated
    hand_tb = [linemap.get(x, -x) for x in hand['tb']]
    diffs = []
    if hook['exc'] != hand['exc']:
        diffs.append(f'exception {hook["exc"]} vs {hand["exc"]}')
    elif hook['tb'] != hand_tb:
        diffs.append(f'traceback lines {hook["tb"]} vs {hand_tb}')
    if hook['stdout'] != hand['stdout']:
        diffs.append('stdout: ' + _first_line_diff(hand['stdout'], hook['stdout']))
    if hook['globals'] != hand['globals']:
        ks = [k for k in set(hook['globals']) | set(hand['globals']) if hook['globals'].get(k) != hand['globals'].get(k)]
        diffs.append(f'globals {sorted(ks)[:5]}')
    if [w[0] for w in hook['warnings']] != [w[0] for w in hand['warnings']]:
        diffs.append(f'warnings {[w[0] for w in hook["warnings"]]} vs {[w[0] for w in hand["warnings"]]}')
    if hook['missed'] != hand['missed'] or hook['reached'] != hand['reached']:
        diffs.append(f'marks reached/missed {hook["reached"]}/{hook["missed"]} vs {hand["reached"]}/{hand["missed"]}')
    if diffs:
        key = KEY_SUB if model_differs else 'C05:hooked-vs-byhand:' + diffs[0].split()[0].rstrip(':')
        out.append((key, 'hooked run differs from the hand-decorated run: ' + '; '.join(diffs)[:600]))
    # 7 a re-import under this hook after an import under ANOTHER hook == a first import under this hook
    re = runs.get('rehook')
    if re is not None:
        rd = [f for f in ('exc', 'tb', 'stdout', 'globals', 'reached', 'missed') if re.get(f) != hook.get(f)]
        if [w[0] for w in re['warnings']] != [w[0] for w in hook['warnings']]:
            rd.append('warnings')
        if rd:
            f0 = rd[0]
            out.append((f'C05:reimport-under-another-hook:{f0}',
                        f'importing the module under a hook with another configuration first changes what the import under this '
                        f'configuration does ({rd}): {f0} = {str(re.get(f0))[:200]} instead of {str(hook.get(f0))[:200]}'))
    return out


def _first_line_diff(a, b):
    for i in range(max(len(a), len(b))):
        x = a[i] if i < len(a) else '<end>'
        y = b[i] if i < len(b) else '<end>'
        if x != y:
            return f'line {i}: expected {x[:160]!r}, got {y[:160]!r}'
    return 'equal'


BEHAVIOUR_CONFS = [
    {}, {}, {'claw_is_pep526': False}, {'is_pep484_tower': True},
    {'claw_decor_place_func': 'FIRST'}, {'claw_decor_place_func': 'LAST'}, {'claw_decor_place_type': 'FIRST'},
    {'claw_decor_place_func': 'LAST', 'claw_decor_place_type': 'LAST_BEFORE_DECOR_HOSTILE', 'is_pep484_tower': True},
]


def gen_programs(seed: int, n: int) -> list[dict]:
    rng = random.Random(seed * 104729 + 11)
    fams = ['clean'] * 4 + ['violating'] * 4 + ['unsupported'] * 2 + ['impure'] + ['subscript']
    progs = []
    for i in range(n):
        conf = dict(rng.choice(BEHAVIOUR_CONFS))
        fam = fams[i % len(fams)]
        p = G.gen_runnable(rng, conf, fam)
        p['id'] = i
        progs.append(p)
    return progs


def run_programs(progs: list[dict], workers: int = 16):
    """-> [(prog, runs, linemap, model_differs, byhand_text)] (model: one batch; executions: subprocess pool)"""
    schema = A.real_schema()
    items = []
    for p in progs:
        conf = make_conf(p['conf'], True)
        tree = ast.parse(p['source'])
        ab = A.Abstractor(MODNAME)
        items.append((A.conf_sx(conf, schema), ab.module(tree, create=True)))
    models = lean_batch(items)
    scratch = Path(tempfile.mkdtemp(prefix='c05_'))
    try:
        jobs = []
        for p, m in zip(progs, models):
            text, linemap = build_byhand(p['source'], m['byhand'], p['conf'])
            jobs.append((p, text, linemap, m['byhand'] != m['xform']))
        with cf.ThreadPoolExecutor(max_workers=workers) as ex:
            futs = [ex.submit(run_three, p, text, scratch, f'p{i}') for i, (p, text, _, _) in enumerate(jobs)]
            out = []
            for (p, text, linemap, md), f in zip(jobs, futs):
                out.append((p, f.result(), linemap, md, text))
        return out
    finally:
        shutil.rmtree(scratch, ignore_errors=True)


def shrink_behaviour(prog: dict, key: str, rounds: int = 4):
    """drop top-level statements after the preamble while the same failure key persists (parallel candidates)"""
    cur = prog
    pre_len = len(ast.parse(G.PREAMBLE).body)
    for _ in range(rounds):
        tree = ast.parse(cur['source'])
        body = tree.body
        start = next((i for i, s in enumerate(body) if isinstance(s, ast.Assign) and getattr(s.targets[0], 'id', '') == 'd'), pre_len) + 1
        cands = []
        for i in range(start, len(body) - 1):
            # keep line numbers: blank the statement's lines instead of unparsing
            lines = cur['source'].splitlines()
            s = body[i]
            first = min([s.lineno] + [d.lineno for d in getattr(s, 'decorator_list', [])])
            for ln in range(first, s.end_lineno + 1):
                lines[ln - 1] = ''
            src = '\n'.join(lines) + '\n'
            try:
                compile(src, '<s>', 'exec', dont_inherit=True)
            except SyntaxError:
                continue
            marks = {k: v for k, v in cur['marks'].items() if not (first <= v['line'] <= s.end_lineno)}
            cands.append({**cur, 'source': src, 'marks': marks})
        if not cands:
            break
        results = run_programs(cands[:24])
        nxt = None
        for p, runs, linemap, md, _ in results:
            if any(k == key for k, _ in judge_behaviour(p, runs, linemap, md)):
                if nxt is None or len(p['source'].strip().splitlines()) < len(nxt['source'].strip().splitlines()):
                    nxt = p
        if nxt is None:
            break
        cur = nxt
    return cur


def explore_behaviour(ck, seed, n, shrink=True):
    progs = gen_programs(seed, n)
    results = run_programs(progs)
    res = {'evaluations': 0, 'failures': [], 'families': {}, 'outcomes': {}, 'marks_reached': 0, 'marks_kinds': {},
           'warnings_seen': 0, 'harness_rejects': 0, 'progs': progs, 'nontrivial': set(), 'samples': []}
    by_key = {}
    for p, runs, linemap, md, text in results:
        res['evaluations'] += 1
        res['families'][p['family']] = res['families'].get(p['family'], 0) + 1
        oc = runs['hook']['exc'] or 'ok'
        res['outcomes'][oc] = res['outcomes'].get(oc, 0) + 1
        res['marks_reached'] += len(runs['hook']['reached'])
        for m in runs['hook']['reached']:
            k = p['marks'][m]['kind']
            res['marks_kinds'][k] = res['marks_kinds'].get(k, 0) + 1
        res['warnings_seen'] += sum(1 for w in runs['hook']['warnings'] if w[0] == 'BeartypeClawDecorWarning')
        if runs['hook']['reached'] or runs['hook']['warnings'] or len(set(calls_of(runs['hook']['stdout']) or [])) > 6:
            res['nontrivial'].add(hashlib.sha1(p['source'].encode()).hexdigest())
        js = judge_behaviour(p, runs, linemap, md)
        for key, what in js:
            if key == 'HARNESS':
                res['harness_rejects'] += 1
                res.setdefault('harness_msgs', []).append(what)
                continue
            by_key.setdefault(key, []).append((p, what))
        if len(res['samples']) < 2 and runs['hook']['reached']:
            res['samples'].append({'family': p['family'], 'conf': p['conf'], 'hook_exc': runs['hook']['exc'],
                                   'reached': runs['hook']['reached'], 'stdout_tail': runs['hook']['stdout'][-3:]})
    known = {KEY_SUB, KEY_ATTR, KEY_ANN}
    for key, lst in list(by_key.items())[:8]:
        p, what = min(lst, key=lambda t: len(t[0]['source']))
        if shrink and key not in known:
            p2 = shrink_behaviour(p, key)
            if p2 is not p:
                r2 = run_programs([p2])[0]
                w2 = [w for k, w in judge_behaviour(p2, r2[1], r2[2], r2[3]) if k == key]
                if w2:
                    p, what = p2, w2[0]
        body = '\n'.join(x for x in p['source'].split("d = {}\n", 1)[-1].splitlines() if x.strip())
        res['failures'].append(Failure(
            key=key, what=f'[{len(lst)} program(s)] {what}; conf={p["conf"]}; program (after the preamble):\n{body[:1500]}',
            replay={'kind': 'behaviour', 'source': p['source'], 'conf': p['conf'], 'family': p['family'], 'marks': p['marks'],
                    'unsupported': p['unsupported'], 'oracle': key}))
    return res


# ---------------------------------------------------------------------------
def explore(ck: Check, seed: int, n_struct: int, n_enum: int, n_prog: int, enum3: bool = False) -> Explore:
    ex = Explore(rule='(a) modules from the structural grammar (all nestings of def/async def/class/if/for/while/try/except*/with/'
                      'match, decorator stacks incl. decorator-hostile and beforelist imports/assignments, Name/Attribute/'
                      'Subscript/parenthesised targets, docstring and __future__ prefixes, 4 configuration options) + exhaustive '
                      'small modules + every runnable program; (b) runnable programs of 5 families (clean / violating / '
                      'unsupported hints / impure targets / subscript targets) executed three ways. non-trivial (a) = the hand-'
                      'written rule adds >= 2 nodes besides the import AND some def/class/annotated assignment is nested in a '
                      'def/class/compound statement; distinct = distinct abstracted module shapes. non-trivial (b) = an '
                      'offending statement was reached, a decoration warning was emitted, or > 6 distinct side effects ran')
    t0 = time.time()
    rb = explore_behaviour(ck, seed, n_prog)
    t1 = time.time()
    rt = explore_transform(ck, seed, n_struct, n_enum, extra_sources=[(p['source'], p['conf']) for p in rb['progs']],
                           enum3=enum3)
    t2 = time.time()
    ck.log(f'[C05] behaviour tie: {rb["evaluations"]} programs x 3 executions in {t1 - t0:.0f}s; transformer tie: '
           f'{rt["evaluations"]} modules in {t2 - t1:.0f}s; corr_diffs={len(rt["corr"])}')
    ex.evaluations = rt['evaluations'] + 3 * rb['evaluations']
    ex.traces_validated = rt['evaluations'] + rb['evaluations']
    ex.distinct_nontrivial = len(rt['nontrivial']) + len(rb['nontrivial'])
    ex.failures = rt['failures'] + rb['failures']
    ex.corr_diffs = rt['corr']
    ex.samples = rt['samples'][:2] + rb['samples'][:2]
    ex.extra = {
        'transform_modules': rt['evaluations'], 'transform_by_origin': rt['by_origin'],
        'transform_distinct_shapes': len(rt['shapes']), 'transform_nontrivial': len(rt['nontrivial']),
        'transform_raised_by_design': rt['raised'], 'transform_uncompilable_discarded': rt['skipped_uncompilable'],
        'transform_conf_combinations_hit': len(rt['conf_cover']), 'top_level_statement_kinds': rt['kinds'],
        'rule_branches_hit': dict(rt['branches']),
        'behaviour_programs': rb['evaluations'], 'behaviour_executions': 3 * rb['evaluations'],
        'behaviour_families': rb['families'], 'behaviour_hooked_outcomes': rb['outcomes'],
        'behaviour_offending_statements_reached': rb['marks_reached'], 'behaviour_offending_kinds': rb['marks_kinds'],
        'behaviour_decor_warnings_seen': rb['warnings_seen'], 'behaviour_nontrivial': len(rb['nontrivial']),
        'behaviour_generator_rejects': rb['harness_rejects'],
        'phase_seconds': {'behaviour': round(t1 - t0, 1), 'transform': round(t2 - t1, 1)},
    }
    if rb['harness_rejects']:
        ex.extra['behaviour_generator_reject_examples'] = rb.get('harness_msgs', [])[:3]
    return ex


def replay(data: dict) -> int:
    key = data.get('oracle') or data.get('key')
    if data.get('kind') == 'transform':
        schema = A.real_schema()
        conf, r = real_transform(data['source'], data['conf'], data['hookable'])
        model = lean_batch([(A.conf_sx(conf, schema), r['orig'])])[0]
        f, c = judge_transform(data['source'], data['conf'], data['hookable'], r, None, model)
        print('module:\n' + data['source'])
        print('configuration:', data['conf'], '(hookable)' if data['hookable'] else '(as given)')
        if r['out'] is not None:
            print('hooked AST (real BeartypeNodeTransformer), unparsed:\n' + ast.unparse(r['tree']))
        print('expected by the hand-written rule (model byHand):', sexp(model['byhand']))
        print('real (abstracted)                               :', sexp(norm(r['out'])) if r['out'] is not None else r['raised'])
        if f:
            print(f'replay: {f[0]}: {f[1]}')
            return 1
        print('replay: not reproduced (all clauses hold on this module)' + (f'; correspondence: {c["what"]}' if c else ''))
        return 0
    if data.get('kind') == 'behaviour':
        p = {'source': data['source'], 'conf': data['conf'], 'family': data['family'],
             'marks': {int(k): v for k, v in data['marks'].items()}, 'unsupported': data['unsupported']}
        (p, runs, linemap, md, text), = run_programs([p])
        js = judge_behaviour(p, runs, linemap, md)
        print('program:\n' + data['source'].split('d = {}\n', 1)[-1])
        print('configuration:', data['conf'])
        for m in ('plain', 'hook', 'hand'):
            r = runs[m]
            print(f'--- {m}: exc={r["exc"]} tb={r["tb"]} reached={r["reached"]} missed={r["missed"]} warnings={r["warnings"][:3]}')
            print('    stdout tail:', r['stdout'][-4:])
        for k, w in js:
            print(f'replay: {k}: {w}')
        return 1 if any(k == key for k, _ in js) or (key is None and js) else 0
    print('replay: unknown replay kind')
    return 2


def main(ck: Check) -> int:
    quick = ck.tier == 'quick'
    proof = ck.prove(MODULE, PROP_FILE)
    if quick:
        ex = explore(ck, ck.seed, n_struct=1500, n_enum=2, n_prog=192)
    else:
        ex = explore(ck, ck.seed, n_struct=12000, n_enum=2, n_prog=1500, enum3=True)
    ck.decide(proof, ex, deep_search=lambda: explore(ck, ck.seed + 1, n_struct=6000, n_enum=2, n_prog=400, enum3=True))
    ck.evidence(
        proof, ex,
        level_note='Lean proofs over ALL modules of the mini-AST (structural induction over nested statement lists) for the '
                   'AST-to-AST function: only additions, equals the hand-written rule, import position, locations, no double '
                   'decoration, each side-effecting expression once. PARTIAL: C05_eq_byHand_partial (subscript-target annotated '
                   'assignments are never checked, C05_eq_byHand_counterexample) and C05_once_partial (the added check re-reads '
                   'attribute-target object expressions and annotations, C05_once_counterexample). "Compiles" and run-time '
                   'equivalence are not theorems: they are the behavioural tie (three-way execution of generated programs).',
        assumptions=[
            'CPython\'s compiler and evaluator are not modelled: compile() success, run-time equivalence, traceback lines and '
            'warnings are differential evidence over generated programs, not theorems',
            'PEP 695 `type` statements are outside the modelled grammar (the hook deliberately rewrites them: forward-reference '
            'loop + repeated statement)',
            'the hooked module is not itself inside a beforelist package (relative imports are then no-ops for the beforelist)',
            'a module that uses a beforelist NON-leaf (package/type/instance) as a decorator, or imports from a beforelist leaf, '
            'makes the hook raise BeartypeClawAstImportException by design; modelled by `raises`, validated, excluded from the clauses',
            'expression purity is syntactic (no call/await/yield/walrus inside)',
            'the decorator-hostile third-party packages are replaced by stubs in the scratch trees of the behaviour tie',
            'models the tree WITH fixes/C05_async_scope.patch (async def opens a scope)',
        ])
    return ck.finish()
