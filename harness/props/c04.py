"""C04 — the wrapper is transparent and checks each argument against its own parameter (DESIGN §4 C04).

Proof: `Props/C04.lean` — for EVERY signature and call the checks performed by the model of
the generated wrapper (`Core/Wrap.lean`: iter_func_args arithmetic, code_check_args enumerate
index, the five localisation snippets, call-through, return check) are, as a multiset, the
(parameter, passed value) pairs of CPython's binding (`pyBind`, from the language reference);
unbindable => TypeError/ParamViolation without running; all pass => ran once, same arguments,
same result/exception; a failing parameter check => never ran.

Tie (every run): generated signatures x generated calls. Functions are created with `exec` of
generated source whose annotations are per-parameter RECORDING validators
(`Annotated[object, Is[record(name)]]`, failing for a per-call set of (parameter, object)
pairs), so the harness observes on the REAL decorated function which object was checked
against which parameter, how often the body ran, with which objects, and the identity of the
result/exception. Three comparisons per case:
  * bare call of the UNDECORATED function (its locals()) vs `pyBind`  (validates the model of CPython);
  * `iter_func_args`, the keywordable-name set, the code-object facts, the check trace, the outcome
    and the run count of the real wrapper vs the model                 (validates the model of beartype);
  * the property's oracle on the real outputs alone, with the bare call as the binding truth
    (independent of the model agreeing).
"""
from __future__ import annotations

import itertools
import multiprocessing as mp
import random
from concurrent.futures import ProcessPoolExecutor

from ..common import LEAN, Check, Explore, Failure, lean_driver, parse_sexp, sexp

MODULE = 'BearVerif.Props.C04'
PROP_FILE = LEAN / 'BearVerif/Props/C04.lean'

RET_TOK, EXC_TOK = 900, 901
WORKERS = 14


# ---------------------------------------------------------------------------
# signatures:  {'po': [[name, ann, dflt]…], 'fl': […], 'vp': [name, ann]|None, 'ko': […], 'vk': [name, ann]|None, 'ret': 0|1}
# ---------------------------------------------------------------------------
def sig_params(sig):
    """[(kind, name, ann, dflt)] in declared order."""
    out = [('posonly', n, a, d) for n, a, d in sig['po']] + [('flex', n, a, d) for n, a, d in sig['fl']]
    if sig['vp']:
        out.append(('varpos', sig['vp'][0], sig['vp'][1], 0))
    out += [('kwonly', n, a, d) for n, a, d in sig['ko']]
    if sig['vk']:
        out.append(('varkw', sig['vk'][0], sig['vk'][1], 0))
    return out


def sig_decl(sig, ann='A_{}', dflt='D_{}') -> str:
    def one(n, a, d, star=''):
        s = star + n
        if a:
            s += ': ' + ann.format(n)
        if d:
            s += (' = ' if a else '=') + dflt.format(n)
        return s
    parts = [one(n, a, d) for n, a, d in sig['po']]
    if sig['po']:
        parts.append('/')
    parts += [one(n, a, d) for n, a, d in sig['fl']]
    if sig['vp']:
        parts.append(one(sig['vp'][0], sig['vp'][1], 0, '*'))
    elif sig['ko']:
        parts.append('*')
    parts += [one(n, a, d) for n, a, d in sig['ko']]
    if sig['vk']:
        parts.append(one(sig['vk'][0], sig['vk'][1], 0, '**'))
    return f"def f({', '.join(parts)})" + (' -> ' + ann.format('return') if sig['ret'] else '')


def sig_str(sig) -> str:
    return sig_decl(sig, ann='A', dflt='D')


def sig_src(sig) -> str:
    return (sig_decl(sig) + ":\n    CALLS.append(dict(locals()))\n    if MODE[0] == 'exc':\n        raise EXC[0]\n"
            "    return RET[0]\n")


def sig_sx(sig):
    def p(x):
        return [x[0], int(x[1]), int(x[2])]
    return [[p(x) for x in sig['po']], [p(x) for x in sig['fl']],
            [sig['vp'][0], int(sig['vp'][1]), 0] if sig['vp'] else 'none',
            [p(x) for x in sig['ko']],
            [sig['vk'][0], int(sig['vk'][1]), 0] if sig['vk'] else 'none', int(sig['ret'])]


def call_str(call) -> str:
    return 'f(' + ', '.join([f'A{i}' for i in range(call['npos'])] + [f'{k}=K:{k}' for k in call['kw']]) + ')'


# ---------------------------------------------------------------------------
# the real side
# ---------------------------------------------------------------------------
class Tok:
    __slots__ = ('label',)

    def __init__(self, label):
        self.label = label

    def __repr__(self):
        return self.label


class BodyError(Exception):
    pass


class Fixture:
    """One generated function, bare (`f0`) and decorated (`f1`), with its observation state."""
    _uid = itertools.count()

    def __init__(self, sig):
        from typing import Annotated
        from beartype import beartype
        from beartype.vale import Is
        self.sig = sig
        self.log, self.calls = [], []
        self.bad = frozenset()
        self.recording = False
        self.mode, self.ret, self.exc = ['ret'], [Tok('RET')], [BodyError('EXC')]
        self.defaults = {}
        uid = next(Fixture._uid)
        g = {'__name__': 'c04_generated', 'CALLS': self.calls, 'MODE': self.mode, 'EXC': self.exc, 'RET': self.ret}
        names = [n for _, n, a, _ in sig_params(sig) if a] + (['return'] if sig['ret'] else [])
        for n in names:
            g['A_' + n] = Annotated[object, Is[self._validator(n, uid)]]
        for _, n, _, d in sig_params(sig):
            if d:
                self.defaults[n] = g['D_' + n] = Tok('D:' + n)
        self.src = sig_src(sig)
        exec(compile(self.src, '<c04-generated>', 'exec', dont_inherit=True), g)   # no inherited __future__.annotations
        # what is decorated: the function itself, a functools.wraps closure around it, or a class-based decorator object
        # (functools.update_wrapper(self, f) + __call__(*a, **k)): the decorated callable must run exactly once too
        import functools
        import zlib
        self.outer = []
        self.target = ('func',) * 7 + ('wraps', 'callobj', 'callobj')
        self.target = self.target[zlib.crc32(self.src.encode()) % len(self.target)]
        f, outer = g['f'], self.outer
        self.fn = g['f']          # the generated function itself (static facts are read off it)
        if self.target == 'wraps':
            inner = f

            @functools.wraps(inner)
            def closure(*a, **k):
                outer.append(1)
                return inner(*a, **k)
            f = closure
        elif self.target == 'callobj':
            def make_deco():
                class Deco:
                    def __init__(self, fn):
                        functools.update_wrapper(self, fn)
                        self._fn = fn

                    def __call__(self, *a, **k):
                        outer.append(1)
                        return self._fn(*a, **k)
                return Deco
            f = make_deco()(f)
        self.f0 = f
        if self.target == 'callobj':
            # beartype may patch type(obj).__call__ of a callable object: the bare reference gets a class of its own
            self.f0 = make_deco()(g['f'])
        self.f1 = beartype(f)

    def _validator(self, name, uid):
        def check(obj):
            ok = (name, id(obj)) not in self.bad
            if self.recording:
                self.log.append((name, obj))
                if not ok:
                    self.recording = False   # the error path re-runs validators: not the wrapper's checks
            return ok
        check.__name__ = check.__qualname__ = f'check_{uid}_{name}'
        return check

    def objects(self, call):
        args = [Tok(f'A{i}') for i in range(call['npos'])]
        kwargs = {k: Tok(f'K:{k}') for k in call['kw']}
        labels = {id(o): o.label for o in args}
        labels.update({id(o): o.label for o in kwargs.values()})
        labels[id(self.ret[0])] = 'RET'
        for o in self.defaults.values():
            labels[id(o)] = o.label
        byl = {o.label: o for o in args}
        byl.update({o.label: o for o in kwargs.values()})
        byl['RET'] = self.ret[0]
        return args, kwargs, labels, byl

    def run(self, fn, args, kwargs, bad, mode):
        from beartype.roar import BeartypeCallHintParamViolation, BeartypeCallHintReturnViolation
        del self.log[:]
        del self.calls[:]
        del self.outer[:]
        self.bad, self.mode[0], self.recording = bad, mode, True
        try:
            r = fn(*args, **kwargs)
            out = ('returned', r)
        except BeartypeCallHintParamViolation:
            out = ('paramViolation', None)
        except BeartypeCallHintReturnViolation:
            out = ('returnViolation', None)
        except TypeError:
            out = ('typeError', None)
        except BaseException as e:
            out = ('raised', e)
        self.recording = False
        return out, list(self.log), list(self.calls)


def bind_view(sig, loc, defaults, labels):
    """locals() of the body -> (slots [(name, label|'-')], star [label], dstar [(k, label)])."""
    def lab(o):
        return labels.get(id(o), '?' + type(o).__name__)
    slots = []
    for n, _, _ in sig['po'] + sig['fl'] + sig['ko']:
        o = loc[n]
        slots.append([n, '-' if defaults.get(n) is o else lab(o)])
    star = [lab(o) for o in loc[sig['vp'][0]]] if sig['vp'] else []
    dstar = [[k, lab(o)] for k, o in loc[sig['vk'][0]].items()] if sig['vk'] else []
    return slots, star, dstar


def same_locals(sig, a, b) -> bool:
    """the body saw the very same objects in both runs"""
    if a.keys() != b.keys():
        return False
    for n, _, _ in sig['po'] + sig['fl'] + sig['ko']:
        if a[n] is not b[n]:
            return False
    if sig['vp']:
        x, y = a[sig['vp'][0]], b[sig['vp'][0]]
        if type(x) is not tuple or type(y) is not tuple or len(x) != len(y) or any(p is not q for p, q in zip(x, y)):
            return False
    if sig['vk']:
        x, y = a[sig['vk'][0]], b[sig['vk'][0]]
        if type(x) is not dict or type(y) is not dict or list(x) != list(y) or any(x[k] is not y[k] for k in x):
            return False
    return True


def expected_pairs(sig, loc, defaults):
    """The property's right-hand side from CPython's own binding: [(param, object)] for annotated
    parameters whose value was passed."""
    out = []
    for n, a, _ in sig['po'] + sig['fl'] + sig['ko']:
        if a and defaults.get(n) is not loc[n]:
            out.append((n, loc[n]))
    if sig['vp'] and sig['vp'][1]:
        out += [(sig['vp'][0], o) for o in loc[sig['vp'][0]]]
    if sig['vk'] and sig['vk'][1]:
        out += [(sig['vk'][0], o) for o in loc[sig['vk'][0]].values()]
    return out


def msort(pairs):
    return sorted((n, id(o)) for n, o in pairs)


def oracle(fx: Fixture, bare_loc, out, log, calls, bad, mode):
    """The property evaluated on the real outputs; `bare_loc` = locals() of the bare call (None: TypeError).
    Returns the list of violated clauses (empty = property holds on this case)."""
    sig = fx.sig
    bads = []
    kind, payload = out
    if bare_loc is None:
        if kind not in ('typeError', 'paramViolation'):
            bads.append('unbindable-wrong-exception')
        if calls:
            bads.append('unbindable-body-ran')
        if kind == 'paramViolation' and not (log and (log[-1][0], id(log[-1][1])) in bad):
            bads.append('unbindable-violation-without-failing-check')
        return bads
    exp = expected_pairs(sig, bare_loc, fx.defaults)
    fails = [(n, o) for n, o in exp if (n, id(o)) in bad]
    plog = [(n, o) for n, o in log if n != 'return']
    rlog = [(n, o) for n, o in log if n == 'return']
    if fails:
        if kind != 'paramViolation':
            bads.append('param-fail-not-raised')
        if calls:
            bads.append('param-fail-body-ran')
        me, ml = msort(exp), msort(plog)
        it = iter(me)
        if not all(any(x == y for y in it) for x in ml):       # sub-multiset (both sorted)
            bads.append('checked-value-not-bound-to-parameter')
        if kind == 'paramViolation' and not (plog and (plog[-1][0], id(plog[-1][1])) in bad):
            bads.append('violation-without-failing-check')
        if any((n, id(o)) in bad for n, o in plog[:-1]):
            bads.append('continued-after-failing-check')
        return bads
    if msort(plog) != msort(exp):
        bads.append('checks-ne-binding')
        return bads
    if len(calls) != 1:
        bads.append('body-not-run-once')
        return bads
    if fx.target != 'func' and len(fx.outer) != 1:
        bads.append('decorated-callable-not-run-once')
        return bads
    if not same_locals(sig, calls[0], bare_loc):
        bads.append('arguments-changed')
    if mode == 'exc':
        if not (kind == 'raised' and payload is fx.exc[0]):
            bads.append('exception-changed')
        if rlog:
            bads.append('return-checked-after-exception')
    else:
        if sig['ret']:
            if not (len(rlog) == 1 and rlog[0][1] is fx.ret[0] and log[-1][0] == 'return'):
                bads.append('return-check-missing-or-wrong-object')
            elif ('return', id(fx.ret[0])) in bad:
                if kind != 'returnViolation':
                    bads.append('return-fail-not-raised')
            elif not (kind == 'returned' and payload is fx.ret[0]):
                bads.append('result-changed')
        else:
            if rlog:
                bads.append('return-checked-without-annotation')
            if not (kind == 'returned' and payload is fx.ret[0]):
                bads.append('result-changed')
    return bads


def static_view(fx: Fixture):
    """iter_func_args, code-object facts, keywordable set of the real function."""
    from beartype._util.func.arg.utilfuncargiter import ArgKind, ArgMandatory, iter_func_args
    kn = {ArgKind.POSITIONAL_ONLY: 'posonly', ArgKind.POSITIONAL_OR_KEYWORD: 'flex', ArgKind.VARIADIC_POSITIONAL: 'varpos',
          ArgKind.KEYWORD_ONLY: 'kwonly', ArgKind.VARIADIC_KEYWORD: 'varkw'}
    metas = list(iter_func_args(fx.fn, is_unwrap=False))
    it = [[kn[k], n] for k, n, _ in metas]
    dflt_ok = all((d is fx.defaults[n]) if n in fx.defaults else (d is ArgMandatory) for _, n, d in metas)
    co = fx.fn.__code__
    nparams = co.co_argcount + co.co_kwonlyargcount + bool(co.co_flags & 4) + bool(co.co_flags & 8)
    facts = [str(co.co_argcount), str(co.co_posonlyargcount), str(co.co_kwonlyargcount), str(int(bool(co.co_flags & 4))),
             str(int(bool(co.co_flags & 8))), list(co.co_varnames[:nparams]), str(len(fx.fn.__defaults__ or ()))]
    kwable = None
    if fx.f1 is not fx.f0 and fx.target != 'callobj':
        kwable = (getattr(fx.f1, '__kwdefaults__', None) or {}).get('__beartype_args_name_keywordable')
    return it, dflt_ok, facts, (sorted(kwable) if kwable is not None else None)


# ---------------------------------------------------------------------------
# model side
# ---------------------------------------------------------------------------
def wire(x) -> str:
    """s-expression with blank-separated parentheses (the C04 driver tokenises with a native split)"""
    return sexp(x).replace('(', ' ( ').replace(')', ' ) ').strip()


def tokens(call):
    """label -> model token"""
    t = {f'A{i}': i + 1 for i in range(call['npos'])}
    t.update({f'K:{k}': 101 + j for j, k in enumerate(call['kw'])})
    t['RET'] = RET_TOK
    return t


def model_req(call, scens):
    """one CALL of the driver protocol: args, kwargs, scenarios [(failing pairs, body mode)]"""
    t = tokens(call)
    return [[t[f'A{i}'] for i in range(call['npos'])], [[k, t[f'K:{k}']] for k in call['kw']],
            [[[[n, t[l]] for n, l in bad], ['ret', RET_TOK] if mode == 'ret' else ['exc', EXC_TOK]] for bad, mode in scens]]


def model_res(res, call):
    """parse one RES of the driver into label space: one dict per scenario"""
    lab = {str(v): k for k, v in tokens(call).items()}
    bind, exp, argchecks, scen = res

    def pairs(ps):
        return [[n, lab[v]] for n, v in ps]
    if bind[0] == 'err':
        b = ('err', bind[1])
    else:
        b = ('ok', [[n, '-' if v == '-' else lab[v]] for n, v in bind[1]], [lab[v] for v in bind[2]], pairs(bind[3]))
    out = []
    for trace, result, ran in scen:
        out.append({'bind': b, 'expected': pairs(exp), 'argchecks': pairs(argchecks), 'trace': pairs(trace),
                    'result': [result[0]] + [lab.get(x, x) for x in result[1:]], 'ran': int(ran)})
    return out


def trace_nf(trace, vk, bad):
    """canonical form of a check trace: the `**kwargs` segment comes out of a set difference, its
    order is not defined; when the failing check lies in that segment only 'failed there' is comparable."""
    non = [list(x) for x in trace if x[0] != vk]
    seg = [list(x) for x in trace if x[0] == vk]
    if seg and trace and trace[-1][0] == vk and tuple(trace[-1]) in bad:
        return non, 'failed-in-varkw'
    return non, sorted(seg)


# ---------------------------------------------------------------------------
# one case = (signature, call, failing pairs, body mode)
# ---------------------------------------------------------------------------
def prepare(fx: Fixture, call):
    """the call's objects and CPython's own binding of them (bare call of the undecorated function)"""
    args, kwargs, labels, byl = fx.objects(call)
    out, _, calls = fx.run(fx.f0, args, kwargs, frozenset(), 'ret')
    bare_loc = calls[0] if out[0] == 'returned' and calls else None
    bare_weird = None if (out[0] in ('returned', 'typeError')) else out[0]
    bind = ('err',) if bare_loc is None else ('ok',) + tuple(bind_view(fx.sig, bare_loc, fx.defaults, labels))
    exp = None if bare_loc is None else [[n, labels.get(id(o), '?')] for n, o in expected_pairs(fx.sig, bare_loc, fx.defaults)]
    return args, kwargs, labels, byl, bare_loc, bare_weird, bind, exp


def run_case(fx: Fixture, call, bad, mode, prep=None):
    """real side of one case + oracle; returns observation dict (label space)"""
    args, kwargs, labels, byl, bare_loc, bare_weird, bind, exp = prep or prepare(fx, call)
    badset = frozenset((n, id(byl[l])) for n, l in bad if l in byl)
    out, log, calls = fx.run(fx.f1, args, kwargs, badset, mode)
    clauses = oracle(fx, bare_loc, out, log, calls, badset, mode)

    def lab(o):
        return labels.get(id(o), '?' + type(o).__name__)
    kind, payload = out
    if kind == 'returned':
        result = ['returned', lab(payload)]
    elif kind == 'raised':
        result = ['raised', 'EXC' if payload is fx.exc[0] else type(payload).__name__]
    else:
        result = [kind]
    return {'bind': bind, 'trace': [[n, lab(o)] for n, o in log], 'result': result, 'ran': len(calls), 'clauses': clauses,
            'bare_weird': bare_weird, 'expected': exp}


def compare(sig, call, bad, mode, obs, mod):
    """model vs real on one case -> list of differing observables"""
    diffs = []
    rb, mb = obs['bind'], mod['bind']
    if rb[0] != mb[0]:
        diffs.append(('binds', rb[0], list(mb[:2])))
    elif rb[0] == 'ok' and [list(map(list, rb[1])), list(rb[2]), list(map(list, rb[3]))] != [mb[1], mb[2], mb[3]]:
        diffs.append(('binding', [rb[1], rb[2], rb[3]], [mb[1], mb[2], mb[3]]))
    vk = sig['vk'][0] if sig['vk'] else None
    badt = {(n, l) for n, l in bad}
    if trace_nf(obs['trace'], vk, badt) != trace_nf(mod['trace'], vk, badt):
        diffs.append(('trace', obs['trace'], mod['trace']))
    if obs['expected'] is not None and sorted(obs['expected']) != sorted(mod['expected']):
        diffs.append(('expected-pairs', obs['expected'], mod['expected']))
    rr, mr = obs['result'], mod['result']
    mexp = {'returned': ['returned', 'RET'], 'raised': ['raised', 'EXC']}.get(mr[0], [mr[0]])
    if rr != mexp:
        diffs.append(('result', rr, mr))
    if obs['ran'] != mod['ran']:
        diffs.append(('ran', obs['ran'], mod['ran']))
    return diffs


def scenarios(rng: random.Random, sig, call, expected, n_extra: int):
    """failing-pair sets / body modes to run one call under: all-pass first, then seeded variants"""
    out = [([], 'ret')]
    names = [n for _, n, a, _ in sig_params(sig) if a]
    labels = [f'A{i}' for i in range(call['npos'])] + [f'K:{k}' for k in call['kw']]
    for _ in range(n_extra):
        bad = []
        r = rng.random()
        if expected and r < 0.55:
            bad.append(list(rng.choice(expected)))
            if rng.random() < 0.25:
                bad.append(list(rng.choice(expected)))
        elif names and labels and r < 0.8:
            bad.append([rng.choice(names), rng.choice(labels)])      # usually a pair that is NOT bound: must stay silent
        if sig['ret'] and rng.random() < 0.25:
            bad.append(['return', 'RET'])
        mode = 'exc' if rng.random() < 0.25 else 'ret'
        if (bad, mode) not in out:
            out.append((bad, mode))
    return out


def process_chunk(payload):
    """worker: real runs + oracle + model + comparison for a list of (idx, sig, calls, n_extra)."""
    seed, jobs = payload
    lines, recs = [], []
    for idx, sig, calls, n_extra in jobs:
        if n_extra == 'alt':                         # quick tier, exhaustive scope: a failing/raising variant for every other call
            n_extra = (lambda j, idx=idx: (idx + j + seed) % 2)
        fx = Fixture(sig)
        rng = random.Random(f'{seed}:{idx}')
        cases, reqs = [], []
        for call in calls:
            prep = prepare(fx, call)
            first = run_case(fx, call, [], 'ret', prep)
            scens = scenarios(rng, sig, call, first['expected'], n_extra(len(reqs)) if callable(n_extra) else n_extra)
            for bad, mode in scens:
                obs = first if (not bad and mode == 'ret') else run_case(fx, call, bad, mode, prep)
                cases.append((call, bad, mode, obs))
            reqs.append(model_req(call, scens))
        lines.append(wire(['c04', sig_sx(sig), reqs]))
        recs.append((idx, sig, static_view(fx), cases, calls))
    res = {'evaluations': 0, 'failures': [], 'corr': [], 'outcomes': {}, 'binderrs': {}, 'nontrivial': set(),
           'collisions': 0, 'defaults_unchecked': 0, 'kinds': set(), 'sigs': 0, 'max_checks': 0, 'samples': []}
    outs = lean_driver(lines, 'C04') if lines else []
    for (idx, sig, stat, cases, calls), line in zip(recs, outs):
        v = parse_sexp(line)
        if v[0] != 'ok':
            res['corr'].append({'sig': sig, 'what': 'driver rejected the request', 'line': line[:200]})
            continue
        m_iter, m_kwable, m_facts, m_cases = v[1]
        res['sigs'] += 1
        res['kinds'].add(' '.join(k for k, *_ in sig_params(sig)))
        it, dflt_ok, facts, kwable = stat
        if it != m_iter:
            res['corr'].append({'sig': sig, 'what': 'iter_func_args differs from the declared order', 'real': it, 'model': m_iter})
        if not dflt_ok:
            res['corr'].append({'sig': sig, 'what': 'iter_func_args yields a wrong default'})
        if facts != m_facts:
            res['corr'].append({'sig': sig, 'what': 'code-object facts differ from factsOf', 'real': facts, 'model': m_facts})
        if kwable is not None and kwable != sorted(m_kwable):
            res['corr'].append({'sig': sig, 'what': 'keywordable-name set differs', 'real': kwable, 'model': sorted(m_kwable)})
        ponames = {n for n, _, _ in sig['po']}
        mods = [m for mres, call in zip(m_cases, calls) for m in model_res(mres, call)]
        if len(mods) != len(cases):
            res['corr'].append({'sig': sig, 'what': 'driver answered a different number of cases'})
            continue
        for (call, bad, mode, obs), mod in zip(cases, mods):
            res['evaluations'] += 1
            res['outcomes'][mod['result'][0]] = res['outcomes'].get(mod['result'][0], 0) + 1
            if mod['bind'][0] == 'err':
                res['binderrs'][mod['bind'][1]] = res['binderrs'].get(mod['bind'][1], 0) + 1
            if obs['bare_weird']:
                res['corr'].append({'sig': sig, 'call': call, 'what': f'bare call raised {obs["bare_weird"]}'})
            if obs['clauses']:
                res['failures'].append({'sig': sig, 'call': call, 'bad': bad, 'mode': mode, 'clauses': obs['clauses']})
                continue
            d = compare(sig, call, bad, mode, obs, mod)
            if d:
                res['corr'].append({'sig': sig, 'call': call, 'bad': bad, 'mode': mode, 'what': 'model and real wrapper differ',
                                    'diffs': [list(x) for x in d]})
            if not bad and mode == 'ret':
                coll = bool(ponames & set(call['kw']))
                res['collisions'] += coll
                nchk = len(obs['trace'])
                res['max_checks'] = max(res['max_checks'], nchk)
                if obs['bind'][0] == 'ok' and any(v == '-' for n, v in obs['bind'][1]
                                                   if any(a for _, nn, a, _ in sig_params(sig) if nn == n)):
                    res['defaults_unchecked'] += 1
                nonpos = (obs['bind'][0] == 'ok' and (obs['bind'][2] or obs['bind'][3] or call['kw'])) or \
                    (obs['bind'][0] == 'err' and nchk >= 1)
                if nchk >= 2 and nonpos and len({k for k, *_ in sig_params(sig)}) >= 2:
                    res['nontrivial'].add(hash((sig_str(sig), call_str(call))))   # PYTHONHASHSEED=0: stable
        good = [c for c in cases if len(c[3]['trace']) >= 3 and c[3]['result'][0] in ('returned', 'paramViolation')]
        if len(res['samples']) < 2 and good and len(sig_params(sig)) >= 3:
            call, bad, mode, obs = good[len(good) // 2]
            res['samples'].append({'signature': sig_str(sig), 'call': call_str(call), 'failing_pairs': bad, 'body': mode,
                                   'real_trace': obs['trace'], 'real_result': obs['result'], 'body_ran': obs['ran']})
    res['kinds'] = sorted(res['kinds'])
    res['nontrivial'] = sorted(res['nontrivial'])
    res['n_failures'], res['n_corr'] = len(res['failures']), len(res['corr'])
    res['failures'].sort(key=lambda f: (len(sig_params(f['sig'])), f['call']['npos'] + len(f['call']['kw'])))
    keep, seen = [], {}
    for f in res['failures']:                      # bounded hand-over: the smallest few per violated clause
        k = f['clauses'][0]
        if seen.get(k, 0) < 20:
            seen[k] = seen.get(k, 0) + 1
            keep.append(f)
    res['failures'], res['corr'] = keep, res['corr'][:20]
    return res


# ---------------------------------------------------------------------------
# generators
# ---------------------------------------------------------------------------
def small_sigs():
    """every signature with <= 1 parameter per kind: all kind subsets x annotated subsets x legal defaults x return."""
    for npo, nfl, vp, nko, vk in itertools.product((0, 1), repeat=5):
        names = ['p0'] * npo + ['f0'] * nfl + ['va'] * vp + ['k0'] * nko + ['vk'] * vk
        for nd in range(npo + nfl + 1):
            pd = [0] * (npo + nfl - nd) + [1] * nd
            for kd in itertools.product((0, 1), repeat=nko):
                for anns in itertools.product((0, 1), repeat=len(names)):
                    a = dict(zip(names, anns))
                    for ret in (0, 1):
                        yield {'po': [['p0', a['p0'], pd[0]]] if npo else [],
                               'fl': [['f0', a['f0'], pd[npo]]] if nfl else [],
                               'vp': ['va', a['va']] if vp else None,
                               'ko': [['k0', a['k0'], kd[0]]] if nko else [],
                               'vk': ['vk', a['vk']] if vk else None, 'ret': ret}


def small_calls(sig, idx):
    """all call shapes with <= 4 positionals and <= 3 keywords from a 5-name pool (the signature's own names —
    a positional-only name collides — plus names that are no parameter)."""
    pool = ['p0' if sig['po'] else 'x2', 'f0' if sig['fl'] else 'x3', 'k0' if sig['ko'] else 'x4', 'x0']
    var = [v[0] for v in (sig['vp'], sig['vk']) if v]
    pool.append(var[idx % len(var)] if var else 'x1')
    for npos in range(5):
        for r in range(4):
            for kws in itertools.combinations(pool, r):
                yield {'npos': npos, 'kw': list(kws)}


def rand_sig(rng: random.Random, counts=None, maxper=2):
    npo, nfl, vp, nko, vk = counts or (rng.randint(0, maxper), rng.randint(0, maxper), rng.random() < .5,
                                       rng.randint(0, maxper), rng.random() < .5)
    pa = 0.75 if rng.random() < 0.7 else 0.4
    nd = rng.choice([0, 0, 1, 2, npo + nfl]) if npo + nfl else 0
    nd = min(nd, npo + nfl) if rng.random() < 0.8 else rng.randint(0, npo + nfl)
    pd = [0] * (npo + nfl - nd) + [1] * nd

    def a():
        return int(rng.random() < pa)
    return {'po': [[f'p{i}', a(), pd[i]] for i in range(npo)], 'fl': [[f'f{i}', a(), pd[npo + i]] for i in range(nfl)],
            'vp': ['va', a()] if vp else None, 'ko': [[f'k{i}', a(), int(rng.random() < .5)] for i in range(nko)],
            'vk': ['vk', a()] if vk else None, 'ret': int(rng.random() < .5)}


def rand_calls(rng: random.Random, sig, n: int):
    names = [nm for _, nm, _, _ in sig_params(sig)] + ['x0', 'x1']
    npos_max = len(sig['po']) + len(sig['fl']) + 2
    mand_kw = [nm for nm, _, d in sig['ko'] if not d]
    out = []
    for _ in range(n):
        npos = rng.randint(0, npos_max) if rng.random() < .6 else min(npos_max, len(sig['po']) + rng.randint(0, len(sig['fl'])))
        k = rng.randint(0, 4)
        kws = rng.sample(names, min(k, len(names)))
        if rng.random() < .6:                       # mostly-bindable stream: supply the mandatory keyword-onlys and
            kws = list(dict.fromkeys(kws + mand_kw))  # the flexible parameters not covered positionally
            if rng.random() < .7:
                rest = [nm for i, (nm, _, d) in enumerate(sig['fl']) if len(sig['po']) + i >= npos and not d]
                kws = list(dict.fromkeys(kws + rest))
                npos = max(npos, len([1 for _, _, d in sig['po'] if not d]))
        rng.shuffle(kws)
        out.append({'npos': npos, 'kw': kws})
    return out


def gen_jobs(seed: int, tier: str, scale: int = 1):
    """[(idx, sig, calls, n_extra)]"""
    rng = random.Random(seed)
    quick = tier == 'quick'
    jobs = []
    sm = list(small_sigs())
    for i, sig in enumerate(sm):
        calls = list(small_calls(sig, i))
        if quick:                                    # quick: every other call shape per signature, the other half under seed+1
            calls = [c for j, c in enumerate(calls) if (i + j + seed) % 2 == 0]
        jobs.append((len(jobs), sig, calls, 'alt' if quick else 1))
    n_small = len(jobs)
    counts = list(itertools.product((0, 1, 2), (0, 1, 2), (0, 1), (0, 1, 2), (0, 1)))
    for c in counts:                                 # every legal kind sequence with <= 2 per kind
        for _ in range((3 if quick else 30) * scale):
            sig = rand_sig(rng, c)
            jobs.append((len(jobs), sig, rand_calls(rng, sig, 40 if quick else 80), 2))
    for _ in range((150 if quick else 4000) * scale):  # larger ones
        sig = rand_sig(rng, None, maxper=4)
        jobs.append((len(jobs), sig, rand_calls(rng, sig, 30 if quick else 60), 2))
    return jobs, n_small


# ---------------------------------------------------------------------------
# shrinking, keys, replay
# ---------------------------------------------------------------------------
def case_clauses(sig, call, bad, mode):
    fx = Fixture(sig)
    return run_case(fx, call, bad, mode)['clauses']


def shrink(case):
    """greedy: drop parameters / annotations / defaults / arguments / failing pairs while the same clause stays violated"""
    sig, call, bad, mode, clause = case['sig'], case['call'], case['bad'], case['mode'], case['clauses'][0]

    def cands(sig, call, bad, mode):
        for key in ('po', 'fl', 'ko'):
            for i in range(len(sig[key])):
                yield {**sig, key: sig[key][:i] + sig[key][i + 1:]}, call, bad, mode
        for key in ('vp', 'vk'):
            if sig[key]:
                yield {**sig, key: None}, call, bad, mode
        if call['npos']:
            yield sig, {**call, 'npos': call['npos'] - 1}, bad, mode
        for i in range(len(call['kw'])):
            yield sig, {**call, 'kw': call['kw'][:i] + call['kw'][i + 1:]}, bad, mode
        for i in range(len(bad)):
            yield sig, call, bad[:i] + bad[i + 1:], mode
        if mode == 'exc':
            yield sig, call, bad, 'ret'
        if sig['ret']:
            yield {**sig, 'ret': 0}, call, bad, mode
        for key in ('po', 'fl', 'ko'):
            for i, (n, a, d) in enumerate(sig[key]):
                if a:
                    yield {**sig, key: sig[key][:i] + [[n, 0, d]] + sig[key][i + 1:]}, call, bad, mode
        for key in ('vp', 'vk'):
            if sig[key] and sig[key][1]:
                yield {**sig, key: [sig[key][0], 0]}, call, bad, mode
        for i, (n, a, d) in enumerate(sig['ko']):
            if d:
                yield {**sig, 'ko': sig['ko'][:i] + [[n, a, 0]] + sig['ko'][i + 1:]}, call, bad, mode
        pos = sig['po'] + sig['fl']
        nd = sum(d for _, _, d in pos)
        if nd:                                       # one default fewer (keeps the suffix rule)
            j = len(pos) - nd
            pos2 = [[n, a, 0 if i == j else d] for i, (n, a, d) in enumerate(pos)]
            yield {**sig, 'po': pos2[:len(sig['po'])], 'fl': pos2[len(sig['po']):]}, call, bad, mode

    def valid(sig, bad):
        names = {n for _, n, a, _ in sig_params(sig) if a} | ({'return'} if sig['ret'] else set())
        return all(n in names for n, _ in bad)
    cur = (sig, call, bad, mode)
    progress = True
    while progress:
        progress = False
        for c in cands(*cur):
            if not valid(c[0], c[2]):
                continue
            try:
                cl = case_clauses(*c)
            except SyntaxError:
                continue
            if clause in cl:
                cur, progress = c, True
                break
    return {'sig': cur[0], 'call': cur[1], 'bad': cur[2], 'mode': cur[3], 'clause': clause}


def describe(sig, call, bad, mode):
    return (f'{sig_str(sig)}; call {call_str(call)}; validators failing for {bad or "nothing"}; '
            f'body {"raises EXC" if mode == "exc" else "returns RET"}')


def to_failure(case) -> Failure:
    s = shrink(case)
    sig, call, bad, mode, clause = s['sig'], s['call'], s['bad'], s['mode'], s['clause']
    fx = Fixture(sig)
    obs = run_case(fx, call, bad, mode)
    mod = run_model(sig, [(call, bad, mode)])[1][0]
    key = f'C04:{clause}:{sig_str(sig)[4:]}:{call_str(call)}:' + ','.join(f'{n}/{l}' for n, l in bad) + ':' + mode
    return Failure(
        key=key,
        what=f'{clause}: {describe(sig, call, bad, mode)} — real wrapper checked {obs["trace"]}, result {obs["result"]}, '
             f'body ran {obs["ran"]}x; bound pairs to check (bare call) {obs["expected"]}; '
             f'model: checks {mod["trace"]}, result {mod["result"]}, ran {mod["ran"]}',
        replay={'sig': sig, 'call': call, 'bad': bad, 'mode': mode, 'clause': clause, 'source': sig_src(sig),
                'readable': describe(sig, call, bad, mode), 'real': {k: obs[k] for k in ('bind', 'trace', 'result', 'ran', 'expected')},
                'model': mod, 'unshrunk': {k: case[k] for k in ('sig', 'call', 'bad', 'mode', 'clauses')}})


def run_model(sig, cases):
    line = wire(['c04', sig_sx(sig), [model_req(c, [(b, m)]) for c, b, m in cases]])
    v = parse_sexp(lean_driver([line], 'C04')[0])
    assert v[0] == 'ok', v
    return v[1], [model_res(r, c)[0] for r, (c, _, _) in zip(v[1][3], cases)]


def replay(data: dict) -> int:
    sig, call, bad, mode = data['sig'], data['call'], data['bad'], data['mode']
    print('case:', describe(sig, call, bad, mode))
    print(sig_src(sig))
    fx = Fixture(sig)
    obs = run_case(fx, call, bad, mode)
    head, mods = run_model(sig, [(call, bad, mode)])
    mod = mods[0]
    print('CPython binding (bare call):', obs['bind'])
    print('pairs the property requires to be checked:', obs['expected'])
    print('real wrapper : checks', obs['trace'], 'result', obs['result'], 'body ran', obs['ran'])
    print('model wrapper: checks', mod['trace'], 'result', mod['result'], 'body ran', mod['ran'])
    it = static_view(fx)[0]
    if it != head[0]:
        print('iter_func_args:', it, 'declared:', head[0])
    if obs['clauses']:
        print('replay: property violated on the real code:', obs['clauses'])
        return 1
    print('replay: the property holds on this case (not reproduced)')
    return 0


# ---------------------------------------------------------------------------
# exploration
# ---------------------------------------------------------------------------
def explore(ck: Check, tier: str, seed: int, scale: int = 1) -> Explore:
    ex = Explore(rule='case = (signature, call, set of failing (parameter, object) validators, body returns/raises); '
                      'signatures: every one with <=1 parameter per kind (all annotated subsets, legal defaults, return) '
                      'x call shapes with <=4 positionals and <=3 keywords from a 5-name pool incl. the positional-only '
                      'name (quick tier: half of the shapes per signature, alternating with the seed; thorough: all), '
                      'every kind-count vector with <=2 per kind, and random ones with <=4 per kind x seeded calls; '
                      'non-trivial = all-pass case on a signature with >=2 parameter kinds where >=2 checks ran and a value '
                      'went by keyword / into *args / into **kwargs, or the call does not bind after >=1 check; '
                      'distinct = distinct (signature, call)')
    lean_driver([wire(['c04', [[], [], 'none', [], 'none', 0], []])], 'C04')     # builds the driver once, before forking
    jobs, n_small = gen_jobs(seed, tier, scale)
    nchunks = WORKERS if tier == 'quick' else WORKERS * 10        # thorough: bounded memory per worker
    chunks = [jobs[i::nchunks] for i in range(nchunks)]
    with ProcessPoolExecutor(max_workers=WORKERS, mp_context=mp.get_context('fork')) as pool:
        results = list(pool.map(process_chunk, [(seed, c) for c in chunks if c]))
    nontrivial, kinds, raw_failures = set(), set(), []
    outcomes, binderrs = {}, {}
    extra = {'signatures': 0, 'exhaustive_small_signatures': n_small, 'keyword_collides_with_posonly_cases': 0,
             'cases_with_annotated_default_left_unchecked': 0, 'max_checks_in_one_call': 0}
    for r in results:
        ex.evaluations += r['evaluations']
        ex.corr_diffs += r['corr']
        raw_failures += r['failures']
        nontrivial.update(r['nontrivial'])
        kinds.update(r['kinds'])
        extra['signatures'] += r['sigs']
        extra['keyword_collides_with_posonly_cases'] += r['collisions']
        extra['cases_with_annotated_default_left_unchecked'] += r['defaults_unchecked']
        extra['max_checks_in_one_call'] = max(extra['max_checks_in_one_call'], r['max_checks'])
        for k, v in r['outcomes'].items():
            outcomes[k] = outcomes.get(k, 0) + v
        for k, v in r['binderrs'].items():
            binderrs[k] = binderrs.get(k, 0) + v
        ex.samples += r['samples']
    ex.traces_validated = ex.evaluations
    ex.distinct_nontrivial = len(nontrivial)
    extra['outcome_distribution_model'] = outcomes
    extra['unbindable_by_reason'] = binderrs
    extra['distinct_kind_sequences'] = len(kinds)
    ex.extra = extra
    # shrink a bounded number of failures, one per (clause, kind sequence) first
    seen, picked = set(), []
    for f in sorted(raw_failures, key=lambda f: (len(sig_params(f['sig'])), f['call']['npos'] + len(f['call']['kw']))):
        k = (f['clauses'][0], ' '.join(k for k, *_ in sig_params(f['sig'])))
        if k not in seen and len(picked) < 4:
            seen.add(k)
            picked.append(f)
    extra['failing_cases'] = sum(r['n_failures'] for r in results)
    extra['correspondence_diff_cases'] = sum(r['n_corr'] for r in results)
    for f in picked:
        ex.failures.append(to_failure(f))
    return ex


def main(ck: Check) -> int:
    proof = ck.prove(MODULE, PROP_FILE)
    ex = explore(ck, ck.tier, ck.seed)
    ck.decide(proof, ex, deep_search=lambda: explore(ck, 'thorough' if ck.tier == 'thorough' else 'quick', ck.seed + 1, scale=3))
    ck.evidence(proof, ex,
                level_note='Lean theorems for every signature and call (refinement of the generated wrapper against CPython\'s '
                           'binding) + differential of model, bare call and real decorated call with recording validators',
                assumptions=['CPython 3.12 argument binding is modelled by pyBind (validated on every case against the bare call)',
                             'the per-parameter check is abstract (ok : Name -> Val -> Bool); what it computes is C01/C02',
                             'plain synchronous pure-Python functions, default BeartypeConf; bound methods, coroutines/generators '
                             '(C08), class decoration (C13), NoReturn and ignorable hints are not driven',
                             'keywords named __beartype_* (the wrapper\'s hidden parameters) and the sentinel object itself are '
                             'never passed'])
    return ck.finish()
