"""C14 — answers do not depend on what was asked before: memoisation is invisible (DESIGN §4 C14).

Proof side: Props/C14.lean (generic memo theorem from `KeyCongruent`, per key discipline; table theorems over
Extracted/Memo.lean, regenerated here from the AST of the code on every run).

Tie and oracle, on the REAL code:
  * fresh-interpreter differential (the property itself): every query of a generated history is keyed by
    (the definitions it refers to, the query). Its answers are collected from every history process it occurs in and
    from two extra batch processes per group of queries over the same definitions (asked in order / in reverse order:
    histories themselves, whose first query meets a truly fresh interpreter). Every key whose answers are not all
    identical, plus a seeded sample of the others, is asked of a fresh interpreter of its own; an occurrence that
    differs from a fresh answer is a violation and the (shrunk) history around it is the replay. A fresh interpreter
    is a fork() of a process that imported beartype and asked nothing (harness/impl/c14.py); forks are the expensive
    step on this machine, hence the budgeted use of true fresh answers.
  * lock-step of the table model: in histories restricted to what the model describes exactly (root-level
    is_bearable / die_if_unbearable on hints with plain children, TypeHint.is_subhint, (re)definitions, clear_caches())
    the instrumented history process reports per operation what the real dictionaries show (checker-table hit and
    insertion, what `_hint_repr_to_hint` holds for the hint's repr, `_HINT_TO_WRAPPER` hit, id-table hit, stale hit);
    the Lean model (`Driver/C14.lean`, in the repair state extracted from the code) must predict the same (exactly
    for the checker / repr tables; "every entry the model has exists" for the wrapper / id tables).
  * context-relative hints: methods of two or three different @beartype-decorated classes annotated by EQUAL hints that
    mention `typing.Self` (before a context-free sibling: tuple[Self, int], dict[Self, str], tuple[list[Self], list[int]];
    controls with Self last), called in both orders with instances of either class; equal relative forward references
    (tuple['Node', int], list['Node'], …) asked through is_bearable / die_if_unbearable / a decorated function from two
    or three caller scopes that each define their OWN class `Node` (a function's local class, a module's global class),
    in both orders; a module-level user generic `class GList(list[T])` with a late-bound alias `IntList = GList[int]` named by
    the STRING hints of one decorated callable both for an instance check and under `type[...]` (`def f(x: 'IntList', y:
    'type[IntList]')`, `'tuple[IntList, type[IntList]]'`, `'IntList | type[IntList]'`: one forward-reference proxy serves both),
    called with passing arguments first and a violating `GList(['a'])` afterwards and in the opposite order, with and without
    clear_caches() in between (fresh-interpreter differential only). The table lock-step covers the context-relative ones: the model (askBearC, treeCacheable over the visiting order of the
    hint's tree) predicts that no checker / expression for such a hint is ever stored.
Histories are adversarial by construction (look-alikes under ==/hash, same-named class redefinition with and
without @beartype, unhashable hints churned to force id() reuse, clear_caches() followed by new wrappers, forward
references failing now and defined later, configurations alternated); non-triviality is MEASURED in the history
process. The sampler draw is pinned to one constant in every process (it is an argument of the query).
"""
from __future__ import annotations

import atexit
import json
import os
import queue
import random
import subprocess
import threading
import time

from ..common import LEAN, PY, REPO, VERIF, Check, Explore, Failure, lean_driver, parse_sexp, sexp
from ..extract import memo as xmemo

MODULE = 'BearVerif.Props.C14'
PROP_FILE = LEAN / 'BearVerif/Props/C14.lean'

WORLD_OPS = ('defclass', 'deffunc', 'defself', 'defscope', 'defgen')
DEF_OPS = ('defclass', 'defself', 'defscope', 'defgen')          # operations that create the classes an expression can name
WORKERS = 16

# ------------------------------------------------------------------------------------------------------------
# running items against the real code
# ------------------------------------------------------------------------------------------------------------


class Pool:
    """WORKERS long-lived `python -m harness.impl.c14 --serve` processes (real beartype from $VERIF_REPO); each
    item runs in its own fork() of the worker's pristine interpreter."""

    def __init__(self, workers: int = WORKERS):
        env = dict(os.environ)
        env.update({'PYTHONPATH': f'{VERIF}:{REPO}', 'PYTHONDONTWRITEBYTECODE': '1', 'PYTHONHASHSEED': '0'})
        self.procs = [subprocess.Popen([PY, '-m', 'harness.impl.c14', '--serve'], cwd=VERIF, env=env, text=True,
                                       stdin=subprocess.PIPE, stdout=subprocess.PIPE, stderr=subprocess.DEVNULL)
                      for _ in range(workers)]
        for p in self.procs:
            if p.stdout.readline().strip() != 'ready':
                raise RuntimeError('harness.impl.c14 worker did not start')

    def run(self, items: list[dict]) -> list[dict]:
        out: list = [None] * len(items)
        q: queue.Queue = queue.Queue()
        for k, it in enumerate(items):
            q.put((k, it))

        def work(p):
            while True:
                try:
                    k, it = q.get_nowait()
                except queue.Empty:
                    return
                p.stdin.write(json.dumps(it) + '\n')
                p.stdin.flush()
                line = p.stdout.readline()
                out[k] = json.loads(line) if line.strip() else {'error': 'worker died'}
        ts = [threading.Thread(target=work, args=(p,)) for p in self.procs]
        for t in ts:
            t.start()
        for t in ts:
            t.join()
        return out

    def close(self):
        for p in self.procs:
            try:
                p.stdin.close()
            except Exception:            # noqa: BLE001
                pass
        for p in self.procs:
            try:
                p.wait(timeout=10)
            except Exception:            # noqa: BLE001
                p.kill()


_POOL: Pool | None = None


def run_items(items: list[dict]) -> list[dict]:
    """Every item in its own forked copy of a pristine interpreter, spread over the worker pool."""
    global _POOL
    if not items:
        return []
    if _POOL is None:
        _POOL = Pool()
        atexit.register(_POOL.close)
    return _POOL.run(items)


CLASS_NAMES = ('Foo', 'Bar', 'Later', 'Alpha', 'Beta', 'Gamma', 'ScA', 'ScB', 'ScC', 'GList')
GENERIC, ALIAS = 'GList', 'IntList'        # `class GList(list[T])`; `IntList = GList[int]` (both created by a defgen)


def names_in(e) -> set:
    """class names an operation (or expression) refers to"""
    if isinstance(e, str):
        return {n for n in CLASS_NAMES if n in e} | ({GENERIC} if ALIAS in e else set())
    if isinstance(e, (list, tuple)):
        out = set()
        for x in e:
            out |= names_in(x)
        return out
    return set()


def fresh_ops(ops: list, i: int) -> list:
    """What a fresh interpreter executes to answer operation i: the definitions the operation refers to (every
    generation of the classes it names, the function it calls and the classes that function's hint names), in
    their original order, then the operation itself. Nothing else of the history exists for it."""
    probe = ops[i]
    need = names_in(probe[1:]) if probe[0] != 'deffunc' else names_in(probe[2:])
    funcs = set()
    if probe[0] == 'call':
        funcs.add(probe[1])
        for op in ops[:i]:
            if op[0] == 'deffunc' and op[1] == probe[1]:
                need |= names_in(op[2:])
    world = [op for op in ops[:i] if (op[0] in DEF_OPS and op[1] in need) or (op[0] == 'deffunc' and op[1] in funcs)]
    return world + [probe]


class FreshOracle:
    """Answers of fresh interpreters, cached by (world prefix, query)."""

    def __init__(self):
        self.cache: dict[str, list] = {}
        self.evaluations = 0

    def answers(self, reqs: list[list]) -> list:
        keys = [json.dumps(r) for r in reqs]
        todo = {}
        for k, r in zip(keys, reqs):
            if k not in self.cache and k not in todo:
                todo[k] = r
        if todo:
            res = run_items([{'ops': r, 'observe': False} for r in todo.values()])
            self.evaluations += len(todo)
            for k, r in zip(todo, res):
                self.cache[k] = r['answers'][-1] if 'answers' in r else ['harness-error', r.get('error')]
        return [self.cache[k] for k in keys]


# ------------------------------------------------------------------------------------------------------------
# generator
# ------------------------------------------------------------------------------------------------------------
PLAIN = ['int', 'str', 'bool', 'float', 'bytes', 'object']
LOOKALIKE_LIT = [['lit', '1'], ['lit', 'True'], ['lit', '1.0'], ['lit', '0'], ['lit', 'False'], ['lit', '1', '2'],
                 ['lit', '2', '1'], ['lit', '"1"'], ['list', ['lit', '1']], ['list', ['lit', 'True']],
                 # unequal literals whose hashes collide (hash(-1) == hash(-2)): a table keyed by a hash cannot tell them apart
                 ['lit', '-1'], ['lit', '-2'], ['list', ['lit', '-1']], ['list', ['lit', '-2']]]
LOOKALIKE_UNION = [['union', 'int', 'str'], ['union', 'str', 'int'], ['or', 'int', 'str'], ['or', 'str', 'int'],
                   ['opt', 'int'], ['union', 'int', 'None'], ['or', 'int', 'None'], ['union', 'bool', 'int'],
                   ['union', 'int', 'bool']]
LOOKALIKE_LIST = [['List', 'int'], ['list', 'int'], ['list', 'bool'], ['List', 'bool'], ['list', 'float'],
                  ['List', 'float'], ['list', 'str'], ['tuplevar', 'int'], ['tuple', 'int', 'str'],
                  ['dict', 'str', 'int'], ['set', 'int'], ['list', ['list', 'int']], ['list', ['List', 'int']]]
LOOKALIKE_ANN = [['ann', 'int', '1'], ['ann', 'int', 'True'], ['ann', 'int', '1.0'], ['ann', 'str', '1'],
                 ['ann', 'bool', '1']]
UNHASHABLE = [['annU', 'int'], ['annU', 'str'], ['annU', 'bool'], ['annU', 'float'], ['annU', ['list', 'int']],
              ['list', ['annU', 'int']], ['annU', ['union', 'int', 'str']]]
OBJS = ['1', 'True', '1.0', '0', 'False', '"a"', '"1"', 'None', '[1]', '[True]', '[1.0]', '["a"]', '[]', '(1, "a")', '(1,)',
        '{"a": 1}', '{1}', '[[1]]', '2', '-1', '-2', '[-1]', '[-2]']


def cls_hints(name: str, g: int) -> list:
    c = ['cls', name, g]
    return [c, ['list', c], ['List', c], ['dict', 'str', c], ['tuple', c, 'int'], ['or', c, 'None'], ['opt', c],
            ['type', c], ['set', c], ['list', ['list', c]], ['union', c, 'int'], ['tuplevar', c]]


def cls_objs(name: str, g: int) -> list:
    i = ['inst', name, g]
    return [i, ['list', i], ['dict', ['"k"', i]], ['tuple', i, '1'], ['clsobj', name, g], ['set', i], ['list', ['list', i]], ['tuple', i]]


# hints whose meaning depends on the CONTEXT of the query. `Self` = the class being decorated; 'Node' = whatever the
# caller's scope calls Node. NONLAST: the context-relative hint is followed by a context-free sibling in the tree.
SELF_NONLAST = ['tuple[Self, int]', 'dict[Self, str]', 'tuple[list[Self], list[int]]']
SELF_LAST = ['tuple[int, Self]', 'list[Self]', 'Optional[Self]']
SELF_FREE = ['tuple[int, str]']                       # control: no Self at all (cached and shared, rightly)
SELF_CLASSES = ('Alpha', 'Beta', 'Gamma')
REF = ['ref', 'Node']
REF_NONLAST = [['tuple', REF, 'int'], ['dict', REF, 'str'], ['tuple', ['list', REF], ['list', 'int']]]
REF_LAST = [['list', REF], ['tuple', 'int', REF], ['opt', REF], ['dict', 'str', REF]]
SCOPES = ('ScA', 'ScB', 'ScC')


def self_obj(hintsrc: str, i) -> list:
    """objects probing a Self-hint with the instance expression `i` in the place of Self"""
    return {'tuple[Self, int]': [['tuple', i, '1'], ['tuple', i, '"a"']],
            'dict[Self, str]': [['dict', [i, '"a"']]],
            'tuple[list[Self], list[int]]': [['tuple', ['list', i], ['list', '1']]],
            'tuple[int, Self]': [['tuple', '1', i]],
            'list[Self]': [['list', i]],
            'Optional[Self]': [i, 'None'],
            'tuple[int, str]': ['(1, "a")', '(1, 2)']}[hintsrc]


def ref_obj(h, i) -> list:
    """objects probing a hint over 'Node' with the instance expression `i` in the place of a Node"""
    k = json.dumps(h)
    table = {json.dumps(['tuple', REF, 'int']): [['tuple', i, '1']],
             json.dumps(['dict', REF, 'str']): [['dict', [i, '"a"']]],
             json.dumps(['tuple', ['list', REF], ['list', 'int']]): [['tuple', ['list', i], ['list', '1']]],
             json.dumps(['list', REF]): [['list', i]],
             json.dumps(['tuple', 'int', REF]): [['tuple', '1', i]],
             json.dumps(['opt', REF]): [i, 'None'],
             json.dumps(['dict', 'str', REF]): [['dict', ['"k"', i]]]}
    return table.get(k, ['1', '[1]'])


class Builder:
    """Builds one history, tracking the world so that every expression refers to something that exists."""

    def __init__(self, rng: random.Random):
        self.rng = rng
        self.ops: list = []
        self.gens: dict[str, int] = {}
        self.funcs: dict[str, str] = {}       # fname -> class name its hint mentions
        self.nf = 0
        self.selfcls: dict[str, str] = {}     # class defined by a defself -> its hint
        self.scopes: list = []                # caller scopes defined so far

    def defclass(self, name, bt=None):
        if bt is None:
            bt = self.rng.random() < 0.5
        self.ops.append(['defclass', name, bool(bt)])
        self.gens[name] = self.gens.get(name, 0) + 1

    def any_gen(self, name):
        n = self.gens[name]
        return self.rng.choice([-1, -1, n - 1, self.rng.randrange(n)])

    def bear(self, h, o, api=None, conf=None):
        api = api or self.rng.choice(['is_bearable', 'is_bearable', 'die_if_unbearable', 'decor', 'th_is_bearable'])
        conf = self.rng.choice([0, 0, 0, 1, 2]) if conf is None else conf
        self.ops.append(['bear', api, h, o, conf])

    # -- scenario fragments --------------------------------------------------------------------------------
    def frag_redefine(self):
        r = self.rng
        name = r.choice(['Foo', 'Bar'])
        if name not in self.gens:
            self.defclass(name)
        for _ in range(r.randint(1, 3)):
            g = self.any_gen(name)
            self.bear(r.choice(cls_hints(name, g)), r.choice(cls_objs(name, self.any_gen(name))))
        if r.random() < 0.3:
            self.ops.append(['thsub', r.choice(cls_hints(name, -1)), r.choice(cls_hints(name, -1))])
        self.defclass(name)
        for _ in range(r.randint(1, 4)):
            g = self.any_gen(name)
            h = r.choice(cls_hints(name, g))
            self.bear(h, r.choice(cls_objs(name, g if r.random() < 0.7 else self.any_gen(name))))
        if r.random() < 0.3:
            self.ops.append(['sub', r.choice(cls_hints(name, -1)), r.choice(cls_hints(name, 0))])

    def frag_churn(self):
        r = self.rng
        pool = r.sample(UNHASHABLE, k=r.randint(2, 4))
        sup = r.choice(['int', 'str', ['union', 'int', 'str'], r.choice(UNHASHABLE), 'object', ['list', 'int']])
        kind = r.choice(['thsub', 'thsub', 'theq', 'sub'])
        for _ in range(r.randint(6, 30)):
            a = r.choice(pool)
            if r.random() < 0.25:
                self.ops.append([kind, sup, a])
            else:
                self.ops.append([kind, a, sup])

    def frag_hint_churn(self):
        """constructed (PEP 585) hints are new objects on every evaluation and die after the query: a cache keyed by
        the id() of HINTS (rather than wrappers) sees their addresses reused; truth values differ within the pool"""
        r = self.rng
        pool = [['list', 'bool'], ['list', 'str'], ['list', 'int'], ['list', 'object'], ['set', 'int'], ['set', 'bool'],
                ['tuplevar', 'bool'], ['tuplevar', 'int'], ['dict', 'str', 'bool'], ['dict', 'str', 'int'], ['list', ['list', 'bool']],
                ['list', ['list', 'int']]]
        kind = r.choice(['sub', 'sub', 'thsub', 'theq'])
        for _ in range(r.randint(6, 18)):
            if r.random() < 0.3:
                self.bear(r.choice(pool), r.choice(['[True]', '[1]', '["a"]', '{1}', '(True,)', '{"a": 1}', '[[1]]']),
                          api=r.choice(['is_bearable', 'die_if_unbearable']), conf=0)
            else:
                self.ops.append([kind, r.choice(pool), r.choice(pool)])

    def frag_clear_ids(self):
        r = self.rng
        pool = PLAIN + LOOKALIKE_UNION + LOOKALIKE_LIST + LOOKALIKE_LIT[:7]
        kind = r.choice(['sub', 'thsub', 'theq'])
        for _ in range(r.randint(2, 8)):
            self.ops.append([kind, r.choice(pool), r.choice(pool)])
        self.ops.append(['clear'] if r.random() < 0.8 else ['gc'])
        if r.random() < 0.3:
            self.ops.append(['gc'])
        for _ in range(r.randint(2, 10)):
            self.ops.append([r.choice([kind, 'sub', 'thsub', 'theq']), r.choice(pool), r.choice(pool)])

    def frag_lookalike(self):
        r = self.rng
        group = r.choice([LOOKALIKE_LIT, LOOKALIKE_UNION, LOOKALIKE_LIST, LOOKALIKE_ANN, PLAIN + LOOKALIKE_LIST])
        api = r.choice(['is_bearable', 'die_if_unbearable', None])
        conf = r.choice([0, None])
        for _ in range(r.randint(3, 8)):
            self.bear(r.choice(group), r.choice(OBJS), api=api, conf=conf)
        if r.random() < 0.4:
            for _ in range(r.randint(1, 4)):
                self.ops.append([r.choice(['sub', 'theq', 'thsub']), r.choice(group), r.choice(group)])

    def frag_conf(self):
        r = self.rng
        h = r.choice(['float', 'complex', ['list', 'float'], ['union', 'float', 'str']])
        o = r.choice(['1', '1.0', '[1]', 'True', '[1.0]'])
        api = r.choice(['is_bearable', 'die_if_unbearable', 'decor', 'th_is_bearable'])
        for c in r.sample([0, 1, 2, 0, 1], k=r.randint(2, 4)):
            self.bear(h, o, api=api, conf=c)

    def frag_fwdref(self):
        r = self.rng
        name = r.choice(['Later', 'Later', 'Foo'])
        self.nf += 1
        fn = f'f{self.nf}'
        shape = r.choice(["'{n}'", "list['{n}']", "'{n} | None'", "dict[str, '{n}']"])
        self.ops.append(['deffunc', fn, shape.format(n=name), r.choice([0, 0, 2])])
        self.funcs[fn] = name
        wrapo = {"'{n}'": lambda i: i, "list['{n}']": lambda i: ['list', i], "'{n} | None'": lambda i: i,
                 "dict[str, '{n}']": lambda i: ['dict', ['"k"', i]]}[shape]
        # a hot-reloaded module re-executes `@beartype class Name` again and AGAIN: with all_bt every (re)definition of
        # the referent is decorated, and there are up to four of them with calls in between
        all_bt = True if r.random() < 0.5 else None
        if name not in self.gens:
            if r.random() < 0.7:
                self.ops.append(['call', fn, r.choice(['1', 'None', '[1]'])])           # fails: unresolved
            if r.random() < 0.4:
                self.bear(['listref', f'c14mod.{name}'], '[1]', api=r.choice(['is_bearable', 'die_if_unbearable']))
            self.defclass(name, bt=all_bt)
        for _ in range(r.randint(1, 2)):
            self.ops.append(['call', fn, wrapo(['inst', name, self.any_gen(name)])])
        if r.random() < 0.6:
            for _round in range(r.choice([1, 1, 2, 3])):
                if r.random() < 0.35:
                    other = 'Bar' if name != 'Bar' else 'Foo'
                    self.defclass(other, bt=True)
                    self.defclass(other, bt=True)
                if r.random() < 0.3:
                    self.ops.append(['clear'])
                self.defclass(name, bt=all_bt)
                for _ in range(r.randint(1, 2)):
                    self.ops.append(['call', fn, wrapo(['inst', name, self.any_gen(name)])])
                if r.random() < 0.5:
                    self.bear(['listref', f'c14mod.{name}'], ['list', ['inst', name, -1]], api='is_bearable')

    def frag_generic(self):
        """a forward reference whose referent is a SUBSCRIPTED user generic (`IntList = GList[int]`, bound after the
        decoration), named by one callable both for an instance check and under type[...]: the proxy of that callable
        answers isinstance() through the hint (items checked) and issubclass() through the reduced type `GList`. Passing
        calls first and an object that is a GList but not a GList[int] afterwards, and the opposite order, with and
        without clear_caches() in between."""
        r = self.rng
        self.nf += 1
        fn = f'f{self.nf}'
        conf = r.choice([0, 0, 0, 2])
        ints = r.choice([['glist', '1'], ['glist', '1', '2', '3'], ['glist']])
        strs = r.choice([['glist', '"a"'], ['glist', '"a"'], ['glist', '"a"', '"b"']])
        gcls = ['clsobj', GENERIC, -1]
        shape = r.choice(['two', 'two', 'tuple', 'tuple', 'union'])
        if shape == 'two':
            self.ops.append(['deffunc', fn, f"'{ALIAS}'", conf, f"'type[{ALIAS}]'"])
            good, bad, others = [ints, gcls], [strs, gcls], [[ints, '1'], [['list', '1'], gcls]]
        elif shape == 'tuple':
            self.ops.append(['deffunc', fn, f"'tuple[{ALIAS}, type[{ALIAS}]]'", conf])
            good, bad, others = [['tuple', ints, gcls]], [['tuple', strs, gcls]], [[['tuple', ints, '1']], [['tuple', gcls, ints]]]
        else:
            self.ops.append(['deffunc', fn, f"'{ALIAS} | type[{ALIAS}]'", conf])
            good, bad, others = [r.choice([gcls, gcls, ints])], [strs], [['1'], [['list', '1']]]
        self.funcs[fn] = GENERIC
        if GENERIC not in self.gens:
            if r.random() < 0.4:
                # fails: the alias is not bound yet (so neither is the generic: plain objects only)
                self.ops.append(['call', fn] + {'two': ['1', '1'], 'tuple': ['(1, 1)'], 'union': ['1']}[shape])
            self.ops.append(['defgen', GENERIC])
            self.gens[GENERIC] = 1
        G, B, C = 'good', 'bad', 'clear'
        seq = list(r.choice([[G, B], [G, B, G, B], [B, G, B], [G, C, B], [G, B, C, B], [B, G, C, G, B], [G, C, G, B], [B, C, G, B, C, B]]))
        for _ in range(r.randint(0, 3)):
            seq.insert(r.randrange(len(seq) + 1), r.choice([G, B, B, 'other', C]))
        for x in seq:
            if x == C:
                self.ops.append(['clear'])
            else:
                self.ops.append(['call', fn] + (good if x == G else bad if x == B else r.choice(others)))

    def defself(self, name, hintsrc, conf=0):
        self.ops.append(['defself', name, hintsrc, conf])
        self.gens[name] = self.gens.get(name, 0) + 1
        self.selfcls[name] = hintsrc

    def mcalls(self, names, k):
        """k calls of methods of the classes `names`, each with an instance of ANY of the classes in Self's place"""
        r = self.rng
        for _ in range(k):
            c = r.choice(names)
            i = ['inst', r.choice(names if r.random() < 0.8 else list(self.selfcls)), -1]
            self.ops.append(['mcall', c, r.choice(['m', 'm', 'r']), r.choice(self_obj(self.selfcls[c], i))])

    def frag_self(self):
        """two or three different decorated classes whose methods are annotated by EQUAL hints mentioning Self; the
        classes are decorated (= their checks compiled) and called in a random order, calls also between decorations"""
        r = self.rng
        free = [n for n in SELF_CLASSES if n not in self.gens]
        if len(free) >= 2:
            hintsrc = r.choice(SELF_NONLAST * 3 + SELF_LAST * 2 + SELF_FREE)
            conf = r.choice([0, 0, 0, 2])
            names = r.sample(free, k=min(len(free), r.choice([2, 2, 3])))
            done = []
            for n in names:
                self.defself(n, hintsrc, conf)
                done.append(n)
                if r.random() < 0.4:
                    self.mcalls(done, r.randint(1, 2))
        if self.selfcls:
            self.mcalls(list(self.selfcls), r.randint(3, 8))

    def defscope(self, name, kind=None):
        self.ops.append(['defscope', name, kind or self.rng.choice(['func', 'func', 'module'])])
        self.gens[name] = 1
        self.scopes.append(name)

    def sbears(self, k, hints, apis=('is_bearable', 'is_bearable', 'die_if_unbearable', 'decor'), confs=(0, 0, 0, 1)):
        """k queries with hints over 'Node', each asked from inside one of the scopes with an instance of the Node of
        ANY scope (or no Node at all)"""
        r = self.rng
        for _ in range(k):
            h = r.choice(hints)
            who = r.choice(self.scopes + ['-'])
            o = r.choice(ref_obj(h, ['inst', who, -1])) if who != '-' else r.choice(['1', '(1, 1)', '[1]', 'None'])
            self.ops.append(['sbear', r.choice(self.scopes), r.choice(apis), h, o, r.choice(confs)])

    def frag_scope(self):
        """equal relative forward references asked from two or three caller scopes that each define their own `Node`"""
        r = self.rng
        free = [n for n in SCOPES if n not in self.gens]
        hints = r.sample(REF_NONLAST, k=r.randint(1, 2)) + r.sample(REF_LAST, k=r.randint(0, 2))
        if r.random() < 0.3:
            hints.append(r.choice([['list', 'int'], ['tuple', 'int', 'str']]))      # context-free: shared, rightly
        for n in (r.sample(free, k=min(len(free), r.choice([2, 2, 3]))) if len(free) >= 2 or not self.scopes else []):
            self.defscope(n)
            if r.random() < 0.4:
                self.sbears(r.randint(1, 2), hints)
        if r.random() < 0.15:
            self.ops.append(['clear'])
        self.sbears(r.randint(3, 9), hints)

    def frag_noise(self):
        r = self.rng
        k = r.random()
        if k < 0.25:
            self.ops.append(['clear'])
        elif k < 0.35:
            self.ops.append(['gc'])
        elif k < 0.7:
            self.bear(r.choice(PLAIN + LOOKALIKE_LIT + LOOKALIKE_UNION + LOOKALIKE_LIST + LOOKALIKE_ANN + UNHASHABLE), r.choice(OBJS))
        else:
            pool = PLAIN + LOOKALIKE_UNION + LOOKALIKE_LIST + UNHASHABLE
            self.ops.append([r.choice(['sub', 'thsub', 'theq']), r.choice(pool), r.choice(pool)])


TABLE_HINTS = ['int', 'str', ['list', 'int'], ['List', 'int'], ['list', 'bool'], ['union', 'int', 'str'], ['union', 'str', 'int'],
               ['or', 'int', 'str'], ['or', 'str', 'int'], ['lit', '1'], ['lit', 'True'], ['lit', '1', '2'], ['lit', '2', '1'],
               ['annU', 'int'], ['annU', 'str'], ['ann', 'int', '1'], ['ann', 'int', 'True'], ['dict', 'str', 'int'], ['set', 'int']]
TABLE_WRAPPED = ['int', 'str', 'bool', ['annU', 'int'], ['annU', 'str'], ['annU', 'bool'], ['lit', '1'], ['lit', 'True']]


def gen_table_history(rng: random.Random) -> list:
    """History in the scope the table model describes exactly: root-level is_bearable / die_if_unbearable on
    hints whose children are plain classes, TypeHint.is_subhint on plain / unhashable hints, (re)definitions,
    clear_caches()."""
    b = Builder(rng)
    b.defclass('Foo')
    ctx = rng.random() < 0.6              # also queries asked from caller scopes, and classes whose hints mention Self
    if ctx:
        for n in rng.sample(SCOPES, k=2):
            b.defscope(n)
    for _ in range(rng.randint(6, 16)):
        k = rng.random()
        if ctx and k < 0.3:
            h = rng.choice(REF_NONLAST + REF_LAST + [['list', 'int'], ['tuple', 'int', 'str'], ['dict', 'str', 'int']])
            b.sbears(1, [h], apis=('is_bearable', 'die_if_unbearable'), confs=(0, 0, 1))
        elif ctx and k < 0.36:
            free = [n for n in SELF_CLASSES if n not in b.gens]
            if free:
                b.defself(free[0], rng.choice(SELF_NONLAST + SELF_LAST + SELF_FREE + ['tuple[str, int]']))
        elif k < 0.55:
            if rng.random() < 0.5:
                c = ['cls', 'Foo', b.any_gen('Foo')]
                h = rng.choice([c, ['list', c], ['dict', 'str', c], ['or', c, 'None'], ['set', c], ['List', c]])
            else:
                h = rng.choice(TABLE_HINTS)
            b.bear(h, rng.choice(OBJS + [['inst', 'Foo', -1], ['list', ['inst', 'Foo', -1]]]),
                   api=rng.choice(['is_bearable', 'die_if_unbearable']), conf=rng.choice([0, 0, 1]))
        elif k < 0.8:
            b.ops.append(['thsub', rng.choice(TABLE_WRAPPED), rng.choice(TABLE_WRAPPED)])
        elif k < 0.9:
            b.defclass('Foo')
        else:
            b.ops.append(['clear'])
    return b.ops


FRAGS = [('redefine', 4), ('churn', 3), ('hint_churn', 2), ('clear_ids', 3), ('lookalike', 3), ('conf', 1), ('fwdref', 3),
         ('self', 3), ('scope', 3), ('generic', 3)]


def gen_history(rng: random.Random) -> list:
    b = Builder(rng)
    if rng.random() < 0.8:
        b.defclass('Foo')
    if rng.random() < 0.5:
        b.defclass('Bar')
    names = [n for n, w in FRAGS for _ in range(w)]
    for _ in range(rng.randint(1, 3)):
        getattr(b, 'frag_' + rng.choice(names))()
        while rng.random() < 0.3:
            b.frag_noise()
    return b.ops


# ------------------------------------------------------------------------------------------------------------
# oracle, shrinking, classification
# ------------------------------------------------------------------------------------------------------------
def is_probe(op) -> bool:
    return op[0] in ('bear', 'sub', 'thsub', 'theq', 'call', 'deffunc', 'defself', 'mcall', 'sbear')


def hint_visit(e) -> list:
    """Per hint of the tree of the hint expression `e`, breadth first from the root (the order in which the code
    generator sanifies them): is it context-relative (typing.Self, a stringified forward reference)?"""
    out, queue_ = [], [e]
    while queue_:
        x = queue_.pop(0)
        if isinstance(x, str):
            out.append(x == 'Self')
            continue
        k = x[0]
        if k in ('ref', 'listref'):
            out += [True] if k == 'ref' else [False, True]
            continue
        out.append(False)
        if k in ('cls', 'lit'):
            continue
        queue_ += list(x[1:2] if k in ('ann', 'annU') else x[1:])
    return out


def selfsrc_expr(src: str):
    """hint expression of the source text of a Self-hint (the shapes of SELF_NONLAST / SELF_LAST / SELF_FREE)"""
    return {'tuple[Self, int]': ['tuple', 'Self', 'int'], 'dict[Self, str]': ['dict', 'Self', 'str'],
            'tuple[list[Self], list[int]]': ['tuple', ['list', 'Self'], ['list', 'int']],
            'tuple[int, Self]': ['tuple', 'int', 'Self'], 'list[Self]': ['list', 'Self'], 'Optional[Self]': ['opt', 'Self'],
            'tuple[int, str]': ['tuple', 'int', 'str'], 'tuple[str, int]': ['tuple', 'str', 'int']}[src]


def mentions(e, name) -> bool:
    if isinstance(e, str):
        return name in e
    if not isinstance(e, (list, tuple)):
        return False
    return any(mentions(x, name) for x in e)


def classify(ops: list, stats: dict) -> str:
    """Canonical identity of a shrunk failing history: which table discipline it exploits."""
    probe = ops[-1]
    redefined = sorted({op[1] for op in ops if op[0] == 'defclass' and sum(1 for o in ops if o[0] == 'defclass' and o[1] == op[1]) > 1})
    shape = ' '.join(op[0] if op[0] != 'bear' else 'bear.' + op[1] for op in ops)
    if probe[0] in ('sub', 'thsub', 'theq'):
        # wrappers die when they wrap an unhashable hint (never cached) or when clear_caches() empties the wrapper cache
        died = any(op[0] in ('sub', 'thsub', 'theq') and mentions(op[1:], 'annU') for op in ops[:-1]) or \
            any(op[0] == 'clear' for op in ops) or bool(redefined)
        if stats.get('id_stale_hit', 0) or stats.get('id_reuse', 0) or died:
            return 'C14:id-key:address-reuse-after-gc'
        return 'C14:door:' + shape
    if probe[0] in ('mcall', 'defself'):
        # a method of one decorated class answered with the check compiled for ANOTHER class annotated by an equal hint
        name = probe[1]
        hintsrc = next((op[2] for op in ops if op[0] == 'defself' and op[1] == name), None)
        others = [op for op in ops[:-1] if op[0] == 'defself' and op[1] != name and op[2] == hintsrc]
        if others and hintsrc is not None and 'Self' in hintsrc:
            return 'C14:context-relative:self-hint-of-another-class'
        return 'C14:' + probe[0] + ':' + shape
    if probe[0] == 'sbear':
        scopes = {op[1] for op in ops[:-1] if op[0] == 'sbear' and op[1] != probe[1] and op[3] == probe[3]}
        if scopes and mentions(probe[3], 'ref'):
            return 'C14:context-relative:forward-reference-of-another-scope'
        if mentions(probe[3], 'ref') and any(op[0] == 'sbear' and op[3] == probe[3] for op in ops[:-1]):
            return 'C14:context-relative:forward-reference-asked-before'
        return 'C14:sbear:' + shape
    if probe[0] == 'call':
        target = next((op for op in ops if op[0] == 'deffunc' and op[1] == probe[1]), None)
        if target is not None and mentions(target[2:], ALIAS):
            # a forward reference to a subscripted user generic: the proxy holds the hint (GList[int]) and, once a type[...]
            # check of the same proxy has passed, the reduced type (GList); an instance check must go on using the former
            earlier = [op for op in ops[:-1] if op[0] == 'call' and op[1] == probe[1]]
            if earlier and mentions(target[2:], 'type['):
                return 'C14:fwdref-referent:subscripted-generic-alias-after-type-check'
            return 'C14:fwdref-referent:subscripted-generic-alias:' + shape
        if target is not None and "'" in target[2] and any(n in target[2] for n in redefined):
            name = next(n for n in redefined if n in target[2])
            idx = [j for j, op in enumerate(ops) if op[0] == 'defclass' and op[1] == name]
            if not all(ops[j][2] for j in idx):
                return 'C14:fwdref-referent:plain-class-redefinition'
            # every definition of the referent is decorated: beartype should have noticed — unless the decorated
            # redefinition of ANOTHER class in between reset its set of decorated names
            others = {op[1] for op in ops[idx[0]:idx[-1]] if op[0] == 'defclass' and op[2] and op[1] != name}
            reset = any(sum(1 for op in ops[:idx[-1]] if op[0] == 'defclass' and op[2] and op[1] == o) > 1 for o in others)
            if reset:
                return 'C14:fwdref-referent:beartyped-redefinition-after-set-reset'
            return 'C14:fwdref-referent:beartyped-redefinition-not-cleared'
        return 'C14:call:' + shape
    if probe[0] == 'bear':
        if any(mentions(probe[2], n) for n in redefined):
            if probe[2][0] == 'listref' or probe[2][0] == 'ref':
                return 'C14:fwdref-referent:plain-class-redefinition'
            return 'C14:repr-key:same-named-class-redefinition'
        return 'C14:bear:' + shape
    return 'C14:' + shape


def render(op) -> str:
    """Readable Python-ish rendering of an operation (for `what` and replays)."""
    def h(e):
        if isinstance(e, str):
            return e
        k = e[0]
        if k == 'cls':
            return e[1] + ('' if e[2] == -1 else f'@gen{e[2]}')
        if k in ('list', 'set', 'type'):
            return f'{k}[{h(e[1])}]'
        if k == 'List':
            return f'typing.List[{h(e[1])}]'
        if k == 'tuple':
            return 'tuple[' + ', '.join(h(x) for x in e[1:]) + ']'
        if k == 'tuplevar':
            return f'tuple[{h(e[1])}, ...]'
        if k == 'dict':
            return f'dict[{h(e[1])}, {h(e[2])}]'
        if k == 'union':
            return 'Union[' + ', '.join(h(x) for x in e[1:]) + ']'
        if k == 'or':
            return ' | '.join(h(x) for x in e[1:])
        if k == 'opt':
            return f'Optional[{h(e[1])}]'
        if k == 'lit':
            return 'Literal[' + ', '.join(e[1:]) + ']'
        if k == 'annU':
            return f'Annotated[{h(e[1])}, []]'
        if k == 'ann':
            return f'Annotated[{h(e[1])}, {e[2]}]'
        if k == 'ref':
            return repr(e[1])
        if k == 'type':
            return f'type[{h(e[1])}]' 
        if k == 'listref':
            return f'list[{e[1]!r}]'
        return str(e)

    def o(e):
        if isinstance(e, str):
            return e
        k = e[0]
        if k == 'inst':
            if e[1] in SCOPES:
                return f'{e[1]}.Node()'
            return h(['cls', e[1], e[2]]) + '()'
        if k == 'clsobj':
            return h(['cls', e[1], e[2]])
        if k == 'glist':
            return f'{GENERIC}([' + ', '.join(o(x) for x in e[1:]) + '])'
        if k == 'list':
            return '[' + ', '.join(o(x) for x in e[1:]) + ']'
        if k == 'tuple':
            return '(' + ', '.join(o(x) for x in e[1:]) + ',)'
        if k == 'set':
            return '{' + ', '.join(o(x) for x in e[1:]) + '}'
        if k == 'dict':
            return '{' + ', '.join(f'{o(a)}: {o(b)}' for a, b in e[1:]) + '}'
        return str(e)
    k = op[0]
    if k == 'defclass':
        return ('@beartype ' if op[2] else '') + f'class {op[1]}: pass'
    if k == 'deffunc':
        return (f'@beartype(conf=C{op[3] if len(op) > 3 else 0}) def {op[1]}(x: {op[2]}' +
                (f', y: {op[4]}' if len(op) > 4 else '') + ') -> int')
    if k == 'defgen':
        return f'class {op[1]}(list[T]): pass; {ALIAS} = {op[1]}[int]'
    if k == 'bear':
        c = f', conf=C{op[4]}' if len(op) > 4 and op[4] else ''
        if op[1] == 'decor':
            return f'(@beartype{c.replace(", ", "(") + ")" if c else ""} def p(x: {h(op[2])}))({o(op[3])})'
        if op[1] == 'th_is_bearable':
            return f'TypeHint({h(op[2])}).is_bearable({o(op[3])}{c})'
        return f'{op[1]}({o(op[3])}, {h(op[2])}{c})'
    if k == 'sub':
        return f'is_subhint({h(op[1])}, {h(op[2])})'
    if k == 'thsub':
        return f'TypeHint({h(op[1])}).is_subhint(TypeHint({h(op[2])}))'
    if k == 'theq':
        return f'TypeHint({h(op[1])}) == TypeHint({h(op[2])})'
    if k == 'call':
        return f'{op[1]}(' + ', '.join(o(x) for x in op[2:]) + ')'
    if k == 'defself':
        c = f'(conf=C{op[3]})' if len(op) > 3 and op[3] else ''
        return f'@beartype{c} class {op[1]}: def m(self, x: {op[2]}) -> int; def r(self, x) -> {op[2]}'
    if k == 'mcall':
        return f'{op[1]}().{op[2]}({o(op[3])})'
    if k == 'defscope':
        return (f'def scope_{op[1]}(): class Node: pass; <queries asked here>' if op[2] == 'func' else
                f'module c14s_{op[1]}: class Node: pass; <queries asked here>')
    if k == 'sbear':
        c = f', conf=C{op[5]}' if len(op) > 5 and op[5] else ''
        if op[2] == 'decor':
            return f'in scope {op[1]}: (@beartype{"(" + c[2:] + ")" if c else ""} def g(x: {h(op[3])}))({o(op[4])})'
        return f'in scope {op[1]}: {op[2]}({o(op[4])}, {h(op[3])}{c})'
    if k == 'clear':
        return 'clear_caches()'
    return k + '()'


def first_diff(ops: list, answers: list, oracle: FreshOracle):
    """(index, history answer, fresh answer) of the first query of `ops` answered differently from a fresh
    interpreter, or None."""
    idx = [i for i, op in enumerate(ops) if is_probe(op)]
    fresh = oracle.answers([fresh_ops(ops, i) for i in idx])
    for i, f in zip(idx, fresh):
        if f is not None and f[0] == 'harness-error':
            return None
        if answers[i] != f:
            return i, answers[i], f
    return None


def fails(ops: list, oracle: FreshOracle, tries: int = 1, robust: bool = False):
    """Is SOME query of the history `ops` answered differently from a fresh interpreter? Returns
    (index, history answer, fresh answer, stats, instrumented) or None. Which address a new object gets depends
    on everything else the process allocates, so the history is run both instrumented and bare; `robust` demands
    a difference in every one of those runs (a replay must reproduce), otherwise one run is enough."""
    items = [{'ops': ops, 'observe': True}] * tries + [{'ops': ops, 'observe': False}] * tries
    res = run_items(items)
    hits = []
    for it, r in zip(items, res):
        d = first_diff(ops, r['answers'], oracle) if 'answers' in r else None
        if d is not None:
            hits.append((d, it, r))
    if not hits or (robust and len(hits) < len(items)):
        return None
    d, it, r = hits[0]
    return d[0], d[1], d[2], (r['stats'] if it['observe'] else {}), it['observe']


def shrink(ops: list, oracle: FreshOracle, deadline: float) -> list:
    """Delta-debugging of the history, keeping "some query differs from fresh, in an instrumented and in a bare
    process" (a world operation that the rest needs cannot be removed: the candidate then errors and is discarded).
    Chunks first, single operations last; stops at `deadline` with what it has (still a failing history)."""
    def still_fails(cands):
        uniq, seen = [], set()
        for c in cands:
            k = json.dumps(c)
            if k not in seen and any(is_probe(op) for op in c):
                seen.add(k)
                uniq.append(c)
        if not uniq:
            return None
        res = run_items([{'ops': c, 'observe': ob} for c in uniq for ob in (False, True)])
        ok = [c for j, c in enumerate(uniq)
              if all('answers' in r and first_diff(c, r['answers'], oracle) is not None for r in res[2 * j:2 * j + 2])]
        return min(ok, key=len) if ok else None
    cur = ops
    chunk = max(1, len(cur) // 2)
    rounds = 0
    while rounds < 40 and time.time() < deadline:
        rounds += 1
        n = len(cur)
        if n <= 1:
            break
        chunk = min(chunk, n - 1)
        cands = [cur[:a] + cur[a + chunk:] for a in range(0, n, chunk)]
        nxt = still_fails([c for c in cands if c and len(c) < len(cur)])
        if nxt is not None:
            cur = nxt
            continue
        if chunk == 1:
            break
        chunk = max(1, chunk // 2)
    return cur


# ------------------------------------------------------------------------------------------------------------
# lock-step with the Lean table model
# ------------------------------------------------------------------------------------------------------------
TAGS = {'is_bearable': 0, 'die_if_unbearable': 1}


def model_trace(ops: list, obs: list):
    """Abstract trace of an observed history: every hint replaced by what Python's own ==, hash and repr said
    about it in the history process (`eqc` = its class under ==), every TypeHint wrapper by the address CPython
    gave it (renumbered). Returns (request items, expected observations)."""
    uid: dict[str, int] = {}
    reqs, exp = [], []
    addr: dict[int, int] = {}
    ctxs: dict[str, int] = {}

    def val(fp, eqc, rep, hashable, worthy, visit):
        return [uid.setdefault(fp, len(uid) + 1), eqc, rep or 'none', bool(hashable), bool(worthy), [bool(x) for x in visit]]

    def a(x):
        return addr.setdefault(x, len(addr) + 1)
    for op, ob in zip(ops, obs):
        if ob is None:
            continue
        if ob['kind'] == 'bear':
            # asked at the top level (context 0) or from inside a caller scope (op 'sbear': contexts 1, 2, …)
            he, conf = (op[3], op[5] if len(op) > 5 else 0) if op[0] == 'sbear' else (op[2], op[4] if len(op) > 4 else 0)
            ctx = ctxs.setdefault(op[1], len(ctxs) + 1) if op[0] == 'sbear' else 0
            tag = 10 * (conf or 0) + TAGS[ob['table']]
            worthy = ob['repr_stored'] != 'absent' or ob['repr_present']
            reqs.append(['bear', tag, val(ob['fp'], ob['eqc'], ob['repr'], ob['hashable'], worthy, hint_visit(he)), ctx])
            exp.append(['hit' if ob['hit'] else 'miss', 'cached' if ob['cached_after'] else 'uncached', ob['repr_stored']])
        elif ob['kind'] == 'thsub':
            reqs.append(['thsub', val(ob['fa'], ob['eqa'], 'w', ob['hasha'], False, hint_visit(op[1])), a(ob['ida']),
                         val(ob['fb'], ob['eqb'], 'w', ob['hashb'], False, hint_visit(op[2])), a(ob['idb'])])
            exp.append([ob['whit_a'], ob['whit_b'], ob['idhit'], ob['stale']])
        elif ob['kind'] == 'defself':
            # decorating a class compiles the checks of its methods: is the expression of the methods' hint stored in
            # _HINT_CONF_TO_CHECK_EXPR afterwards? The model answers from the visiting order of the hint's tree.
            if ob['cleared']:
                reqs.append(['clear'])
                exp.append(['cleared'])
            if ob.get('decorated'):
                reqs.append(['tree', val('src:' + op[2], 0, 'none', True, False, hint_visit(selfsrc_expr(op[2])))])
                exp.append(['cacheable' if ob['expr_after'] else 'uncacheable'])
        elif ob['kind'] == 'clear' or (ob['kind'] == 'defclass' and ob['cleared']):
            reqs.append(['clear'])
            exp.append(['cleared'])
    return reqs, exp


def lockstep(histories: list, results: list, ex: Explore, limit: int):
    lines, expect, idx = [], [], []
    for k, (ops, r) in enumerate(zip(histories, results)):
        if len(lines) >= limit or 'obs' not in r:
            continue
        reqs, exp = model_trace(ops, r['obs'])
        if not reqs:
            continue
        lines.append(sexp(['c14', reqs]))
        expect.append(exp)
        idx.append(k)
    if not lines:
        return
    tolerated = 0
    for k, line, exp in zip(idx, lean_driver(lines, 'C14'), expect):
        v = parse_sexp(line)
        if v[0] != 'ok':
            ex.corr_diffs.append({'history': histories[k], 'model': line})
            continue
        ex.traces_validated += 1
        for j, (m, e) in enumerate(zip(v[1], exp)):
            e = [x if isinstance(x, str) else ('true' if x else 'false') for x in e]
            if len(m) == 4:
                # wrapper and id tables: the model tracks the entries of top-level calls only (beartype also wraps
                # child hints and compares them, and wraps some hints at import time), so every entry the model says
                # exists must exist — not conversely
                ok = all(mm != 'true' or ee == 'true' for mm, ee in zip(m, e))
                if ok and m != e:
                    tolerated += 1
            else:
                ok = m == e
            if not ok:
                ex.corr_diffs.append({'history': [render(o) for o in histories[k]], 'observed_op_index': j,
                                      'model_predicts': m, 'real_tables_show': e})
                break
    ex.extra['lockstep_door_entries_beyond_toplevel_calls'] = tolerated


# ------------------------------------------------------------------------------------------------------------
# exploration
# ------------------------------------------------------------------------------------------------------------
CORPUS = [
    # F-C14a: two same-named classes, PEP 585 hint keyed by repr
    [['defclass', 'Foo', False], ['bear', 'is_bearable', ['list', ['cls', 'Foo', -1]], ['list', ['inst', 'Foo', -1]], 0],
     ['defclass', 'Foo', False], ['bear', 'is_bearable', ['list', ['cls', 'Foo', -1]], ['list', ['inst', 'Foo', -1]], 0]],
    # F-C14b: unhashable hints churned, wrappers keyed by id
    [op for i in range(24) for op in [['thsub', ['annU', 'int' if i % 2 == 0 else 'str'], 'int']]],
    # wrappers of hashable hints die at clear_caches(); their addresses are reused
    [['sub', a, b] for a in PLAIN[:4] for b in PLAIN[:4]] + [['clear']] + [['sub', a, b] for a in PLAIN[2:] + [['list', 'int']] for b in PLAIN[:5]],
    # failing forward reference defined later
    [['deffunc', 'f1', "'Later'", 0], ['call', 'f1', '1'], ['defclass', 'Later', False], ['call', 'f1', ['inst', 'Later', -1]]],
    # decorated redefinitions: noticed (clear_caches) ...
    [['deffunc', 'f1', "'Later'", 0], ['defclass', 'Later', True], ['call', 'f1', ['inst', 'Later', -1]],
     ['defclass', 'Later', True], ['call', 'f1', ['inst', 'Later', -1]], ['call', 'f1', ['inst', 'Later', 0]]],
    # ... unless the decorated redefinition of another class reset the set of decorated names in between
    [['deffunc', 'f1', "'Foo'", 0], ['defclass', 'Foo', True], ['defclass', 'Bar', True], ['defclass', 'Bar', True],
     ['call', 'f1', ['inst', 'Foo', -1]], ['defclass', 'Foo', True], ['call', 'f1', ['inst', 'Foo', -1]]],
    # equal Self-hints of two decorated classes, Self before a context-free sibling; both orders of the calls
    [['defself', 'Alpha', 'tuple[Self, int]', 0], ['defself', 'Beta', 'tuple[Self, int]', 0],
     ['mcall', 'Alpha', 'm', ['tuple', ['inst', 'Alpha', -1], '1']], ['mcall', 'Beta', 'm', ['tuple', ['inst', 'Beta', -1], '1']],
     ['mcall', 'Beta', 'm', ['tuple', ['inst', 'Alpha', -1], '1']], ['mcall', 'Alpha', 'r', ['tuple', ['inst', 'Beta', -1], '1']]],
    [['defself', 'Beta', 'dict[Self, str]', 0], ['mcall', 'Beta', 'r', ['dict', [['inst', 'Beta', -1], '"a"']]],
     ['defself', 'Alpha', 'dict[Self, str]', 0], ['mcall', 'Alpha', 'm', ['dict', [['inst', 'Alpha', -1], '"a"']]],
     ['mcall', 'Alpha', 'm', ['dict', [['inst', 'Beta', -1], '"a"']]], ['mcall', 'Beta', 'm', ['dict', [['inst', 'Beta', -1], '"a"']]]],
    # equal relative forward references asked from two scopes with their own Node; both orders
    [['defscope', 'ScA', 'func'], ['defscope', 'ScB', 'func'],
     ['sbear', 'ScA', 'is_bearable', ['tuple', REF, 'int'], ['tuple', ['inst', 'ScA', -1], '1'], 0],
     ['sbear', 'ScB', 'is_bearable', ['tuple', REF, 'int'], ['tuple', ['inst', 'ScB', -1], '1'], 0],
     ['sbear', 'ScB', 'is_bearable', ['tuple', REF, 'int'], ['tuple', ['inst', 'ScA', -1], '1'], 0],
     ['sbear', 'ScA', 'die_if_unbearable', ['list', REF], ['list', ['inst', 'ScA', -1]], 0],
     ['sbear', 'ScB', 'die_if_unbearable', ['list', REF], ['list', ['inst', 'ScB', -1]], 0]],
    [['defscope', 'ScB', 'module'], ['defscope', 'ScA', 'module'],
     ['sbear', 'ScB', 'decor', ['tuple', REF, 'int'], ['tuple', ['inst', 'ScB', -1], '1'], 0],
     ['sbear', 'ScA', 'decor', ['tuple', REF, 'int'], ['tuple', ['inst', 'ScA', -1], '1'], 0],
     ['sbear', 'ScA', 'decor', ['tuple', REF, 'int'], ['tuple', ['inst', 'ScB', -1], '1'], 0]],
    # forward reference to a subscripted user generic, instance check and type[...] check through ONE proxy: passing
    # calls first, a GList that is not a GList[int] afterwards; the opposite order; clear_caches() in between
    [['deffunc', 'f1', "'IntList'", 0, "'type[IntList]'"], ['defgen', 'GList'],
     ['call', 'f1', ['glist', '1', '2'], ['clsobj', 'GList', -1]], ['call', 'f1', ['glist', '"a"'], ['clsobj', 'GList', -1]],
     ['clear'], ['call', 'f1', ['glist', '"a"'], ['clsobj', 'GList', -1]], ['call', 'f1', ['glist', '1', '2'], ['clsobj', 'GList', -1]],
     ['call', 'f1', ['glist', '"a"'], ['clsobj', 'GList', -1]]],
    [['deffunc', 'f1', "'IntList'", 0, "'type[IntList]'"], ['defgen', 'GList'],
     ['call', 'f1', ['glist', '"a"'], ['clsobj', 'GList', -1]], ['call', 'f1', ['glist', '1', '2'], ['clsobj', 'GList', -1]],
     ['call', 'f1', ['glist', '"a"'], ['clsobj', 'GList', -1]]],
    [['deffunc', 'f1', "'tuple[IntList, type[IntList]]'", 0], ['defgen', 'GList'],
     ['call', 'f1', ['tuple', ['glist', '1'], ['clsobj', 'GList', -1]]], ['call', 'f1', ['tuple', ['glist', '"a"'], ['clsobj', 'GList', -1]]],
     ['clear'], ['call', 'f1', ['tuple', ['glist', '"a"'], ['clsobj', 'GList', -1]]]],
    [['deffunc', 'f1', "'tuple[IntList, type[IntList]]'", 2], ['defgen', 'GList'],
     ['call', 'f1', ['tuple', ['glist', '"a"'], ['clsobj', 'GList', -1]]], ['call', 'f1', ['tuple', ['glist', '1'], ['clsobj', 'GList', -1]]],
     ['call', 'f1', ['tuple', ['glist', '"a"'], ['clsobj', 'GList', -1]]]],
    # configurations are part of the key
    [['bear', 'is_bearable', 'float', '1', 0], ['bear', 'is_bearable', 'float', '1', 1], ['bear', 'is_bearable', 'float', '1', 0],
     ['bear', 'die_if_unbearable', ['list', 'float'], '[1]', 1], ['bear', 'die_if_unbearable', ['list', 'float'], '[1]', 0]],
]


def explore(ck: Check, n: int, seed: int, n_table: int, n_truth: int, shrink_seconds: float = 90) -> Explore:
    """Forking a pristine interpreter is the expensive step, so true fresh-interpreter answers are bought where
    they decide something. Every query occurrence is keyed by (definitions it refers to, query). Its answers are
    collected from every history process it occurs in AND from two extra "batch" processes per group of queries
    over the same definitions (one asks the group in order, one in reverse order — themselves histories, whose
    first query is asked of a truly fresh interpreter). A key whose answers are not all identical, and a seeded
    sample of `n_truth` further keys, is asked of a fresh interpreter of its own; every occurrence that differs
    from a fresh answer is a violation, and the history before it is the failing input."""
    ex = Explore(rule='a history (4-60 operations over is_bearable / die_if_unbearable / decorated call / TypeHint.is_bearable / '
                      'is_subhint / TypeHint.is_subhint / TypeHint == / call of an earlier-decorated function / method calls of '
                      'decorated classes annotated by equal Self-hints / queries asked from inside caller scopes / class '
                      '(re)definition with or without @beartype / clear_caches() / gc) counts as non-trivial only if the '
                      'instrumented history process OBSERVED in it: an id() of a dead TypeHint reused by a new one, or two '
                      'non-== hints with the same repr reaching the repr table, or a checker/id-table cache hit, or an equal '
                      'context-relative hint (typing.Self / relative forward reference) asked from a second class / caller scope, '
                      'or a callable whose string hints name the alias of a subscripted user generic (instance check and '
                      'type[...] through one forward-reference proxy) called again after a passing call')
    rng = random.Random(seed)
    oracle = FreshOracle()
    t0 = time.time()
    phases = {}
    histories = [list(h) for h in CORPUS] + [gen_history(rng) for _ in range(n)]
    table_from = len(histories)
    histories += [gen_table_history(rng) for _ in range(n_table)]
    user_histories = len(histories)
    results = run_items([{'ops': h, 'observe': True} for h in histories])
    phases['histories'] = round(time.time() - t0, 1)
    for k, r in enumerate(results):
        if 'answers' not in r:
            raise RuntimeError(f'history {k} did not run: {r.get("error")} {r.get("trace", "")}\n{histories[k]}')
    # occurrences of every query key
    occ: dict[str, list] = {}
    req: dict[str, list] = {}

    def note(k, h, answers):
        for i, op in enumerate(h):
            if is_probe(op):
                f = fresh_ops(h, i)
                key = json.dumps(f)
                req[key] = f
                occ.setdefault(key, []).append((k, i, answers[i]))
    for k, (h, r) in enumerate(zip(histories, results)):
        note(k, h, r['answers'])
    # batch processes: the queries over the same definitions, in order and in reverse order
    groups: dict[str, list] = {}
    for key, f in req.items():
        groups.setdefault(json.dumps(f[:-1]), []).append(f)
    batch_ops = []
    for wkey, fs in groups.items():
        world = json.loads(wkey)
        probes = [f[-1] for f in fs]
        rng.shuffle(probes)
        for c in range(0, len(probes), 40):
            chunk = probes[c:c + 40]
            batch_ops.append(world + chunk)
            if len(chunk) > 1:
                batch_ops.append(world + chunk[::-1])
    t1 = time.time()
    batch_res = run_items([{'ops': b, 'observe': False} for b in batch_ops])
    phases['batches'] = round(time.time() - t1, 1)
    truth: dict[str, list] = {}
    for b, r in zip(batch_ops, batch_res):
        if 'answers' not in r:
            raise RuntimeError(f'batch did not run: {r.get("error")} {r.get("trace", "")}\n{b}')
        k = len(histories)
        histories.append(b)
        results.append(r)
        note(k, b, r['answers'])
        first = next(i for i, op in enumerate(b) if op[0] not in WORLD_OPS or i == len(b) - 1)
        if fresh_ops(b, first) == b[:first + 1]:
            truth[json.dumps(b[:first + 1])] = r['answers'][first]      # asked of a truly fresh interpreter
    # true fresh answers: every key with disagreeing occurrences, then a seeded sample
    disagree = [key for key, os_ in occ.items() if len({json.dumps(a) for _, _, a in os_}) > 1 and key not in truth]
    disagree.sort(key=lambda key: (min(k for k, _, _ in occ[key]) >= user_histories, len(key)))
    rest = [key for key in occ if key not in truth and key not in set(disagree)]
    rng.shuffle(rest)
    ask = disagree[:max(60, n_truth)] + rest[:n_truth]
    t1 = time.time()
    for key, a in zip(ask, oracle.answers([req[key] for key in ask])):
        if a is not None and a[0] == 'harness-error':
            raise RuntimeError(f'fresh interpreter failed on {req[key]}: {a}')
        truth[key] = a
    phases['true_fresh'] = round(time.time() - t1, 1)
    ex.extra['keys_left_undecided_over_budget'] = max(0, len(disagree) - max(60, n_truth))
    # statistics
    kinds, outcome, nontrivial, agg = {}, {}, set(), {}
    bad = []
    for key, os_ in occ.items():
        op = req[key][-1]
        kk = op[0] + ('.' + op[1] if op[0] == 'bear' else '')
        for k, i, a in os_:
            ex.evaluations += 1
            kinds[kk] = kinds.get(kk, 0) + 1
            oc = a[0] + ':' + str(a[1])
            outcome[oc] = outcome.get(oc, 0) + 1
            if key in truth and a != truth[key]:
                bad.append((k, i))
    for k, r in enumerate(results[:user_histories]):
        st = r['stats']
        for s_, v in st.items():
            agg[s_] = agg.get(s_, 0) + v
        if st['id_reuse'] or st['repr_collision'] or st['checker_hit'] or st['id_hit'] or st.get('ctx_switch') or \
                st.get('generic_alias_recall'):
            nontrivial.add(json.dumps(histories[k]))
    ex.distinct_nontrivial = len(nontrivial)
    ex.extra.update({
        'query_kinds': kinds, 'outcomes': dict(sorted(outcome.items(), key=lambda kv: -kv[1])[:12]),
        'measured_in_history_processes': agg, 'histories': user_histories, 'batch_histories': len(batch_ops),
        'distinct_query_keys': len(occ), 'keys_with_true_fresh_answer': len(truth),
        'keys_with_disagreeing_occurrences': len(disagree),
        'histories_with_id_reuse': sum(1 for r in results[:user_histories] if r['stats']['id_reuse']),
        'histories_with_repr_collision': sum(1 for r in results[:user_histories] if r['stats']['repr_collision']),
        'histories_with_cache_hit': sum(1 for r in results[:user_histories] if r['stats']['checker_hit'] or r['stats']['id_hit']),
        'histories_with_context_switch_on_equal_relative_hint': sum(1 for r in results[:user_histories] if r['stats'].get('ctx_switch')),
        'histories_with_generic_alias_recalled_after_passing_call': sum(1 for r in results[:user_histories] if r['stats'].get('generic_alias_recall')),
        'forks': None})
    ex.samples = [{'history': [render(o) for o in h[:8]]} for h in histories[len(CORPUS):len(CORPUS) + 3]]
    # failures: shortest failing prefixes first; shrink, classify, report one per key
    bad.sort(key=lambda ki: (ki[1], ki[0]))
    t1 = time.time()
    keys_seen: set = set()
    attempts: dict = {}
    shrink_deadline = time.time() + shrink_seconds
    for k, i in bad:
        if len(keys_seen) >= 6 or len(attempts) >= 8 or (keys_seen and time.time() > shrink_deadline):
            break
        ops = histories[k][:i + 1]
        guess = classify(ops, results[k].get('stats', {}))
        if guess in keys_seen or attempts.get(guess, 0) >= 3:
            continue
        attempts[guess] = attempts.get(guess, 0) + 1
        first = fails(ops, oracle, robust=True)
        if first is None:
            # depends on the address layout of that one process: look for an occurrence that reproduces everywhere;
            # the third candidate is reported as it was observed, unshrunk
            if attempts[guess] < 3:
                continue
            small, layout = ops, True
            at, hist_a, fresh_a, stats, observed = (i, results[k]['answers'][i], truth[json.dumps(fresh_ops(ops, i))],
                                                    results[k].get('stats', {}), k < user_histories)
        else:
            small, layout = shrink(ops, oracle, max(shrink_deadline, time.time() + 20)), False
            again = fails(small, oracle, robust=True)
            if again is None and not any(op[0] in WORLD_OPS for op in small):
                # address reuse is a matter of allocator state: the shrunk history repeated is still a history, and
                # fails whatever the state of the process
                for rep in (2, 4, 8):
                    again = fails(small * rep, oracle, robust=True)
                    if again is not None:
                        small = small * rep
                        break
            again = again or fails(small, oracle, tries=2)
            if again is None:
                small, again = ops, first
            at, hist_a, fresh_a, stats, observed = again
        key = classify(small[:at + 1], stats)
        attempts[guess] = 3
        if key in keys_seen:
            continue
        keys_seen.add(key)
        ex.failures.append(Failure(
            key=key,
            what=f'in the history {[render(o) for o in small]} the query #{at} {render(small[at])} answers {hist_a}; '
                 f'a fresh interpreter answers {fresh_a}',
            replay={'ops': small, 'readable': [render(o) for o in small], 'differing_query': at, 'history_answer': hist_a,
                    'fresh_answer': fresh_a, 'measured': stats, 'instrumented': observed,
                    'depends_on_address_layout_of_one_process': layout, 'unshrunk_ops': ops if len(ops) <= 80 else None}))
    phases['shrink'] = round(time.time() - t1, 1)
    ex.extra['true_fresh_interpreter_forks'] = oracle.evaluations
    t1 = time.time()
    del ex.extra['forks']
    try:
        lockstep(histories[table_from:user_histories], results[table_from:user_histories], ex, n_table)
    except Exception as e:            # a model that does not build is a proof problem, reported by prove()
        ex.extra['lockstep_error'] = str(e)[:500]
    phases['lockstep'] = round(time.time() - t1, 1)
    ex.extra['phase_seconds'] = phases
    ck.log(f'[{ck.pid}] explore: {user_histories} histories + {len(batch_ops)} batch histories, {len(occ)} query keys, '
           f'{len(truth)} with a true fresh answer, {len(disagree)} disagreeing, {len(bad)} occurrences differ from fresh; phases {phases}')
    return ex


def replay(data: dict) -> int:
    xmemo.extract()
    ops = data['ops']
    oracle = FreshOracle()
    print('history:')
    for j, o in enumerate(ops):
        print(f'  #{j:<3}', render(o))
    got = fails(ops, oracle, tries=3)
    if got is None and not any(op[0] in WORLD_OPS for op in ops):
        # which address a new object gets depends on the allocator state of the process: repeat the history
        for rep in (2, 4, 8, 16):
            got = fails(ops * rep, oracle, tries=3)
            if got is not None:
                print(f'(the history repeated {rep} times)')
                ops = ops * rep
                break
    if got is None:
        print('replay: every query of the history is answered as in a fresh interpreter — not reproduced')
        return 0
    at, hist_a, fresh_a, stats, observed = got
    print(f'replay: query #{at} {render(ops[at])} answers {hist_a} in the history process; a fresh interpreter '
          f'(only the definitions it refers to) answers {fresh_a}')
    if observed:
        print(f'        measured in the history process: {stats}')
    return 1


def main(ck: Check) -> int:
    quick = ck.tier == 'quick'
    ck.c14_extracted = xmemo.extract()
    proof = ck.prove(MODULE, PROP_FILE)
    ex = explore(ck, n=60 if quick else 800, seed=ck.seed, n_table=24 if quick else 200, n_truth=60 if quick else 1000,
                 shrink_seconds=90 if quick else 400)
    xt = ck.c14_extracted
    ex.extra['extracted_from_source'] = {'decorators': xt['decorators'], 'memoisation_sites': len(xt['sites']), 'tables': dict(xt['tables']),
                                         'repr_hit_validated_by_eq': xt['repr_checked'], 'id_keyed_objects_pinned': xt['id_pinned'],
                                         'tree_cacheability_flag_accumulation': xt['tree_flag'],
                                         'stores_guarded_by_tree_cacheability_flag': xt['ctx_stores_guarded']}
    ck.decide(proof, ex, deep_search=lambda: explore(ck, n=400, seed=ck.seed + 1000, n_table=0, n_truth=500, shrink_seconds=240))
    partial = ['C14_fwdref_partial (referents remembered by forward-reference proxies are current only while no name is bound twice; '
               'C14_fwdref_counterexample)',
               'C14_repr_key_partial / C14_id_key_partial describe the code BEFORE the fixes C14_repr_key / C14_id_key; '
               'with the fixes applied the extracted disciplines are repr-checked / id-pinned and the full-strength '
               'theorems C14_checker_pipeline_invisible / C14_id_key_pinned_invisible are the live ones']
    ck.evidence(proof, ex,
                level_note='generic memo-invisibility theorem from KeyCongruent, for every finite history, per key discipline '
                           '(==, repr validated by ==, id with pinned objects, forward-reference referents: partial; context-relative '
                           'hints never stored under a context-free key, answers invisible across classes / caller scopes) + table '
                           'theorems over the memoisation sites extracted from the source + fresh-interpreter differential and '
                           'table lock-step on the real code; partial: ' + '; '.join(partial),
                assumptions=['KeyCongruent for the == discipline (hints that compare == mean the same) is proved for the concrete '
                             'hint language of Core/Memo.lean §7 (class objects, Literal, Union, list / typing.List) and is an '
                             'assumption for beartype\'s full hint semantics, exercised by the look-alike histories',
                             'true fresh-interpreter answers are obtained for every query key whose occurrences disagree, for the '
                             'first query of every batch process and for a seeded sample; the remaining keys are checked by '
                             'agreement of all their occurrences across different histories',
                             'a fresh interpreter is a fork() of an interpreter that imported beartype and asked nothing',
                             'single-threaded histories (thread interleavings are C15); Python 3.12 only',
                             'exception messages, warnings and object addresses are not part of an answer'])
    return ck.finish()
