"""C03 — see DESIGN §4 C03, lean/BearVerif/Props/C03.lean and harness/bear/explore.py."""
from ..common import LEAN, Check
from ..bear import explore

MODULE = 'BearVerif.Props.C03'
PROP_FILE = LEAN / 'BearVerif/Props/C03.lean'
ASSUMPTIONS = [
    'objects are well-behaved containers (len/iteration/indexing consistent); classes lying about their protocol are outside [[H]]',
    'CPython evaluation of the generated expression is modelled by eval (validated behaviourally on every run, not verified)',
    'hint grammar modelled: classes, None, Any/object, unions/optionals, Literal, fixed and variadic tuples, the 15 one-argument '
    'container signs, mappings, Counter, ItemsView, type[...], bounded/constrained TypeVars, NewTypes, Annotated with beartype validators, '
    'shallowly checked PEP hints; user generics and protocols are checked only through their isinstance relation; third-party hints out of scope',
]


def main(ck: Check) -> int:
    quick = ck.tier == 'quick'
    proof = ck.prove(MODULE, PROP_FILE)
    ex = explore.run(ck, n_hints=250 if quick else 2500, seed=ck.seed, focus='C03', exhaustive_depth=1 if quick else 2)
    ck.decide(proof, ex, deep_search=lambda: explore.run(ck, n_hints=500, seed=ck.seed + 7, focus='C03', exhaustive_depth=1, per_hint=6))
    ck.evidence(proof, ex, level_note='Lean proof over all hints/objects/draws of the model (sat -> chk -> eval(gen)); model tied to /repo by '
                'code-level comparison of make_check_expr output with gen and behaviour-level differential under forced draws',
                assumptions=ASSUMPTIONS)
    return ck.finish()


def replay(data: dict) -> int:
    print('replay data:', {k: data[k] for k in data if k not in ('real', 'model')})
    print('re-run: ./check C03 --tier quick  (the failing hint/object are printed above; hints are generated, not parsed from text)')
    return 1
