"""C19 — is_subhint is a sound preorder and TypeHint wrappers are coherent (DESIGN §4 C19).

Tie (every run): for a fixed representative pool of hints (every wrapper class of
doorclsmap, depth-2 combinations over a 12-sign alphabet) plus seeded random hints, the
REAL `is_subhint(A, B)` and `TypeHint(A) == TypeHint(B)` of every ordered pair are compared
with the Lean model `subhint` / `eqW` (Core/Door.lean; BeartypeDoorIsSubhintException is the
model's `arity`), and the real `len/iter/args/is_ignorable` of every wrapper with the
model's `children/args/ign`.

Oracles on the REAL outputs, independent of the model's verdicts:
  reflexivity of every hint; transitivity over ALL triples of Any-free hints; soundness:
  is_subhint(A, B) and an object that fully satisfies A (the Bear core's `sat`, through
  the model driver) but is rejected by the real is_bearable(x, B) for some forced draw;
  TypeHint(h) is TypeHint(h); == implies equal hashes and mutual is_subhint;
  len / iter / getitem / contains / args agree.
Failure keys name the decidable side condition of Props/C19.lean that the (smallest)
witness violates, or `regular` when it violates none (then the theorems themselves say the
real code departed from the model)."""
from __future__ import annotations

import collections
import collections.abc as A
import random
import types
import typing as T
import warnings

from ..common import LEAN, Check, Explore, Failure, lean_driver, parse_sexp, sexp
from ..bear import gen as bgen
from ..bear import real as breal
from ..bear.model import MAP_ORIGINS, QUASI_ORIGINS, REIT_ORIGINS, SEQ_ORIGINS, atom_of, obj_model
from ..bear.world import Registry

MODULE = 'BearVerif.Props.C19'
PROP_FILE = LEAN / 'BearVerif/Props/C19.lean'

KEEP: list = []          # every TypeHint created in a run stays alive (F-C14b: id reuse in method_cached_arg_by_id is C14's)


class Unmodelled(Exception):
    pass


# ----------------------------------------------------------------------------- hint pool
class U0:
    pass


class U1(U0):
    pass


TV = T.TypeVar('TV', bound=int)
TC = T.TypeVar('TC', str, bytes)
TF = T.TypeVar('TF')
TB = T.TypeVar('TB', bound=T.Union[int, str])          # a union as a TypeVar bound
TO = T.TypeVar('TO', object, int)                      # constraints of which only one is ignorable
NT = T.NewType('NT', int)
NU = T.NewType('NU', U0)
NN = T.NewType('NN', NT)                               # nested NewType
NL = T.NewType('NL', list[int])                        # NewType over a non-class (outside the model)
# look-alikes: DISTINCT, UNEQUAL hints whose repr() is the repr of another hint of the pool (same-named TypeVars and
# NewTypes of two modules, a class re-created by a factory): wrappers are cached per hint, never per repr
TV_2 = T.TypeVar('TV', bound=str)
NT_2 = T.NewType('NT', str)
U0_2 = type('U0', (), {'__module__': __name__, '__qualname__': 'U0'})
# Annotated by beartype validators: the metadata changes the meaning, which the model's opaque metadata cannot express;
# these hints take part in the real-output oracles only
from beartype.vale import IsEqual as _IsEqual, IsInstance as _IsInstance  # noqa: E402
AV1 = T.Annotated[int, _IsEqual[1]]
AV2 = T.Annotated[int, _IsEqual[2]]
AVB = T.Annotated[int, _IsInstance[bool]]
_V1 = _IsEqual[1]
AVV = T.Annotated[int, _V1, _V1]                       # the same validator twice (what nesting Annotated aliases flattens to)
AVW = T.Annotated[int, _V1, _IsInstance[bool]]         # same count, one validator the other side lacks
C = A.Callable
L = T.Literal
An = T.Annotated
Un = T.Union


def fixed_pool(big: bool) -> list:
    """The representative pool: seed-independent, every wrapper class, depth <= 2."""
    leaves = [int, bool, str, U0, U1, type(None), object, L[1], L[True], L['a'], L[1, 'a'], NT, TV, TC, list, tuple,
              A.Sequence, C]
    H = list(leaves) + [T.Any, float, TF, TB, TO, NU, NN, NL, dict, A.Mapping, A.Iterable, AV1, AV2, AVB, AVV, AVW,
                        An[int, 'x', 'x'], list[AVV], list[AVW]]
    H += [list[int], list[bool], list[object], list[T.Any], T.List[int], A.Sequence[int], A.Sequence[bool], A.Iterable[int],
          A.Collection[int], set[int], frozenset[bool], A.Set[int],
          tuple[int, ...], tuple[bool, ...], tuple[object, ...], tuple[int, int], tuple[bool, int], tuple[int], tuple[()],
          tuple[int, str, bool],
          dict[str, int], dict[str, bool], A.Mapping[str, int], A.Mapping[str, object], dict[object, object],
          Un[int, str], Un[bool, str], T.Optional[int], Un[int, str, None], Un[int, object], Un[U0, U1],
          L[1, 2], L[0], L[False], L[None], L[1, 'a', None], L[True, 'a'],
          Un[L[1, 'a'], L[None]], Un[L[1], L['a']], T.Optional[L[2]], T.Optional[L[True]],
          An[int, 'x'], An[int, 'y'], An[bool, 'x'], An[int, 'x', 'y'], An[str, 'x'], An[object, 'x'],
          C[[int], str], C[[bool], str], C[[str], str], C[[object], bool], C[[int], bool], C[..., str], C[..., object],
          C[..., T.Any], C[[], str], C[[int, int], str], C[[int], object], C[[U0], U1], C[[U1], U0],
          type[int], type[bool], type[U0], type, type[object],
          # depth 2
          list[list[int]], list[list[bool]], list[Un[int, str]], list[T.Optional[bool]], A.Sequence[list[int]],
          list[L[1]], list[L[True]], list[TV], list[NT], list[C[..., object]], list[C[..., T.Any]], list[C],
          list[An[int, 'x']], list[tuple[int, ...]], list[tuple[bool, int]], tuple[list[bool], ...], tuple[list[int], int],
          tuple[L[1]], tuple[L[True]], tuple[L[True], ...],
          dict[str, list[int]], dict[str, list[bool]], A.Mapping[str, A.Sequence[int]],
          Un[list[int], str], Un[list[bool], tuple[int, ...]], Un[TV, str], Un[NT, str], T.Optional[TV],
          Un[A.Iterable[int], dict[str, int]], Un[An[int, 'x'], str],
          An[list[int], 'x'], An[list[bool], 'x'], An[Un[int, str], 'x'], An[Un[bool, str], 'x'], An[L[1, 'a'], 'x'],
          An[L[1], 'x'], An[list, 'x'], list[TO], An[type(None), 'x']]
    if big:
        ch = leaves
        for c in ch:
            H += [list[c], A.Sequence[c], A.Iterable[c], A.Collection[c], tuple[c, ...], tuple[c], An[c, 'x'], T.Optional[c]]
            if c not in (list,):
                try:
                    H.append(frozenset[c])
                except TypeError:
                    pass
        for c in ch[:7]:
            for d in ch[:7]:
                H += [tuple[c, d], dict[c, d], A.Mapping[c, d], Un[c, d], C[[c], d]]
        for c in ch[:8]:
            H += [C[..., c], C[[], c], An[c, 'y'], An[c, 'x', 'y'], Un[c, str, None]]
    out, seen = [], set()
    for h in H:
        k = repr(h)
        if k not in seen:
            seen.add(k)
            out.append(h)
    # after the originals (the originals are wrapped first): their look-alikes, bare and as children
    out += [TV_2, NT_2, U0_2, list[TV_2], list[NT_2], Un[U0_2, str], tuple[NT_2, ...]]
    # subscripted hints whose origins are related by subclassing but whose factories differ in ARITY or in the meaning
    # of their parameters (Counter[K] is a dict[K, int]; ItemsView[K, V] is a Collection of (K, V) pairs)
    out += [collections.Counter[str], dict[str, bytes], dict[str, int], A.Mapping[str, str], A.ItemsView[str, int], A.Collection[str],
            A.Collection[tuple[str, int]], A.KeysView[str], A.Generator[int, None, None], A.Iterator[int]]
    return out


def random_hints(rng: random.Random, n: int, base: list) -> list:
    """Seeded hints beyond the fixed pool: one more level over random members of the pool."""
    out = []
    simple = [h for h in base if is_hashable(h)]
    pick = lambda: rng.choice(simple)
    for _ in range(n * 3):
        k = rng.randrange(12)
        try:
            if k == 0:
                h = list[pick()]
            elif k == 1:
                h = A.Sequence[pick()]
            elif k == 2:
                h = tuple[pick(), ...]
            elif k == 3:
                h = tuple[tuple(pick() for _ in range(rng.choice([1, 2, 2, 3])))]
            elif k == 4:
                h = dict[pick(), pick()]
            elif k == 5:
                h = A.Mapping[pick(), pick()]
            elif k == 6:
                h = Un[tuple(pick() for _ in range(rng.choice([2, 2, 3])))]
            elif k == 7:
                h = T.Optional[pick()]
            elif k == 8:
                h = An[pick(), rng.choice(['x', 'y'])]
            elif k == 9:
                h = C[[pick() for _ in range(rng.choice([0, 1, 1, 2]))], pick()] if rng.random() < 0.7 else C[..., pick()]
            elif k == 10:
                h = rng.choice([A.Iterable, A.Collection, frozenset, A.Set])[pick()]
            else:
                h = L[tuple(rng.sample([0, 1, 2, True, False, 'a', 'b', None], rng.choice([1, 2, 3])))]
        except TypeError:
            continue
        out.append(h)
        if len(out) >= n:
            break
    return out


def is_hashable(h) -> bool:
    try:
        hash(h)
        return True
    except TypeError:
        return False


# ----------------------------------------------------------------------------- real hint -> model hint
class Ctx:
    def __init__(self):
        self.reg = Registry()
        assert self.reg.id(object) == 4, 'Lean: cObject = 4'
        self.nt: dict[int, int] = {}            # class number fabricated for a NewType -> class number it aliases
        self.nt_cls: dict = {}                  # NewType -> our own stand-in subclass of the alias
        self.md: list = []                      # Annotated metadata objects, numbered by Python equality

    def md_id(self, m) -> int:
        for i, x in enumerate(self.md):
            try:
                if x == m:
                    return i
            except Exception:
                pass
        self.md.append(m)
        return len(self.md) - 1

    def newtype_cls(self, h) -> int:
        if h not in self.nt_cls:
            alias = h
            while hasattr(alias, '__supertype__'):
                alias = alias.__supertype__
            if not isinstance(alias, type) or isinstance(alias, types.GenericAlias):
                raise Unmodelled('NewType over a non-class')
            standin = type(getattr(h, '__name__', 'NT'), (alias,), {})     # what make_type(name, bases=(alias,)) fabricates
            self.nt_cls[h] = standin
            self.nt[self.reg.id(standin)] = self.reg.id(alias)
        return self.reg.id(self.nt_cls[h])


def canonical(h):
    """The hint beartype actually wraps: TypeHint caches wrappers by the hint's OWN equality, and typing makes
    Union[a, b] == Union[b, a] and Literal[1, 2] == Literal[2, 1], so the children (and their order) of a wrapper are
    those of the first equal hint this process wrapped. The model hint is read off that one."""
    if is_hashable(h) and h is not None:
        from beartype.door import TypeHint
        try:
            w = TypeHint(h)
        except Exception:
            return h
        KEEP.append(w)
        return w.hint
    return h


def is_union(h) -> bool:
    return T.get_origin(h) is T.Union or isinstance(h, types.UnionType)


def to_model(h, cx: Ctx, partial: bool = False):
    """Real hint -> DHint s-expression, from typing's public introspection only."""
    if partial:
        def m(x):
            try:
                return to_model(x, cx, True)
            except Unmodelled:
                return ['opaque']
    else:
        m = lambda x: to_model(x, cx)
    reg = cx.reg
    h = canonical(h)
    if h is T.Any:
        return ['any']
    if h is None:
        return ['cls', reg.id(type(None))]
    if isinstance(h, T.TypeVar):
        if h.__bound__ is not None:
            return ['tv', m(h.__bound__)]
        if h.__constraints__:
            return ['tv'] + [m(c) for c in h.__constraints__]
        return ['tv', ['cls', reg.id(object)]]
    if hasattr(h, '__supertype__'):
        return ['cls', cx.newtype_cls(h)]
    if isinstance(h, type) and not isinstance(h, types.GenericAlias):
        return ['cls', reg.id(h)]
    origin, args = T.get_origin(h), T.get_args(h)
    if is_union(h):
        return ['union'] + [m(a) for a in args]
    if origin is T.Literal:
        for a in args:
            if not (a is None or isinstance(a, (bool, int, str))):
                raise Unmodelled('literal member')
        return ['lit'] + [[reg.id(type(a)), atom_of(a, reg)] for a in args]
    if origin is T.Annotated:
        if any(type(x).__module__.startswith('beartype.') for x in h.__metadata__):
            raise Unmodelled('validator metadata')
        return ['ann', m(h.__origin__), [cx.md_id(x) for x in h.__metadata__]]
    if origin is tuple:
        if repr(h).endswith('[()]') or args == ((),):
            return ['tup']
        if len(args) == 2 and args[1] is Ellipsis:
            return ['tupv', m(args[0])]
        if not args:
            return ['cls', reg.id(tuple)]
        return ['tup'] + [m(a) for a in args]
    if origin is A.Callable:
        if not args:
            return ['cls', reg.id(A.Callable)]
        ps, r = args[:-1], args[-1]
        if len(args) == 2 and args[0] is Ellipsis:
            return ['call', reg.id(A.Callable), 'true', [], m(r)]
        if len(ps) == 1 and isinstance(ps[0], list):
            ps = ps[0]
        return ['call', reg.id(A.Callable), 'false', [m(p) for p in ps], m(r)]
    if origin is type:
        raise Unmodelled('type[...]')
    if origin is not None and isinstance(origin, type):
        if not args:
            return ['cls', reg.id(origin)]                    # typing.List, typing.Callable, …
        if origin in MAP_ORIGINS and len(args) == 2:
            return ['map', reg.id(origin), m(args[0]), m(args[1])]
        if len(args) == 1:
            k = 'seq' if origin in SEQ_ORIGINS else 'reit' if origin in REIT_ORIGINS else 'quasi' if origin in QUASI_ORIGINS else None
            if k:
                return ['cont', k, reg.id(origin), m(args[0])]
    raise Unmodelled(repr(h))


def walk(t):
    yield t
    if t[0] in ('union', 'tv', 'tup'):
        for c in t[1:]:
            yield from walk(c)
    elif t[0] in ('ann', 'tupv'):
        yield from walk(t[1])
    elif t[0] == 'cont':
        yield from walk(t[3])
    elif t[0] == 'map':
        yield from walk(t[2])
        yield from walk(t[3])
    elif t[0] == 'call':
        for c in t[3]:
            yield from walk(c)
        yield from walk(t[4])


def conditions(t, cx: Ctx) -> set:
    """Which side conditions of Props/C19.lean (`DHint.Reg`) the model hint violates (`opaque` = a member outside the
    modelled grammar: type[...], validator metadata, NewType over a non-class)."""
    out = set()
    for n in walk(t):
        if n[0] == 'opaque':
            out.add('unmodelled')
            continue
        if n[0] == 'any':
            out.add('any')
        if n[0] in ('union', 'tv'):
            if any(c[0] in ('union', 'tv') for c in n[1:]):
                out.add('nested-branches')
        if n[0] == 'tv' and len(n) > 2:
            if any(ignorable_s(c, cx) for c in n[1:]) and not all(ignorable(c, cx) for c in n[1:]):
                out.add('typevar-constraints-part-ignorable')
        if n[0] == 'lit' and len({m[0] for m in n[1:]}) > 1:
            out.add('literal-mixed-types')
        if n[0] == 'call':
            out.add('callable-explicit-params' if n[2] == 'false' else 'callable')
    return out


def attributable(cs: set) -> set:
    """The side conditions a witness is attributed to: `callable` (Callable[..., r]) is not an excluded shape of the
    real-output oracles, and `unmodelled` (a type[...] / validator member somewhere) only counts when nothing else explains
    the witness."""
    cs = set(cs) - {'callable'}
    if len(cs) > 1:
        cs.discard('unmodelled')
    return cs


def ignorable_s(t, cx: Ctx) -> bool:
    """what the checker ignores (Lean: ignS)"""
    if t[0] == 'any':
        return True
    if t[0] == 'cls':
        return t[1] == 4 or cx.nt.get(t[1]) == 4
    if t[0] in ('union', 'tv'):
        return any(ignorable_s(c, cx) for c in t[1:])
    if t[0] == 'ann':
        return ignorable_s(t[1], cx)
    return False


def ignorable(t, cx: Ctx) -> bool:
    """TypeHint.is_ignorable (Lean: ign)"""
    if t[0] == 'tv':
        return all(ignorable(c, cx) for c in t[1:])
    return ignorable_s(t, cx)


def size(t) -> int:
    return sum(1 for _ in walk(t)) if t is not None else 50


# ----------------------------------------------------------------------------- real side
def real_le(a, b) -> str:
    from beartype.door import is_subhint
    from beartype.roar import BeartypeDoorIsSubhintException
    try:
        r = is_subhint(a, b)
        return 't' if r is True else 'f' if r is False else 'x:nonbool'
    except BeartypeDoorIsSubhintException:
        return 'a'
    except Exception as e:
        return 'x:' + type(e).__name__


def real_eq(wa, wb) -> str:
    from beartype.roar import BeartypeDoorIsSubhintException
    try:
        r = wa == wb
        return 't' if r is True else 'f' if r is False else 'x:nonbool'
    except BeartypeDoorIsSubhintException:
        return 'a'
    except Exception as e:
        return 'x:' + type(e).__name__


def wrap(h):
    from beartype.door import TypeHint
    try:
        w = TypeHint(h)
    except Exception as e:
        return 'x:' + type(e).__name__
    KEEP.append(w)
    return w


def model_world(cx: Ctx):
    return cx.reg.world_sexp(), [[c, p] for c, p in sorted(cx.nt.items())]


def run_model(cx: Ctx, models: list, objs: list | None = None):
    """One driver start: the pair matrices, the wrapper views and (optionally) the meaning of
    every hint on every object."""
    w, nt = model_world(cx)
    lines = [sexp(['c19', 'matrix', w, nt, models]), sexp(['c19', 'kids', w, nt, models])]
    if objs is not None:
        lines.append(sexp(['c19', 'sats', w, nt, models, objs]))
    out = []
    for line in lean_driver(lines, 'C19'):
        v = parse_sexp(line)
        assert v[0] == 'ok', line[:300]
        out.append(v[1])
    return out


def used_classes(models) -> set:
    out = {0, 1, 2, 3, 4}
    for t in models:
        if t is None:
            continue
        for n in walk(t):
            if n[0] == 'cls':
                out.add(n[1])
            elif n[0] == 'cont':
                out.add(n[2])
            elif n[0] in ('map', 'call'):
                out.add(n[1])
            elif n[0] == 'lit':
                out.update(m[0] for m in n[1:])
    return out


def world_wf(cx: Ctx, models) -> list:
    """`DWorld.Wf` and the origin conditions of `DHint.Sem`, evaluated on the class table of THIS run (the hypotheses
    under which the theorems speak about the running interpreter)."""
    cs = cx.reg.classes
    ids = sorted(used_classes(models) | set(cx.nt) | set(cx.nt.values()))

    def sub(i, j):
        try:
            return i == j or issubclass(cs[i], cs[j])
        except TypeError:
            return False
    bad = []
    for a in ids:
        if not sub(a, 4):
            bad.append(f'obj_top: {cs[a]!r}')
        if a != 4 and sub(4, a):
            bad.append(f'obj_only: object is a subclass of {cs[a]!r}')
        if sub(a, 1) and not sub(a, 3):
            bad.append(f'tuple_coll: {cs[a]!r}')
        for b in ids:
            if sub(a, b):
                for c in ids:
                    if sub(b, c) and not sub(a, c):
                        bad.append(f'sub_trans: {cs[a]!r} <= {cs[b]!r} <= {cs[c]!r}')
    for c, p in cx.nt.items():
        for d in ids:
            if sub(c, d) != (d == c or sub(p, d)):
                bad.append(f'nt_sub: {cs[c]!r} vs {cs[d]!r}')
            if d != c and sub(d, c):
                bad.append(f'nt_leaf: {cs[d]!r} subclasses the NewType stand-in {cs[c]!r}')
    if 4 in cx.nt or 1 in cx.nt:
        bad.append('nt_obj/nt_tuple')
    for t in models:
        if t is None:
            continue
        for n in walk(t):
            if n[0] == 'cont' and n[1] != 'quasi':
                bad += [f'CollOrigin: {cs[a]!r} <= {cs[n[2]]!r}' for a in ids if sub(a, n[2]) and not sub(a, 3)]
            if n[0] == 'map':
                bad += [f'MapOrigin: {cs[a]!r} <= {cs[n[1]]!r}' for a in ids if sub(a, n[1]) and not issubclass(cs[a], A.Mapping)]
            if n[0] in ('cont', 'map') and (n[2 if n[0] == 'cont' else 1] == 4 or n[2 if n[0] == 'cont' else 1] in cx.nt):
                bad.append('Proper/Reg: a container origin is object or a NewType stand-in')
    return sorted(set(bad))


def kind(h) -> str:
    from beartype.door import TypeHint
    try:
        w = TypeHint(h)
        KEEP.append(w)
        return type(w).__name__.replace('TypeHint', '')
    except Exception as e:
        return 'x:' + type(e).__name__


# ----------------------------------------------------------------------------- objects
FIXED_OBJECTS = [0, 1, 2, True, False, 'a', 'b', None, U0(), U1(), [], [1], [True], ['a'], [None], [[1]], [[True]],
                 (), (1,), (True,), ('a',), (1, 2), (True, 1), (1, 'a'), ([1],), ([True], 1), (1, 'a', True),
                 {}, {'a': 1}, {'a': True}, {'a': [1]}, {'a': [True]}, frozenset(), frozenset({1}), frozenset({True}),
                 {1}, [(1,)], [(True, 1)], [(1, 2)], len, int,
                 collections.Counter('ab'), collections.Counter(), {'a': 1}.items(), {'a': 1}.keys(), {'a': b'x'}, {'a': 'b'},
                 (i for i in ()), iter([1])]


def explore(ck: Check, n_random: int, seed: int, big: bool) -> Explore:
    import numpy as np
    from beartype.door import TypeHint, is_bearable
    warnings.simplefilter('ignore')
    breal.install_draw_control()
    rng = random.Random(seed)
    cx = Ctx()
    ex = Explore(rule='ordered pairs and triples over a fixed pool of hints (every TypeHint wrapper class; depth <= 2 over the '
                      'alphabet class/NewType/TypeVar/Union/Optional/Literal/Annotated/tuple-fixed/tuple-variadic/one-argument '
                      'container/mapping/Callable) plus seeded random hints one level deeper; non-trivial = an ordered pair '
                      '(A, B), A is not B, neither Any nor object, for which real is_subhint answers True or raises; '
                      'distinct = distinct pairs of hint reprs')
    pool = fixed_pool(big)
    n_fixed = len(pool)
    seen = {repr(h) for h in pool}
    for h in random_hints(rng, n_random, pool):
        if repr(h) not in seen:
            seen.add(repr(h))
            pool.append(h)
    incoherent = []
    for h in pool:
        c = canonical(h)
        try:
            same = c is h or c == h
        except Exception:
            same = True
        if not same:
            incoherent.append((h, c))
    pool = [canonical(h) for h in pool]
    N = len(pool)
    models = []
    for h in pool:
        try:
            models.append(to_model(h, cx))
        except Unmodelled:
            models.append(None)
    wrappers = [wrap(h) for h in pool]
    partials = []
    for h, t in zip(pool, models):
        if t is not None:
            partials.append(t)
        else:
            try:
                partials.append(to_model(h, cx, True))
            except Unmodelled:
                partials.append(['opaque'])
    conds = [conditions(t, cx) for t in partials]
    sizes = [size(t) for t in models]
    label = [repr(h).replace('harness.props.c19.', '') for h in pool]
    kinds = [kind(h) for h in pool]
    failures: dict[str, Failure] = {}

    def fail(key, what, rp, weight):
        """keep the smallest witness per key"""
        if key not in failures or weight < failures[key].replay['_weight']:
            rp = dict(rp)
            rp['_weight'] = weight
            failures[key] = Failure(key=key, what=what, replay=rp)

    for h, c in incoherent:
        fail(f'C19:coherence:wrapper-of-another-hint:{kind(h)}',
             f'TypeHint({h!r}).hint is {c!r}, a different and unequal hint (id {id(c)} vs {id(h)}; same repr: {repr(c) == repr(h)}): '
             f'the wrapper answers is_subhint/is_bearable for another hint', {'hint': spec(h), 'got': repr(c), 'order': pool_spec(pool[:n_fixed])}, 1)

    # ---- real matrices -------------------------------------------------------------------
    LE = [[real_le(a, b) for b in pool] for a in pool]
    EQ = [[(real_eq(wa, wb) if not isinstance(wa, str) and not isinstance(wb, str) else 'x:wrap') for wb in wrappers]
          for wa in wrappers]
    ex.evaluations += 2 * N * N
    outcome = collections.Counter(v for row in LE for v in row)

    # ---- objects and meaning ---------------------------------------------------------------
    mi = [i for i in range(N) if models[i] is not None]                      # modelled hints
    og = bgen.ObjGen(rng)
    objs = list(FIXED_OBJECTS)
    sem = [i for i in mi if not (conds[i] & {'any', 'callable', 'callable-explicit-params', 'unmodelled'})]
    for i in sem:
        for _ in range(2 if i < n_fixed else 1):
            try:
                x = og.make(pool[i])
                obj_model(x, cx.reg)
                objs.append(x)
            except Exception:
                pass
    objs = [x for x in objs if not isinstance(x, (types.GeneratorType, bgen.OneShot))]
    obj_models = [obj_model(x, cx.reg) for x in objs]
    res = run_model(cx, [models[i] for i in mi], obj_models)
    mle, meq = res[0]
    kids = res[1]
    sats = res[2]
    pos = {i: k for k, i in enumerate(mi)}

    # ---- correspondence: pairs -----------------------------------------------------------------
    diffs = []
    fuel = 0
    for i in mi:
        for j in mi:
            ml, me = mle[pos[i]][pos[j]], meq[pos[i]][pos[j]]
            fuel += (ml == 'u') + (me == 'u')
            if LE[i][j] != ml:
                diffs.append({'what': 'is_subhint', 'A': label[i], 'B': label[j], 'real': LE[i][j], 'model': ml,
                              'weight': sizes[i] + sizes[j], 'hints': (i, j)})
            if EQ[i][j] != me:
                diffs.append({'what': '==', 'A': label[i], 'B': label[j], 'real': EQ[i][j], 'model': me,
                              'weight': sizes[i] + sizes[j], 'hints': (i, j)})
    ex.traces_validated += 2 * len(mi) ** 2
    # ---- correspondence: wrapper views ---------------------------------------------------------
    for i in mi:
        w = wrappers[i]
        if isinstance(w, str):
            diffs.append({'what': 'TypeHint()', 'A': label[i], 'real': w, 'model': 'wrapper', 'weight': sizes[i]})
            continue
        k = kids[pos[i]]
        try:
            real_children = [to_model(c.hint, cx) for c in w]
            rv = [str(len(w)), real_children, 'true' if w.is_ignorable else 'false', 'true' if w._is_args_ignorable else 'false']
        except Exception as e:
            rv = ['x:' + type(e).__name__]
        mv = [k[0], k[1], k[3], k[4]]
        if sexp(rv) != sexp(mv):
            diffs.append({'what': 'len/iter/is_ignorable/_is_args_ignorable', 'A': label[i], 'real': sexp(rv), 'model': sexp(mv),
                          'weight': sizes[i]})
        ma = sexp(k[2])
        try:
            ra = sexp(real_args(w, cx))
        except Exception as e:
            ra = 'x:' + type(e).__name__
        if ra != ma:
            diffs.append({'what': 'args', 'A': label[i], 'real': ra, 'model': ma, 'weight': sizes[i]})
        ex.traces_validated += 1
    wf_bad = world_wf(cx, models)
    ex.extra['class_table_hypotheses'] = 'DWorld.Wf and the origin conditions hold for the %d classes used' % len(used_classes(models)) \
        if not wf_bad else wf_bad[:10]
    for b in wf_bad[:5]:
        diffs.append({'what': 'the class table of this run violates a hypothesis of the theorems', 'detail': b, 'weight': 0})
    diffs.sort(key=lambda d: d['weight'])
    ex.corr_diffs = diffs[:20]
    for d in ex.corr_diffs:
        if 'hints' in d:
            d['hints'] = pool_spec([pool[k] for k in d['hints']])
    ex.extra['model_out_of_fuel'] = fuel
    if fuel:
        ex.corr_diffs.append({'what': 'model ran out of fuel', 'count': fuel})

    # ---- oracle: reflexivity ---------------------------------------------------------------------
    for i in range(N):
        if LE[i][i] != 't':
            why = {'a': 'undecidable', 'f': 'False'}.get(LE[i][i], LE[i][i].replace('x:', 'exc:'))
            fail(f'C19:refl:{why}', f'is_subhint(A, A) is not True for A = {label[i]}: '
                 f'{"raises BeartypeDoorIsSubhintException (undecidable)" if LE[i][i] == "a" else LE[i][i]}',
                 {'oracle': 'refl', 'A': label[i], 'hints': pool_spec([pool[i]])}, sizes[i])

    # ---- oracle: transitivity over all triples of Any-free hints -----------------------------------
    af = [i for i in range(N) if 'any' not in conds[i] and not (models[i] is None and 'Any' in label[i])]
    Tm = np.zeros((N, N), dtype=bool)
    Nm = np.zeros((N, N), dtype=bool)                   # decided and not True
    for i in af:
        for j in af:
            Tm[i, j] = LE[i][j] == 't'
            Nm[i, j] = LE[i][j] == 'f'
    T8 = Tm.astype(np.float32)
    n_triples = 0
    for i in af:
        reach = (T8[i] @ T8) > 0
        n_triples += int(Tm[i].sum()) * 1
        for c in np.nonzero(reach & Nm[i])[0]:
            for b in np.nonzero(Tm[i] & Tm[:, c])[0]:
                cs = attributable(conds[i] | conds[b] | conds[int(c)])
                key = 'C19:trans:' + ('+'.join(sorted(cs)) or f'regular:{kinds[i]}<={kinds[int(b)]}<={kinds[int(c)]}')
                fail(key, f'is_subhint(A, B) and is_subhint(B, C) but is_subhint(A, C) is False: A = {label[i]}, '
                          f'B = {label[int(b)]}, C = {label[int(c)]}',
                     {'oracle': 'trans', 'A': label[i], 'B': label[int(b)], 'C': label[int(c)],
                      'hints': pool_spec([pool[i], pool[int(b)], pool[int(c)]])},
                     (len(cs), sizes[i] + sizes[int(b)] + sizes[int(c)]))
    ex.evaluations += len(af) ** 3
    ex.extra['triples_checked'] = len(af) ** 3
    ex.extra['true_true_premises'] = int((T8 @ T8).sum())

    # ---- oracle: soundness against the published meaning and the real checker -----------------------
    SAT = {i: sats[pos[i]] for i in sem}
    n_sound = unconfirmed = 0
    for i in sem:
        si = SAT[i]
        for j in sem:
            if LE[i][j] != 't' or i == j:
                continue
            sj = SAT[j]
            n_sound += 1
            cands = [k for k in range(len(objs)) if si[k] == 't' and sj[k] == 'f']
            if not cands:
                continue
            confirmed = None
            for k in sorted(cands, key=lambda k: len(repr(objs[k]))):
                x = objs[k]
                accA = all(bear(x, pool[i], r) is True for r in range(6))
                rejB = [r for r in range(6) if bear(x, pool[j], r) is False]
                if accA and rejB:
                    confirmed = (k, rejB[0])
                    break
            if confirmed is None:
                unconfirmed += 1
                continue
            k, r = confirmed
            cs = attributable(conds[i] | conds[j])
            key = 'C19:sound:' + ('+'.join(sorted(cs)) or f'regular:{kinds[i]}<={kinds[j]}')
            fail(key, f'is_subhint(A, B) is True but {objs[k]!r} satisfies A and is rejected by B: A = {label[i]}, B = {label[j]}',
                 {'oracle': 'sound', 'A': label[i], 'B': label[j], 'object': repr(objs[k]), 'draw': r,
                  'hints': pool_spec([pool[i], pool[j]]), 'object_index': k if k < len(FIXED_OBJECTS) else None,
                  'object_literal': safe_literal(objs[k])},
                 (len(cs), sizes[i] + sizes[j]))
    ex.evaluations += n_sound * len(objs)
    ex.extra['sound_pairs_checked'] = n_sound
    ex.extra['sound_objects'] = len(objs)
    ex.extra['sound_model_only_candidates_unconfirmed_by_real_checker'] = unconfirmed
    # pairs outside the modelled meaning (Callable, type[...]): real checker only, fixed objects, every draw
    rest = [i for i in range(N) if i not in SAT and 'any' not in conds[i] and 'Any' not in label[i]]
    accept_cache: dict = {}

    def accepts(i):
        if i not in accept_cache:
            accept_cache[i] = [tuple(bear(x, pool[i], r) for r in range(4)) for x in FIXED_OBJECTS]
        return accept_cache[i]
    for i in range(N):
        if 'any' in conds[i] or 'Any' in label[i]:
            continue
        for j in range(N):
            if LE[i][j] != 't' or i == j or (i in SAT and j in SAT) or 'any' in conds[j] or 'Any' in label[j]:
                continue
            ai, aj = accepts(i), accepts(j)
            for k, x in enumerate(FIXED_OBJECTS):
                if isinstance(x, (list, tuple, dict, set, frozenset)) and len(x) > 1 and not isinstance(x, tuple):
                    continue
                if all(v is True for v in ai[k]) and any(v is False for v in aj[k]) and flat_enough(x):
                    cs = attributable(conds[i] | conds[j])
                    key = 'C19:sound:' + ('+'.join(sorted(cs)) or f'regular:{kinds[i]}<={kinds[j]}')
                    fail(key, f'is_subhint(A, B) is True but {x!r} is accepted by A and rejected by B: A = {label[i]}, B = {label[j]}',
                         {'oracle': 'sound', 'A': label[i], 'B': label[j], 'object': repr(x), 'draw': list(aj[k]).index(False),
                          'hints': pool_spec([pool[i], pool[j]]), 'object_index': k, 'object_literal': safe_literal(x)},
                         (len(cs), sizes[i] + sizes[j]))
                    break
    # ---- oracle: identity, == / hash / mutual subhint ------------------------------------------------
    n_ident = 0
    for i, h in enumerate(pool):
        if is_hashable(h) and not isinstance(wrappers[i], str):
            n_ident += 1
            w2 = TypeHint(h)
            KEEP.append(w2)
            if w2 is not wrappers[i]:
                fail('C19:identity', f'TypeHint(h) is not TypeHint(h) for the hashable hint {label[i]}',
                     {'oracle': 'identity', 'A': label[i], 'hints': pool_spec([h])}, sizes[i])
    ex.extra['identity_checked'] = n_ident
    for i in range(N):
        for j in range(N):
            if EQ[i][j] == 't':
                wa, wb = wrappers[i], wrappers[j]
                if not (LE[i][j] == 't' and LE[j][i] == 't'):
                    fail('C19:eq-not-mutual-subhint', f'TypeHint(A) == TypeHint(B) but is_subhint(A, B), is_subhint(B, A) = '
                         f'{LE[i][j]}, {LE[j][i]}: A = {label[i]}, B = {label[j]}',
                         {'oracle': 'eq-mutual', 'A': label[i], 'B': label[j], 'hints': pool_spec([pool[i], pool[j]])},
                         sizes[i] + sizes[j])
                if hash(wa) != hash(wb):
                    fail('C19:eq-hash', f'TypeHint(A) == TypeHint(B) but their hashes differ: A = {label[i]}, B = {label[j]}',
                         {'oracle': 'eq-hash', 'A': label[i], 'B': label[j], 'hints': pool_spec([pool[i], pool[j]])},
                         (len(conds[i] | conds[j]), sizes[i] + sizes[j]))
            if i == j and EQ[i][j] != 't' and LE[i][i] == 't':
                fail('C19:eq-not-reflexive', f'TypeHint(A) == TypeHint(A) is {EQ[i][j]} for A = {label[i]}',
                     {'oracle': 'eq-refl', 'A': label[i], 'hints': pool_spec([pool[i]])}, sizes[i])
    # ---- oracle: len / iter / getitem / contains / args on the REAL wrappers ------------------------
    for i, w in enumerate(wrappers):
        if isinstance(w, str):
            continue
        bad = children_oracle(w)
        if bad:
            fail('C19:children:' + bad[0], f'TypeHint({label[i]}): {bad[1]}',
                 {'oracle': 'children', 'A': label[i], 'hints': pool_spec([pool[i]])}, sizes[i])

    # a witness violating several side conditions at once is reported only if one of them has no witness of its own
    single = {k.split(':', 2)[2] for k in failures if k.startswith(('C19:trans:', 'C19:sound:')) and '+' not in k}
    for k in [k for k in failures if k.startswith(('C19:trans:', 'C19:sound:')) and '+' in k]:
        if all(c in single for c in k.split(':', 2)[2].split('+')):
            del failures[k]
    # violations inside the regular fragment: one witness per shape, the six smallest per oracle
    for orc in ('C19:trans:regular:', 'C19:sound:regular:'):
        ks = sorted((k for k in failures if k.startswith(orc)), key=lambda k: failures[k].replay['_weight'])
        for k in ks[6:]:
            del failures[k]
    ex.failures = sorted(failures.values(), key=lambda f: f.key)
    for f in ex.failures:
        f.replay.pop('_weight', None)
    nontriv = {(label[i], label[j]) for i in range(N) for j in range(N)
               if i != j and LE[i][j] in ('t', 'a') and pool[i] is not object and pool[j] is not object
               and pool[i] is not T.Any and pool[j] is not T.Any}
    ex.distinct_nontrivial = len(nontriv)
    ex.extra.update({'hints': N, 'fixed_pool': n_fixed, 'modelled_hints': len(mi), 'hints_with_meaning': len(sem),
                     'is_subhint_outcomes': dict(outcome),
                     'wrapper_classes': dict(collections.Counter(kinds)),
                     'side_condition_census': dict(collections.Counter(c for cs in conds for c in (cs or {'regular'})))})
    ex.samples = [{'A': label[i], 'B': label[j], 'is_subhint': LE[i][j]} for i, j in [(8, 6), (20, 30), (N - 1, N - 2)] if i < N and j < N]
    return ex


def flat_enough(x) -> bool:
    """an object whose every container level has at most one item: one draw inspects all of it"""
    if isinstance(x, (list, tuple, set, frozenset)):
        return (len(x) <= 1 or isinstance(x, tuple)) and all(flat_enough(y) for y in x)
    if isinstance(x, dict):
        return len(x) <= 1 and all(flat_enough(v) for v in x.values())
    return True


def bear(x, h, draw: int):
    from beartype.door import is_bearable
    breal.DRAW[0] = draw
    try:
        return is_bearable(x, h)
    except Exception as e:
        return 'x:' + type(e).__name__


def real_args(w, cx: Ctx):
    """TypeHint.args in the model's vocabulary"""
    out = []
    lit = type(w).__name__ == 'LiteralTypeHint'
    for a in w.args:
        if lit:
            out.append(['value', cx.reg.id(type(a)), atom_str(atom_of(a, cx.reg))])
        elif a is Ellipsis:
            out.append('ellipsis')
        else:
            out.append(to_model(a, cx))
    return out


def atom_str(a):
    """atoms as the Lean driver prints them (strings keep their quotes)"""
    if isinstance(a, list) and a[0] == 's':
        return ['s', a[1]]
    return a


def children_oracle(w):
    """len / iter / getitem / contains / args of one REAL wrapper describe the same children."""
    from beartype.door import TypeHint
    try:
        it = list(w)
        KEEP.extend(it)
        if len(w) != len(it):
            return ('len-iter', f'len() = {len(w)} but iteration yields {len(it)} children')
        if bool(w) != bool(it):
            return ('bool', 'bool() disagrees with iteration')
        for k, c in enumerate(it):
            if w[k] is not c:
                return ('getitem', f'[{k}] is not the {k}-th iterated child')
            if c not in w:
                return ('contains', f'child #{k} ({c!r}) is iterated but `in` is False')
        if w[0:len(it)] != tuple(it):
            return ('slice', 'slicing disagrees with iteration')
        name = type(w).__name__
        if name in ('LiteralTypeHint', 'TypeVarTypeHint'):
            pass                                   # documented: args are values / a TypeVar has no args; children are () / the bounds
        elif name == 'CallableTypeHint':
            a = w.args
            exp = len(a) if len(a) >= 2 else 2
            if len(it) != exp or it[-1] is not TypeHint(a[-1]):
                return ('args', f'args {a!r} do not describe the children {it!r}')
        else:
            viaargs = tuple(TypeHint(a) for a in w.args)
            KEEP.extend(viaargs)
            if len(viaargs) != len(it) or any(x is not y and not (x == y and hash(x) == hash(y)) for x, y in zip(viaargs, it)):
                return ('args', f'args {w.args!r} do not describe the children {it!r}')
    except Exception as e:
        return ('exc:' + type(e).__name__, f'raised {type(e).__name__}: {e}')
    return None


# ----------------------------------------------------------------------------- replay
NAMES = {'TV_2': TV_2, 'NT_2': NT_2, 'U0_2': U0_2, 'U0': U0, 'U1': U1, 'TV': TV, 'TC': TC, 'TF': TF, 'TB': TB, 'TO': TO, 'NT': NT, 'NU': NU, 'NN': NN, 'NL': NL,
         'AV1': AV1, 'AV2': AV2, 'AVB': AVB, 'AVV': AVV, 'AVW': AVW}


def spec(h):
    """A JSON description from which the hint is rebuilt (no eval of reprs)."""
    for n, v in NAMES.items():
        if h is v:
            return ['name', n]
    if h is T.Any:
        return ['any']
    if h is None or h is type(None):
        return ['none']
    if h is Ellipsis:
        return ['ellipsis']
    if isinstance(h, type) and not isinstance(h, types.GenericAlias):
        return ['class', h.__module__, h.__qualname__]
    origin, args = T.get_origin(h), T.get_args(h)
    if is_union(h):
        return ['union'] + [spec(a) for a in args]
    if origin is T.Literal:
        return ['literal'] + [[type(a).__name__, a] for a in args]
    if origin is T.Annotated:
        return ['annotated', spec(h.__origin__), list(h.__metadata__)]
    if origin is A.Callable:
        if not args:
            return ['class', 'collections.abc', 'Callable']
        if args[0] is Ellipsis:
            return ['callable', 'ellipsis', spec(args[-1])]
        ps = args[:-1]
        if len(ps) == 1 and isinstance(ps[0], list):
            ps = ps[0]
        return ['callable', [spec(p) for p in ps], spec(args[-1])]
    if origin is tuple and repr(h) in ('tuple[()]', 'typing.Tuple[()]'):
        return ['tuple0']
    if origin is not None:
        return ['sub', 'typing' if repr(h).startswith('typing.') else '', origin.__module__, origin.__qualname__] + [spec(a) for a in args]
    raise ValueError(repr(h))


def unspec(s):
    import importlib
    k = s[0]
    if k == 'name':
        return NAMES[s[1]]
    if k == 'any':
        return T.Any
    if k == 'none':
        return type(None)
    if k == 'ellipsis':
        return Ellipsis
    if k == 'class':
        o = importlib.import_module(s[1])
        for p in s[2].split('.'):
            o = getattr(o, p)
        return o
    if k == 'union':
        return T.Union[tuple(unspec(a) for a in s[1:])]
    if k == 'literal':
        vals = []
        for tn, v in s[1:]:
            vals.append({'bool': bool, 'int': int, 'str': str, 'NoneType': lambda _: None}[tn](v))
        return T.Literal[tuple(vals)]
    if k == 'annotated':
        return T.Annotated[(unspec(s[1]),) + tuple(s[2])]
    if k == 'callable':
        if s[1] == 'ellipsis':
            return A.Callable[..., unspec(s[2])]
        return A.Callable[[unspec(p) for p in s[1]], unspec(s[2])]
    if k == 'tuple0':
        return tuple[()]
    if k == 'sub':
        o = importlib.import_module(s[2])
        for p in s[3].split('.'):
            o = getattr(o, p)
        args = tuple(unspec(a) for a in s[4:])
        if s[1] == 'typing':
            o = {list: T.List, dict: T.Dict, tuple: T.Tuple, set: T.Set, frozenset: T.FrozenSet}.get(o, o)
        return o[args] if len(args) != 1 else o[args[0]]
    raise ValueError(s)


def pool_spec(hs):
    return [spec(h) for h in hs]


def safe_literal(x):
    try:
        import ast
        r = repr(x)
        ast.literal_eval(r)
        return r
    except Exception:
        return None


def replay(data: dict) -> int:
    import ast
    from beartype.door import TypeHint
    warnings.simplefilter('ignore')
    breal.install_draw_control()
    if data.get('correspondence_first_diffs'):
        return replay_correspondence(data['correspondence_first_diffs'])
    hs = [unspec(s) for s in data.get('hints', [])]
    o = data.get('oracle')
    print('oracle:', o, ' hints:', hs)
    if o == 'refl':
        r = real_le(hs[0], hs[0])
        print(f'is_subhint(A, A) = {r}   (expected t)')
        return 1 if r != 't' else 0
    if o == 'trans':
        ab, bc, ac = real_le(hs[0], hs[1]), real_le(hs[1], hs[2]), real_le(hs[0], hs[2])
        print(f'is_subhint(A, B) = {ab}, is_subhint(B, C) = {bc}, is_subhint(A, C) = {ac}   (expected: t, t imply t)')
        return 1 if ab == 't' and bc == 't' and ac != 't' else 0
    if o == 'sound':
        ab = real_le(hs[0], hs[1])
        if data.get('object_index') is not None:
            x = FIXED_OBJECTS[data['object_index']]
        elif data.get('object_literal'):
            x = ast.literal_eval(data['object_literal'])
        else:
            print('object not reconstructible:', data.get('object'))
            return 0
        a = [bear(x, hs[0], r) for r in range(6)]
        b = [bear(x, hs[1], r) for r in range(6)]
        print(f'is_subhint(A, B) = {ab}; is_bearable({x!r}, A) over draws 0..5 = {a}; is_bearable(x, B) = {b}')
        return 1 if ab == 't' and all(v is True for v in a) and any(v is False for v in b) else 0
    if o == 'identity':
        w1, w2 = TypeHint(hs[0]), TypeHint(hs[0])
        KEEP.extend([w1, w2])
        print('TypeHint(h) is TypeHint(h):', w1 is w2)
        return 0 if w1 is w2 else 1
    if o in ('eq-hash', 'eq-mutual', 'eq-refl'):
        wa, wb = TypeHint(hs[0]), TypeHint(hs[-1])
        KEEP.extend([wa, wb])
        e = real_eq(wa, wb)
        ab, ba = real_le(hs[0], hs[-1]), real_le(hs[-1], hs[0])
        print(f'A == B: {e}; hash(A) == hash(B): {hash(wa) == hash(wb)}; is_subhint(A, B), is_subhint(B, A) = {ab}, {ba}')
        if o == 'eq-hash':
            return 1 if e == 't' and hash(wa) != hash(wb) else 0
        if o == 'eq-refl':
            return 1 if e != 't' else 0
        return 1 if e == 't' and not (ab == 't' and ba == 't') else 0
    if o == 'children':
        w = TypeHint(hs[0])
        KEEP.append(w)
        bad = children_oracle(w)
        print('children oracle:', bad)
        return 1 if bad else 0
    print('replay: nothing to re-execute (', data.get('what'), ')')
    return 0


def replay_correspondence(diffs) -> int:
    """Re-evaluate the recorded model/implementation differences: real is_subhint / == against the Lean model."""
    cx = Ctx()
    still = 0
    for d in diffs:
        if 'hints' not in d or d.get('what') not in ('is_subhint', '=='):
            print('recorded difference:', d)
            continue
        a, b = (canonical(unspec(s)) for s in d['hints'])
        ma, mb = to_model(a, cx), to_model(b, cx)
        wa, wb = wrap(a), wrap(b)
        res = run_model(cx, [ma, mb])
        if d['what'] == 'is_subhint':
            real, model = real_le(a, b), res[0][0][0][1]
        else:
            real, model = real_eq(wa, wb), res[0][1][0][1]
        print(f'{d["what"]}({a!r}, {b!r}): real = {real}, model = {model}')
        still += real != model
    print(f'{still} of the recorded differences reproduce')
    return 1 if still else 0


def main(ck: Check) -> int:
    quick = ck.tier == 'quick'
    proof = ck.prove(MODULE, PROP_FILE)
    ex = explore(ck, n_random=40 if quick else 500, seed=ck.seed, big=not quick)
    ck.decide(proof, ex, deep_search=lambda: explore(ck, n_random=150, seed=ck.seed + 1, big=True))
    ck.evidence(proof, ex,
                level_note='theorems over ALL hints of the modelled grammar and every fuel: reflexivity (no side condition), soundness on the '
                           'Any-free Callable-free grammar, transitivity under decidable side conditions (each excluded shape has a decided '
                           'counterexample theorem that the harness re-finds on the real code: known findings), == implies mutual subhint, '
                           'children/args/identity coherence; partial: C19_refl_partial (a union can be undecidable against itself), '
                           'C19_trans_partial, C19_eq_hash_partial (equal wrappers with unequal hashes exist). Tie: model/real comparison '
                           'of every ordered pair + real-output oracles over all triples',
                assumptions=['the model is the door code WITH /verif/fixes/C19_literal_subhint, C19_annotated_metahint, '
                             'C19_callable_not_ignorable applied (on the unpatched tree the three defects are reported as violations)',
                             'the class table (issubclass, container capabilities) is extracted from the running interpreter per run and '
                             'checked against DWorld.Wf (transitive issubclass, object on top, ...) for the classes the pool uses',
                             'the meaning used for soundness is the Bear core `sat` of the translated hint (Annotated metadata opaque, '
                             'a NewType means its alias, a TypeVar its bound/constraints); Callable, type[...] and validator-annotated '
                             'hints have no modelled meaning: real is_bearable oracle only',
                             'a wrapper presents the children of the first EQUAL hint wrapped in the process (typing makes Union[a, b] == '
                             'Union[b, a]); the model hint is read off TypeHint(h).hint',
                             'generic classes (GenericTypeHint) and Callable in the transitivity theorem are outside the proved grammar',
                             'every TypeHint created in a run is kept alive (id-reuse of method_cached_arg_by_id is C14, F-C14b)'])
    return ck.finish()
