"""C11 — only beartype's own exceptions for bad hints; user exceptions pass through (DESIGN §4 C11, PARTIAL).

Ties (every run, against the beartype of $VERIF_REPO):
  tables     the class hierarchy the translator extracted from the SOURCE TEXT equals the run-time classes of
             beartype.roar._roarexc / _roarwarn (names, bases, exported) and the Lean `Table.under` / `Table.allowed` equal
             `issubclass` on them                                                               -> corr_diffs
  reraise    real `reraise_exception_placeholder` vs Lean `reraise` (class, identity, message)  -> failures / corr_diffs
  cached     lock-step histories through a real `@callable_cached` function vs `cachedRun`      -> corr_diffs
             (+ oracle: the caller sees what the function answers, never the TypeError of hashing) -> failures
  classify   primitive tests on the real object -> `HintDescr` -> Lean `classify` vs the real `die_unless_hint` /
             `is_hint`, and vs the class the public checkers raise for root non-hints           -> corr_diffs
  hints      THE ORACLE: a generator of malformed hints (harness/impl/c11_hints.py) drives @beartype (parameter and return:
             decoration and calls), is_bearable, die_if_unbearable, TypeHint, is_subhint. Hints run in batches of six per
             forked child of a PRISTINE parent (every beartype module imported, no hint but a private warm-up class ever
             processed): beartype memoises hints, reducers and raised exceptions globally, so a batch is a small history.
             Every escaping exception must be a public beartype.roar class of the family `Entry.allowedRoots` documents
             (evaluated by the Lean model on the extracted tables) or — for user code the harness injected — the very object
             that user code raised; every warning a public BeartypeWarning subclass. A failing hint is re-run ALONE in a fresh
             child (if it only fails after its predecessors, with the minimal prefix), shrunk there, and reported under
             `C11:<entry point>:<escaping class>:<abstract shape of the shrunk hint>`            -> failures
  user       scripted user exceptions in the wrapped body, in `Is[...]` validators and in `__instancecheck__` hooks (also
             raised while the violation finder re-runs them) vs Lean `wrapperCall` / `testerCall` / `raiserCall`; must be
             the same object                                                                    -> failures / corr_diffs
"""
from __future__ import annotations

import collections
import multiprocessing
import os
import random
import time

from ..common import LEAN, Check, Explore, Failure, lean_driver, parse_sexp, sexp
from ..extract import roar as xroar

MODULE = 'BearVerif.Props.C11'
PROP_FILE = LEAN / 'BearVerif/Props/C11.lean'
WORKERS = max(2, min(14, (os.cpu_count() or 4) - 2))
ENTRY_APIS = {'decor': ['decor_param', 'decor_ret'], 'call': ['decor_param', 'decor_ret'], 'is_bearable': ['is_bearable', 'TypeHint'],
              'die_if_unbearable': ['die_if_unbearable'], 'TypeHint': ['TypeHint'], 'is_subhint': ['is_subhint']}
STRICT_SOURCES = ('validator', 'hook.__instancecheck__', 'body')
STRICT_ENTRIES = ('call', 'is_bearable', 'die_if_unbearable')
PLACEHOLDER = '$%ROOT_PITH_LABEL/~'
SHRINK_BUDGET_S = 75
MAX_NEW_KEYS = 25


# ---------------------------------------------------------------------------------------------------------
# pristine parent
# ---------------------------------------------------------------------------------------------------------
_WARM = {}


def warm():
    """import every beartype module WITHOUT processing a single hint, so that forked children do not pay the lazy imports"""
    if _WARM:
        return
    import importlib
    import pkgutil
    import beartype
    import beartype.door  # noqa
    import beartype.vale  # noqa
    for m in pkgutil.walk_packages(beartype.__path__, 'beartype.'):
        if m.name.startswith(('beartype.claw', 'beartype.bite', 'beartype._util.api.external')):
            continue
        try:
            importlib.import_module(m.name)
        except BaseException:  # noqa: optional third-party integrations
            pass
    from ..impl import c11_hints, c11_run  # noqa
    _WARM['ok'] = True


def pool():
    warm()
    import gc
    gc.collect()
    gc.freeze()                 # fewer copy-on-write faults in the forked children
    return multiprocessing.get_context('fork').Pool(WORKERS)


# ---------------------------------------------------------------------------------------------------------
# model side
# ---------------------------------------------------------------------------------------------------------
def model_families() -> dict:
    v = parse_sexp(lean_driver([sexp(['c11', 'families'])], 'C11')[0])
    assert v[0] == 'ok', v
    return {k: set(names) for k, names in v[1]}


# ---------------------------------------------------------------------------------------------------------
# tie: tables
# ---------------------------------------------------------------------------------------------------------
def tie_tables(ex: Explore, xt: dict, fam: dict):
    import beartype.roar as roar
    from beartype.roar import _roarexc, _roarwarn
    n = 0
    for modname, mod, rows in (('exc', _roarexc, xt['exc']), ('warn', _roarwarn, xt['warn'])):
        real = {k: v for k, v in vars(mod).items() if isinstance(v, type) and v.__module__ in (mod.__name__, 'beartype.roar')
                and issubclass(v, BaseException)}
        names = [r[0] for r in rows]
        if len(set(names)) != len(names):
            ex.corr_diffs.append({'tie': 'tables', 'what': f'duplicate class names in {modname}'})
        if set(names) != set(real):
            ex.corr_diffs.append({'tie': 'tables', 'what': f'{modname}: extracted and run-time class sets differ',
                                  'only_extracted': sorted(set(names) - set(real)), 'only_runtime': sorted(set(real) - set(names))})
        for name, bases, exported in rows:
            c = real.get(name)
            if c is None:
                continue
            n += 1
            rb = [b.__name__ for b in c.__bases__]
            if rb != bases:
                ex.corr_diffs.append({'tie': 'tables', 'what': f'{name}: bases extracted {bases} run-time {rb}'})
            if exported != (getattr(roar, name, None) is c):
                ex.corr_diffs.append({'tie': 'tables', 'what': f'{name}: exported extracted {exported}'})
        # Lean `under` == issubclass, for every root the theorems name
        roots = ['BeartypeException', 'BeartypeDecorException', 'BeartypeCallException', 'BeartypeHintViolation',
                 'BeartypeDecorHintViolation', 'BeartypeCallHintViolation', 'BeartypeDoorException', 'BeartypeDecorHintException',
                 'BeartypeCallHintException', 'BeartypeDoorHintViolation'] if modname == 'exc' else ['BeartypeWarning', 'BeartypeClawWarning']
        roots = [r for r in roots if r in real]
        for r, line in zip(roots, lean_driver([sexp(['c11', 'under', modname, r]) for r in roots], 'C11')):
            v = parse_sexp(line)
            model = set(v[1]) if v[0] == 'ok' else None
            want = {k for k, c in real.items() if issubclass(c, real[r])}
            n += 1
            if model != want:
                ex.corr_diffs.append({'tie': 'tables', 'what': f'classes under {r}: model and issubclass differ',
                                      'diff': sorted((model or set()) ^ want)})
    pub = {k for k in vars(_roarexc) if isinstance(getattr(_roarexc, k), type) and not k.startswith('_') and getattr(roar, k, None) is getattr(_roarexc, k)}
    if fam['public'] != pub:
        ex.corr_diffs.append({'tie': 'tables', 'what': 'public exception classes differ', 'diff': sorted(fam['public'] ^ pub)})
    ex.evaluations += n
    ex.traces_validated += n
    ex.extra['classes'] = {'exceptions': len(xt['exc']), 'warnings': len(xt['warn']), 'raise_sites': len(xt['raises']),
                           'warn_sites': len(xt['warns']), 'exception_cls_keywords': len(xt['kws']),
                           'placeholder_uses': len(xt['uses'])}


# ---------------------------------------------------------------------------------------------------------
# tie: reraise_exception_placeholder
# ---------------------------------------------------------------------------------------------------------
class _UserExc(Exception):
    pass


def tie_reraise(ex: Explore, rng: random.Random, n: int, xt: dict):
    import beartype.roar._roarexc as rx
    from beartype._util.error.utilerrraise import reraise_exception_placeholder
    classes = [getattr(rx, r[0]) for r in xt['exc'] if r[0] not in ('BeartypeHintViolation',) and not issubclass(getattr(rx, r[0]), rx.BeartypeHintViolation)
               and r[0] != '_BeartypeHintForwardRefExceptionMixin']
    classes += [TypeError, ValueError, KeyError, RecursionError, AttributeError, _UserExc]
    words = ['type hint 5 invalid.', 'x', 'a b', '', 'Upper case', 'parameter x bad', 'zz top']   # ASCII: `upperFirst` models str.upper on ASCII
    targets = ['is_bearable() ', 'Function f() parameter x ', '', 'x', 'X y ']
    cases = []
    for i in range(n):
        cls = classes[i % len(classes)] if i < len(classes) else rng.choice(classes)
        kind = rng.choice(['str', 'str', 'str', 'obj', 'none'])
        if issubclass(cls, rx.BeartypeException):
            kind = 'str'       # BeartypeException.__init__ demands a message
        m = rng.choice([PLACEHOLDER + w for w in words] + words + [w + PLACEHOLDER + 'z' for w in words] + [PLACEHOLDER + PLACEHOLDER])
        cases.append((cls, kind, m, rng.choice(targets)))
    lines, reals = [], []
    for cls, kind, m, target in cases:
        try:
            e = cls(m) if kind == 'str' else (cls(object()) if kind == 'obj' else cls())
        except Exception:
            continue
        before = e.args[0] if e.args else None
        if kind == 'str' and not (e.args and e.args[0] == m):
            m = e.args[0]                     # BeartypeException capitalises its message
        try:
            reraise_exception_placeholder(e, target)
            got = None
        except BaseException as e2:  # noqa
            got = e2
        a0 = ['str', m] if kind == 'str' else (['obj'] if kind == 'obj' else 'none')
        if '"' in m or '"' in target:
            continue
        lines.append(sexp(['c11', 'reraise', cls.__name__, a0, target]))
        reals.append((cls, e, got, before))
    for line, (cls, e, got, _) in zip(lean_driver(lines, 'C11'), reals):
        v = parse_sexp(line)
        ex.evaluations += 1
        ex.traces_validated += 1
        if got is not e:
            ex.failures.append(Failure(key=f'C11:reraise:{type(got).__name__}:not-the-same-object',
                                       what=f'reraise_exception_placeholder({cls.__name__}(…)) raised {type(got).__name__} which is not the caught object',
                                       replay={'mode': 'reraise', 'cls': cls.__name__, 'module': cls.__module__}))
            continue
        if type(got) is not cls:
            ex.failures.append(Failure(key=f'C11:reraise:{type(got).__name__}:class-changed',
                                       what=f'reraise_exception_placeholder changed the class {cls.__name__} -> {type(got).__name__}',
                                       replay={'mode': 'reraise', 'cls': cls.__name__, 'module': cls.__module__}))
            continue
        real_a0 = (['str', got.args[0]] if got.args and isinstance(got.args[0], str) else (['obj'] if got.args else 'none'))
        model_a0 = v[1][2] if v[0] == 'ok' else None
        if v[0] != 'ok' or v[1][0] != cls.__name__ or model_a0 != real_a0:
            ex.corr_diffs.append({'tie': 'reraise', 'request': line, 'model': v, 'real': [cls.__name__, real_a0]})


# ---------------------------------------------------------------------------------------------------------
# tie: callable_cached
# ---------------------------------------------------------------------------------------------------------
class _Unhashable(list):
    pass


class _HashRaises:
    def __init__(self, tag):
        self.tag = tag

    def __hash__(self):
        raise _UserExc(self.tag)


class _OwnTypeError(TypeError):
    pass


def tie_cached(ex: Explore, rng: random.Random, n: int):
    from beartype._util.cache.utilcachecall import callable_cached
    lines, reals, metas = [], [], []
    for _ in range(n):
        keys = [['h', i] for i in range(3)] + [['u', i] for i in range(2)] + [['r', 0]]
        table = {}
        for k in keys:
            r = rng.random()
            table[tuple(k)] = ['val', rng.randint(1, 9)] if r < 0.5 else (['te', rng.randint(1, 9)] if r < 0.75 else ['oe', rng.randint(1, 9)])
        hist = [rng.choice(keys) for _ in range(rng.randint(1, 10))]
        calls = [0]
        objs = {('u', 0): _Unhashable([0]), ('u', 1): _Unhashable([1]), ('r', 0): _HashRaises(0)}

        def mk(k):
            return objs.get(tuple(k), ('key', k[1]))

        def f(arg, table=table, calls=calls):
            calls[0] += 1
            k = ('u', arg[0]) if isinstance(arg, _Unhashable) else (('r', arg.tag) if isinstance(arg, _HashRaises) else ('h', arg[1]))
            o = table[k]
            if o[0] == 'val':
                return o[1]
            if o[0] == 'te':
                raise _OwnTypeError(o[1])
            raise _UserExc(o[1])
        g = callable_cached(f)
        real = []
        for k in hist:
            c0 = calls[0]
            try:
                out = ['val', g(mk(k))]
            except _OwnTypeError as e:
                out = ['te', e.args[0]]
            except _UserExc as e:
                out = ['uh', e.args[0]] if k[0] == 'r' else ['oe', e.args[0]]
            except BaseException as e:  # noqa
                out = ['leak', type(e).__name__]
            real.append([out, calls[0] - c0])
        lines.append(sexp(['c11', 'cached', [[list(k), v] for k, v in table.items()], hist]))
        reals.append(real)
        metas.append((table, hist))
    for line, real, (table, hist) in zip(lean_driver(lines, 'C11'), reals, metas):
        v = parse_sexp(line)
        ex.evaluations += len(hist)
        ex.traces_validated += 1
        model = [[[x[0][0], int(x[0][1])], int(x[1])] for x in v[1]] if v[0] == 'ok' else None
        for i, (k, r) in enumerate(zip(hist, real)):
            spec = table[tuple(k)] if k[0] != 'r' else ['uh', 0]
            if r[0] != spec:            # THE ORACLE: the caller sees what the function answers; never the hashing TypeError
                ex.failures.append(Failure(
                    key=f'C11:callable_cached:{r[0][1] if r[0][0] == "leak" else r[0][0]}:{k[0]}-argument',
                    what=f'@callable_cached: call #{i} with a {"hashable" if k[0] == "h" else "unhashable" if k[0] == "u" else "hash-raising"} '
                         f'argument answered {r[0]} where the function itself answers {spec} (history {hist[:i + 1]})',
                    replay={'mode': 'cached', 'table': [[list(kk), vv] for kk, vv in table.items()], 'history': hist[:i + 1]}))
                break
        else:
            if model != real:
                ex.corr_diffs.append({'tie': 'callable_cached', 'history': hist, 'model': model, 'real': real})


# ---------------------------------------------------------------------------------------------------------
# the oracle on one record
# ---------------------------------------------------------------------------------------------------------
def judge(rec: dict, fam: dict) -> list:
    """[(label, why)] — every way in which this observation breaks the property"""
    out = []
    entry = rec.get('entry')
    if entry is None:
        return out
    strict = [s for s in rec.get('user_sources', []) if s in STRICT_SOURCES]
    if rec['status'] == 'exc':
        if rec['user_same']:
            pass                                        # the very object user code raised
        elif rec['user_cls']:
            out.append(('UserBoom-copy', 'a user exception escaped as a different object'))
        elif strict and entry in STRICT_ENTRIES:
            out.append((rec['cls'] + '-instead-of-user-exception',
                        f'user code ({strict[0]}) raised during the call but {rec["cls"]} escaped instead of that exception'))
        elif not rec['roar_public']:
            out.append((rec['cls'], f'{rec["cls"]} ({rec["module"]}) escaped: not a public beartype.roar exception — {rec["msg"]}'))
        elif rec['cls'] not in fam[entry]:
            out.append((rec['cls'] + '-wrong-family',
                        f'{rec["cls"]} escaped from {entry}: public, but outside the family documented for that entry point'))
    elif strict and entry in STRICT_ENTRIES:
        out.append(('user-exception-swallowed', f'user code ({strict[0]}) raised during the call but nothing escaped'))
    for w in rec.get('warnings', []):
        if not (w['under'] and w['roar_public'] and w['cls'] in fam['publicwarn']):
            out.append(('warning-' + w['cls'], f'warning {w["cls"]} ({w["module"]}) emitted: not a public BeartypeWarning subclass — {w["msg"]}'))
    return out


def has_placeholder(rec):
    return bool(rec.get('placeholder')) or any(w.get('placeholder') for w in rec.get('warnings', []))


# ---------------------------------------------------------------------------------------------------------
# hint kinds (canonical identity of a shrunk failing hint)
# ---------------------------------------------------------------------------------------------------------
def kind(node) -> str:
    from ..impl import c11_hints as H
    op = node[0]
    if op == 'n':
        name = node[1]
        if name in H.VALID_CLASSES or name in ('frozenset', 'complex', 'type', 'deque', 'defaultdict', 'OrderedDict', 'Counter', 'ChainMap'):
            return 'T'
        if name in H.NONHINT_VALUES:
            return '<value>'
        return name
    if op == 'v':
        return '<unhashable>' if node[1] in ('list', 'set', 'dict') else '<value>'
    if op == 's':
        t = node[1]
        if '\x00' in t:
            return "'<nul>'"
        try:
            compile(t, '<s>', 'eval')
        except BaseException:  # noqa
            return "'<unparsable>'"
        return "'<name>'" if all(p.isidentifier() for p in t.split('.')) else "'<expr>'"
    if op == 'fr':
        return 'ForwardRef(' + kind(['s', node[1]]) + ')'
    if op == 't':
        return '(' + ','.join(kind(x) for x in node[1]) + ',)'
    if op == 'sub':
        return f'{H.render(node[1]) if node[1][0] == "n" else kind(node[1])}[{",".join(kind(x) for x in node[2])}]'
    if op == 'ga':
        return f'GenericAlias({H.render(node[1]) if node[1][0] == "n" else kind(node[1])},({",".join(kind(x) for x in node[2])}))'
    if op == 'or':
        return '|'.join(kind(x) for x in node[1])
    if op == 'deep':
        return 'deep'        # whatever head, leaf and depth (the depth at which it breaks depends on the interpreter's stack)
    if op == 'h':
        return node[1] + '()'
    if op in ('is', 'hook'):
        return ('Is' if op == 'is' else 'Hook') + '[' + ''.join(node[1]) + ']'
    if op == 'tv':
        return 'TypeVar(' + ('bound=' + kind(node[1]) if node[1] is not None else '') + ','.join(kind(x) for x in node[2]) + ')'
    if op == 'nt':
        return f'NewType({kind(node[1])})'
    if op == 'alias':
        return f'alias({kind(node[1])})'
    return '?'


# ---------------------------------------------------------------------------------------------------------
# batches of hints in forked children
# ---------------------------------------------------------------------------------------------------------
def batch_job(batch):
    from ..impl import c11_run
    return c11_run.case_job(batch)


def _shrink_job(task):
    """greedy shrink of one failing hint inside a worker: (node, entry, label, prefix nodes, fam, objs) -> dict"""
    from ..impl import c11_hints as H
    from ..impl import c11_run
    node, entry, label, prefix, fam, objs = task
    fam = {k: set(v) for k, v in fam.items()}
    t_end = time.time() + SHRINK_BUDGET_S

    def fails(nd, pre):
        r = c11_run.case_job({'hints': list(pre) + [nd], 'apis': ENTRY_APIS[entry], 'objs': objs, 'descr': False, 'timeout': 30})
        if 'recs' not in r:
            return None
        for rec in r['recs'][-1]:
            if rec.get('entry') == entry:
                for lab, why in judge(rec, fam):
                    if lab == label:
                        return rec, why
        return None
    first = fails(node, [])
    if first is None:
        pre = list(prefix)
        first = fails(node, pre)
        if first is None:
            return {'reproduced': False, 'node': node, 'prefix': prefix}
        # drop members of the history that are not needed
        i = 0
        while i < len(pre):
            cand = pre[:i] + pre[i + 1:]
            if fails(node, cand):
                pre = cand
            else:
                i += 1
    else:
        pre = []
    cur, steps = node, 0
    rec, why = first
    while steps < 150 and time.time() < t_end:
        for cand in H.shrinks(cur):
            steps += 1
            got = fails(cand, pre)
            if got is not None:
                cur, (rec, why) = cand, got
                break
            if steps >= 150 or time.time() >= t_end:
                break
        else:
            break
    conf = next((o[5:] for o in objs if o.startswith('conf:')), None)
    default_too = True
    if conf is not None:
        objs = [o for o in objs if not o.startswith('conf:')]
        default_too = fails(cur, pre) is not None
    return {'reproduced': True, 'node': cur, 'prefix': pre, 'rec': rec, 'why': why, 'conf': None if default_too else conf}


def settle(ex: Explore, candidates: dict, pl, max_shrinks: int):
    """candidates: (entry, label, unshrunk kind) -> shrink task. A candidate whose unshrunk key is a listed finding is
    reported as it is; the others are shrunk (one representative per preliminary key) before being reported."""
    from ..impl import c11_hints as H
    from ..common import load_known
    known = {k['key'] for k in load_known() if isinstance(k, dict) and k.get('property') == 'C11'}
    todo = []
    for pk, task in candidates.items():
        key0 = f'C11:{pk[0]}:{pk[1]}:{pk[2]}'
        if key0 in known:
            ex.failures.append(Failure(key=key0, what=f'{pk[0]} with hint {H.render(task[0])}: {pk[1]}',
                                       replay={'mode': 'hint', 'node': task[0], 'prefix': [], 'entry': pk[0], 'label': pk[1],
                                               'objs': task[5], 'hint_readable': H.render(task[0])}))
        else:
            todo.append((pk, task))
    todo.sort(key=lambda x: H.size(x[1][0]))                 # small hints first: they settle in a few child runs
    fresh = {f.key for f in ex.failures if f.key not in known}

    def shrunk():
        # in chunks, so that a flood (a mutant breaking everything) stops once enough distinct new keys are in hand
        step = 4 * WORKERS
        for i in range(0, min(len(todo), max_shrinks), step):
            if len(fresh) >= MAX_NEW_KEYS:
                ex.extra['failing_hints_not_settled_after_flood'] = len(todo) - i
                return
            chunk = todo[i:i + step]
            yield from zip(chunk, pl.map(_shrink_job, [t for _, t in chunk], chunksize=1))
    for (pk, task), sh in shrunk():
        entry, label, k0 = pk
        if not sh['reproduced']:
            ex.extra.setdefault('unreproduced_in_isolation', []).append([entry, label, k0])
            continue
        node = sh['node']
        key = f'C11:{entry}:{label}:{kind(node)}' + (' after ' + ' ; '.join(kind(p) for p in sh['prefix']) if sh['prefix'] else '') + \
            (f' [only under conf={sh["conf"]}]' if sh.get('conf') else '')
        if key not in known:
            fresh.add(key)
        ex.failures.append(Failure(
            key=key,
            what=f'{entry} with hint {H.render(node)}' + (f' (after {[H.render(p) for p in sh["prefix"]]} in the same process)' if sh['prefix'] else '') +
                 f': {sh["why"]}',
            replay={'mode': 'hint', 'node': node, 'prefix': sh['prefix'], 'entry': entry, 'label': label, 'objs': task[5],
                    'hint_readable': H.render(node), 'observed': sh['rec'], 'unshrunk': H.render(task[0])}))
    for pk, task in (todo[max_shrinks:] if len(fresh) < MAX_NEW_KEYS else []):
        ex.failures.append(Failure(key=f'C11:{pk[0]}:{pk[1]}:{pk[2]}', what=f'{pk[0]} with hint {H.render(task[0])} (not shrunk): {pk[1]}',
                                   replay={'mode': 'hint', 'node': task[0], 'prefix': task[3], 'entry': pk[0], 'label': pk[1],
                                           'objs': task[5], 'hint_readable': H.render(task[0])}))


def explore_hints(ex: Explore, rng: random.Random, fam: dict, n_hints: int, batch_size: int, pl, max_shrinks: int = 400):
    from ..impl import c11_hints as H
    from ..impl import c11_run
    cats = collections.Counter()
    batches, cur = [], []
    for _ in range(n_hints):
        cat, node = H.gen_malformed(rng, 2)
        node = H.normalise(node)
        cats[cat] += 1
        if cat == 'deep':                 # slow ones alone: a time-out then costs no other verdict
            batches.append([(cat, node)])
            continue
        cur.append((cat, node))
        if len(cur) == batch_size:
            batches.append(cur)
            cur = []
    if cur:
        batches.append(cur)
    batches.sort(key=lambda b: b[0][0] != 'deep')          # start the slow ones first
    # 40% of the batches run under a non-default configuration (numeric tower / user overrides): the reducers take
    # other paths there (hint_overrides is consulted for every node)
    jobs = [{'hints': [n for _, n in b], 'apis': c11_run.APIS,
             'objs': rng.sample(sorted(c11_run.OBJS), 3) + rng.choice([[], [], [], ['conf:tower'], ['conf:overrides']]),
             'timeout': 90 if b[0][0] == 'deep' else 120} for b in batches]
    results = pl.map(batch_job, jobs, chunksize=1)
    outcomes = collections.Counter()
    entries = collections.Counter()
    nontrivial = set()
    candidates = {}            # preliminary key -> shrink task
    descr_items = []
    timeouts = unbuildable = harness_errors = 0
    placeholders = []
    for b, job, res in zip(batches, jobs, results):
        if 'recs' not in res:
            if 'crash' in res:
                timeouts += 1
            else:
                harness_errors += 1
                ex.corr_diffs.append({'tie': 'hints', 'what': 'harness error in child', 'detail': res})
            continue
        for i, ((cat, node), recs) in enumerate(zip(b, res['recs'])):
            for rec in recs:
                if rec.get('status') == 'unbuildable':
                    unbuildable += 1
                    continue
                if rec.get('api') == 'descr':
                    descr_items.append((node, rec, recs))
                    continue
                ex.evaluations += 1
                entries[rec['entry']] += 1
                oc = ('user-exception' if rec.get('user_same') else rec['cls']) if rec['status'] == 'exc' else 'ok'
                outcomes[oc] += 1
                if rec['status'] == 'exc' or cat != 'valid':
                    nontrivial.add((kind(node), rec['entry'], oc))
                if has_placeholder(rec):
                    placeholders.append({'hint': H.render(node), 'api': rec['api'], 'msg': rec.get('msg') or [w['msg'] for w in rec['warnings'] if w.get('placeholder')][:1]})
                for label, why in judge(rec, fam):
                    pk = (rec['entry'], label, kind(node))
                    if pk not in candidates:
                        candidates[pk] = (node, rec['entry'], label, [n for _, n in b[:i]], {k: sorted(v) for k, v in fam.items()}, job['objs'])
    settle(ex, candidates, pl, max_shrinks)
    # outside the property's statement (exception TYPES), recorded for the reader: reducers reached without one of the handlers
    ex.extra['messages_with_unsubstituted_placeholder'] = {'count': len(placeholders), 'first': placeholders[:2]}
    tie_classify(ex, descr_items, fam)
    ex.distinct_nontrivial += len(nontrivial)
    ex.extra.setdefault('hint_categories', {}).update(dict(cats))
    ex.extra['entry_points'] = dict(entries)
    ex.extra['outcome_classes'] = dict(outcomes.most_common())
    ex.extra['hints'] = n_hints
    ex.extra['batches_timed_out_or_crashed(no verdict)'] = timeouts
    ex.extra['unbuildable_hints(CPython refused)'] = unbuildable
    ex.extra['failing_preliminary_keys'] = len(candidates)
    ex.samples += [{'hint': H.render(n), 'category': c} for c, n in (batches[-1][:3] + batches[0][:1])]


# ---------------------------------------------------------------------------------------------------------
# tie: classify
# ---------------------------------------------------------------------------------------------------------
def _sx_descr(d):
    pep, nr, ty, inst, tup = d
    return [pep, nr, ty, inst, 'none' if tup == 'none' else [(x if isinstance(x, str) else ['t', x[1], x[2]]) for x in tup]]


def tie_classify(ex: Explore, items, fam):
    from ..impl import c11_hints as H
    lines, keep = [], []
    for node, rec, recs in items:
        d = rec['descr']
        if not d.get('ok'):
            continue
        for sv in (False, True):
            lines.append(sexp(['c11', 'classify', sv, _sx_descr(d['d'])]))
            keep.append((node, rec, recs, sv))
    if not lines:
        return
    dist = collections.Counter()
    for line, (node, rec, recs, sv) in zip(lean_driver(lines, 'C11'), keep):
        v = parse_sexp(line)
        if v[0] != 'ok':
            ex.corr_diffs.append({'tie': 'classify', 'what': 'driver rejected', 'request': line})
            continue
        outcome, cls, ishint = v[1]
        ex.traces_validated += 1
        dist[outcome] += 1
        direct = rec['direct']
        real = direct['die_sv' if sv else 'die']
        if real.get('user_same') or (real['status'] == 'exc' and real.get('user_cls')):
            continue                            # a hostile __hash__/__eq__ of the object itself: not the logic under test
        real_cls = real['cls'] if real['status'] == 'exc' else '-'
        if real_cls != cls:
            ex.corr_diffs.append({'tie': 'classify', 'hint': H.render(node), 'descr': rec['descr'], 'is_ref_str_valid': sv,
                                  'model': [outcome, cls], 'real die_unless_hint': real_cls, 'msg': real.get('msg')})
            continue
        ih = direct['is_hint_sv' if sv else 'is_hint']
        if ih['status'] == 'ok' and str(ih['value']).lower() != ishint:
            ex.corr_diffs.append({'tie': 'classify', 'hint': H.render(node), 'is_hint model': ishint, 'real': ih['value']})
        if not sv and direct['die2'].get('cls') != real.get('cls'):
            ex.corr_diffs.append({'tie': 'classify', 'hint': H.render(node), 'what': 'die_unless_hint answers differently the second time',
                                  'first': real.get('cls'), 'second': direct['die2'].get('cls')})
        # the public checkers answer a root object that is no hint at all with the class `classify` names
        d = rec['descr']['d']
        if not sv and outcome == 'nonpep' and d[4] == 'none' and node != ['n', 'None']:
            for r in recs:
                if r.get('api') in ('decor_param', 'decor_ret', 'is_bearable', 'die_if_unbearable') and not r.get('user_same') \
                        and not (r['status'] == 'exc' and r.get('user_cls')):
                    got = r['cls'] if r['status'] == 'exc' else 'ok'
                    if got != cls:
                        ex.corr_diffs.append({'tie': 'classify-public', 'hint': H.render(node), 'api': r['api'],
                                              'model': cls, 'real': got, 'msg': r.get('msg')})
                        break
    ex.extra['classify_outcomes'] = dict(dist)


# ---------------------------------------------------------------------------------------------------------
# user exceptions
# ---------------------------------------------------------------------------------------------------------
def gen_user(rng: random.Random) -> dict:
    wraps = ['', 'list', 'union', 'dict', 'tuple', 'opt', 'nested']

    def spec():
        r = rng.random()
        if r < 0.3:
            return ['plain', rng.choice(['int', 'str'])]
        script = rng.choice([['T'], ['F'], ['R'], ['F', 'R'], ['T'], ['R']])
        return [rng.choice(['is', 'hook']), script, rng.choice(wraps)]
    entry = rng.choice(['wrapper', 'wrapper', 'wrapper', 'is_bearable', 'die_if_unbearable'])
    if entry == 'wrapper':
        params = [spec() for _ in range(rng.randint(0, 3))]
        good = [rng.random() < 0.85 for _ in params]
        return {'entry': entry, 'params': params, 'good': good, 'body': rng.choice(['return', 'return', 'raise']),
                'ret': spec() if rng.random() < 0.6 else None}
    s = spec()
    return {'entry': entry, 'params': [s], 'good': [rng.random() < 0.8], 'body': 'return', 'ret': None}


def user_step(spec, good, oid):
    """the Step of Core/Roar.lean for one pith + how many exception objects user code creates on the way"""
    if spec[0] == 'plain':
        return 'pass' if good else ['fail', 'none']     # pith_obj: 1 / 'a' when good, 2.5 otherwise
    script = spec[1]
    a0 = script[0]
    if a0 == 'T':
        return 'pass'
    if a0 == 'R':
        return ['raises', oid]
    a1 = script[min(1, len(script) - 1)]
    return ['fail', oid] if a1 == 'R' else ['fail', 'none']


def user_jobs_run(scs):
    from ..impl import c11_run
    return [c11_run.run_user(sc) for sc in scs]


def _user_batch(scs):
    from ..impl import c11_run
    return c11_run.isolated(user_jobs_run, scs, timeout=120)


def tie_user(ex: Explore, rng: random.Random, n: int, pl, fam):
    scs = [gen_user(rng) for _ in range(n)]
    chunks = [scs[i:i + 12] for i in range(0, len(scs), 12)]
    res = pl.map(_user_batch, chunks, chunksize=1)
    lines, flat = [], []
    for chunk, r in zip(chunks, res):
        if not isinstance(r, list):
            ex.corr_diffs.append({'tie': 'user', 'what': 'child failed', 'detail': r})
            continue
        for sc, out in zip(chunk, r):
            steps = [user_step(s, g, 1) for s, g in zip(sc['params'], sc['good'])]
            if sc['entry'] == 'wrapper':
                ret = user_step(sc['ret'], True, 1) if sc['ret'] is not None else 'pass'
                lines.append(sexp(['c11', 'wrapper', steps, 1 if sc['body'] == 'raise' else 'none', ret]))
            else:
                lines.append(sexp(['c11', 'tester' if sc['entry'] == 'is_bearable' else 'raiser', steps[0]]))
            flat.append((sc, out))
    dist = collections.Counter()
    for line, (sc, out) in zip(lean_driver(lines, 'C11'), flat):
        v = parse_sexp(line)
        ex.evaluations += 1
        ex.traces_validated += 1
        model = v[1] if v[0] == 'ok' else None
        mk = model if isinstance(model, str) else model[0]
        dist[mk] += 1
        if out['status'] == 'exc':
            real = 'raised' if out['user_same'] else ('violation' if out['roar_public'] and out['cls'] in fam['call' if sc['entry'] == 'wrapper' else sc['entry']]
                                                      and 'Violation' in out['cls'] else 'other:' + out['cls'])
        else:
            real = 'returned'
        entry = 'call' if sc['entry'] == 'wrapper' else sc['entry']
        if mk == 'raised' and real != 'raised':
            ex.failures.append(Failure(
                key=f'C11:{entry}:user-exception-not-propagated:{real}',
                what=f'user code raised during {sc["entry"]} {sc}: the specification lets that very exception object through, '
                     f'the real outcome is {real} ({out.get("cls")}: {out.get("msg")})',
                replay={'mode': 'user', 'scenario': sc, 'model': model}))
        elif real.startswith('other:') or (real == 'raised' and mk != 'raised'):
            rec = dict(out, entry=entry)
            js = judge(rec, fam)
            if js:
                ex.failures.append(Failure(key=f'C11:{entry}:{js[0][0]}:user-scenario', what=f'{sc["entry"]} {sc}: {js[0][1]}',
                                           replay={'mode': 'user', 'scenario': sc, 'model': model}))
            else:
                ex.corr_diffs.append({'tie': 'user', 'scenario': sc, 'model': model, 'real': real, 'cls': out.get('cls')})
        elif real != mk:
            ex.corr_diffs.append({'tie': 'user', 'scenario': sc, 'model': model, 'real': real, 'cls': out.get('cls'), 'msg': out.get('msg')})
        elif mk == 'raised' and out['n_raised'] < 1:
            ex.corr_diffs.append({'tie': 'user', 'scenario': sc, 'what': 'raised without user code raising?'})
    ex.extra['user_scenarios'] = dict(dist)
    ex.distinct_nontrivial += len({repr(sc) for sc, _ in flat if any(s[0] != 'plain' for s in sc['params']) or sc['body'] == 'raise' or sc['ret']})


# ---------------------------------------------------------------------------------------------------------
# corpus: shapes that leaked on the unchanged tree (run first, always)
# ---------------------------------------------------------------------------------------------------------
def corpus():
    """shapes that leaked on the unchanged tree (fixed or listed since): run first, on every run"""
    N = lambda x: ['n', x]  # noqa
    return [
        ['sub', N('Literal'), [['v', 'list', [['v', 'int', 1]]]]],
        ['sub', N('list'), [['sub', N('Annotated'), [N('int'), ['v', 'list', []]]]]],
        ['sub', N('list'), [['v', 'list', []]]],
        ['ga', N('dict'), [['v', 'list', []], N('int')]],
        ['deep', 'list', 300, N('int')], ['deep', 'list', 256, N('int')], ['deep', 'Union2', 100, N('int')], ['deep', 'list', 1500, N('int')],
        ['ga', ['v', 'int', 5], [N('int')]],
        ['nt', ['v', 'int', 5]], ['nt', N('bool')], ['nt', N('EnumC')], ['sub', N('type'), [['s', 'int | nonexistent']]],
        # Annotated with a validator FIRST and a non-validator later, over ignorable and unignorable base hints
        ['sub', N('Annotated'), [N('object'), ['is', ['T']], ['v', 'str', 'note']]],
        ['sub', N('Annotated'), [N('Any'), ['is', ['T']], ['v', 'int', 5]]],
        ['sub', N('Annotated'), [N('int'), ['is', ['T']], ['v', 'str', 'note']]],
        ['sub', N('list'), [['sub', N('Annotated'), [N('object'), ['is', ['T']], ['v', 'str', 'note']]]]],
        ['sub', N('Optional'), [['sub', N('Annotated'), [N('object'), ['is', ['F']], ['v', 'int', 0]]]]],
        # forward references that become resolvable only after the decoration, to a class / an alias / a literal / a value,
        # plain and under type[...]
        ['s', 'C11_LATE_CLASS'], ['s', 'C11_LATE_ALIAS'], ['s', 'C11_LATE_VALUE'],
        ['sub', N('type'), [['s', 'C11_LATE_CLASS']]], ['sub', N('type'), [['s', 'C11_LATE_ALIAS']]],
        ['sub', N('type'), [['s', 'C11_LATE_LITERAL']]], ['sub', N('type'), [['s', 'C11_LATE_VALUE']]],
        ['sub', N('list'), [['sub', N('type'), [['s', 'C11_LATE_ALIAS']]]]],
        ['sub', N('GenericUser'), [['v', 'dict', []]]], ['sub', N('Union'), [['alias', N('Any')], N('int')]],
        ['ga', N('Union'), [N('int')]], ['ga', N('Annotated'), [N('int'), ['v', 'int', 0]]], ['ga', N('Tuple'), [N('int')]],
        ['t', [['s', '\x00']]], ['t', [N('int'), ['s', 'list[']]], N('method'), N('ProtoUser'), N('CUnhash'),
        ['sub', N('Annotated'), [N('int'), ['is', ['R']]]], ['sub', N('list'), [['hook', ['R']]]],
        ['h', 'HHash'], ['h', 'HRepr'], ['h', 'HEq'], N('CIC'), N('CSC'), N('CRepr'), N('CHash'),
        ['v', 'int', 5], ['s', 'nonexistent'], ['s', '1+'], N('ClassVar'), N('NoReturn'), ['t', []], ['t', [N('int'), ['v', 'int', 5]]],
        ['ga', N('list'), [N('int'), N('str')]], ['ga', N('dict'), [N('int')]], ['ga', N('tuple'), [N('Ellipsis')]],
    ]


def explore_corpus(ex: Explore, fam, pl):
    from ..impl import c11_hints as H
    from ..impl import c11_run
    jobs = [{'hints': [n], 'apis': c11_run.APIS, 'objs': ['int', 'list_int', 'str', 'cls_int', 'cls_bool'] + cf, 'timeout': 120}
            for n in corpus() for cf in ([], ['conf:tower'])]
    found = {}
    for node, job, res in zip([n for n in corpus() for _ in (0, 1)], jobs, pl.map(batch_job, jobs, chunksize=1)):
        if 'recs' not in res:
            continue
        for rec in res['recs'][0]:
            if rec.get('api') in ('descr',) or rec.get('status') == 'unbuildable':
                continue
            ex.evaluations += 1
            for label, why in judge(rec, fam):
                found.setdefault((rec['entry'], label, kind(node)), (node, rec['entry'], label, [], {k: sorted(v) for k, v in fam.items()}, job['objs']))
    settle(ex, found, pl, 400)
    ex.extra['corpus_hints'] = len(jobs)


# ---------------------------------------------------------------------------------------------------------
def explore(ck: Check, n_hints: int, n_user: int, n_cached: int, n_reraise: int, seed: int, max_shrinks: int = 400) -> Explore:
    xt = xroar.extract()
    rng = random.Random(seed)
    ex = Explore(rule='evaluation = one call of a public entry point (or of an anchored function) with a generated object in hint '
                      'position, or one scripted call; non-trivial = distinct (abstract hint shape, entry point, escaping class) '
                      'where the hint is malformed or something escaped, plus distinct user-exception scenarios that run user code')
    t0 = time.time()

    def phase(name):
        tm = os.times()
        ck.log(f'[C11] {name}: +{time.time() - t0:.1f}s (cpu {tm.user + tm.system + tm.children_user + tm.children_system:.0f}s) '
               f'evaluations={ex.evaluations} failures={len(ex.failures)} corr_diffs={len(ex.corr_diffs)}')
    fam = model_families()
    tie_tables(ex, xt, fam)
    tie_reraise(ex, rng, n_reraise, xt)
    tie_cached(ex, rng, n_cached)
    phase('tables/reraise/callable_cached ties')
    with pool() as pl:
        explore_corpus(ex, fam, pl)
        phase('corpus')
        explore_hints(ex, rng, fam, n_hints, 6, pl, max_shrinks=max_shrinks)
        phase('malformed-hint generator')
        tie_user(ex, rng, n_user, pl, fam)
        phase('user exceptions')
    # a flood (a mutant breaking everything) is reported by its first distinct keys; listed findings are always kept
    from ..common import load_known
    known = {k['key'] for k in load_known() if isinstance(k, dict) and k.get('property') == 'C11'}
    kept, fresh = [], set()
    for f in ex.failures:
        if f.key in known or f.key in fresh:
            kept.append(f)
        elif len(fresh) < MAX_NEW_KEYS:
            fresh.add(f.key)
            kept.append(f)
    ex.extra['failures_before_cap'] = len(ex.failures)
    ex.failures = kept
    return ex


def main(ck: Check) -> int:
    quick = ck.tier == 'quick'
    xroar.extract()                      # Extracted/Roar.lean follows $VERIF_REPO (idempotent; also part of extract_all)
    proof = ck.prove(MODULE, PROP_FILE)
    t = time.time()
    ex = explore(ck, n_hints=1500 if quick else 12000, n_user=400 if quick else 3000, n_cached=300 if quick else 3000,
                 n_reraise=300 if quick else 1500, seed=ck.seed)
    ex.extra['explore_wall_s'] = round(time.time() - t, 1)
    ck.decide(proof, ex, deep_search=lambda: explore(ck, n_hints=6000, n_user=1500, n_cached=1000, n_reraise=600, seed=ck.seed + 1000))
    ck.evidence(proof, ex,
                level_note='PARTIAL. Proved (Lean, all inputs): the extracted exception/warning algebra (public classes under '
                           'BeartypeException, decoration-/call-time families rooted as documented and disjoint, warnings under '
                           'BeartypeWarning, every raise/warn site rooted or a protocol raiser, placeholder sites wrapped), '
                           'reraise keeps class and identity, callable_cached never leaks the hashing TypeError after any history, '
                           'the die_unless_hint decision table is total with public outcomes only, user exceptions leave the '
                           'wrapper as the same object. NOT proved: that the real pipeline answers EVERY Python object as '
                           'classified — "whatever object is supplied as a hint" is supported by the differential generator only.',
                assumptions=['an exception raised by the hint object\'s own dunder methods (__hash__, __eq__, __repr__, __bool__, '
                             '__class_getitem__, __subclasscheck__, a decoration-time __instancecheck__ probe) is user code: accepted '
                             'when it escapes as the very same object or as a public beartype exception of the entry point\'s family',
                             'time-outs of single cases (deeply nested hints under load) give no verdict and are counted in the evidence',
                             'objects CPython/typing itself refuses to construct (Union[()], Annotated[int, <hash-raising>]) are not inputs',
                             'third-party hint families (NumPy, Pandera, …) and Python versions other than 3.12 are not driven'])
    return ck.finish()


def replay(data: dict) -> int:
    xroar.extract()
    warm()
    fam = model_families()
    from ..impl import c11_hints as H
    from ..impl import c11_run
    mode = data.get('mode')
    if mode == 'hint':
        r = c11_run.case_job({'hints': list(data.get('prefix', [])) + [data['node']], 'apis': ENTRY_APIS[data['entry']],
                              'objs': data['objs'], 'descr': False, 'timeout': 120})
        print('hint:', H.render(data['node']), '| entry point:', data['entry'])
        if 'recs' not in r:
            print('replay: child did not finish:', r)
            return 0
        bad = 0
        for rec in r['recs'][-1]:
            if rec.get('entry') != data['entry']:
                continue
            js = judge(rec, fam)
            print(f"  {rec['api']}({rec.get('obj')}): {rec['status']} {rec.get('cls', '')} {rec.get('msg', '')[:100]}")
            for lab, why in js:
                print(f'    expected: nothing, or a public beartype.roar exception of family {data["entry"]}, or the injected user exception itself')
                print(f'    actual:   {why}')
                bad += lab == data['label']
        print('replay:', 'reproduced' if bad else 'not reproduced')
        return 1 if bad else 0
    if mode == 'user':
        out = c11_run.user_job(data['scenario'])
        print('scenario:', data['scenario'], '\nspecification:', data['model'], '\nreal:', {k: out.get(k) for k in ('status', 'cls', 'user_same', 'msg')})
        ok = out.get('status') == 'exc' and out.get('user_same')
        want = data['model'] if isinstance(data['model'], str) else data['model'][0]
        return 0 if (want == 'raised') == bool(ok) else 1
    if mode == 'cached':
        ex = Explore()
        from beartype._util.cache.utilcachecall import callable_cached
        table = {tuple(k): v for k, v in data['table']}
        objs = {('u', 0): _Unhashable([0]), ('u', 1): _Unhashable([1]), ('r', 0): _HashRaises(0)}

        def f(arg):
            k = ('u', arg[0]) if isinstance(arg, _Unhashable) else (('r', arg.tag) if isinstance(arg, _HashRaises) else ('h', arg[1]))
            o = table[k]
            if o[0] == 'val':
                return o[1]
            raise (_OwnTypeError if o[0] == 'te' else _UserExc)(o[1])
        g = callable_cached(f)
        rc = 0
        for k in data['history']:
            try:
                out = ['val', g(objs.get(tuple(k), ('key', k[1])))]
            except _OwnTypeError as e:
                out = ['te', e.args[0]]
            except _UserExc as e:
                out = ['uh' if k[0] == 'r' else 'oe', e.args[0]]
            except BaseException as e:  # noqa
                out = ['leak', type(e).__name__]
            spec = table[tuple(k)] if k[0] != 'r' else ['uh', 0]
            print(f'call {k}: real {out} specification {spec}')
            rc |= out != spec
        return 1 if rc else 0
    if mode == 'reraise':
        import importlib
        from beartype._util.error.utilerrraise import reraise_exception_placeholder
        cls = getattr(importlib.import_module(data['module'] if data['module'] != 'beartype.roar' else 'beartype.roar._roarexc'), data['cls'], None) \
            or getattr(__import__('builtins'), data['cls'])
        e = cls(PLACEHOLDER + 'x')
        try:
            reraise_exception_placeholder(e, 'f() ')
        except BaseException as got:  # noqa
            print(f'caught class {cls.__name__}; re-raised {type(got).__name__}; same object: {got is e}')
            return 0 if (got is e and type(got) is cls) else 1
    print('replay: unknown replay file')
    return 2
