"""C06 — hook scoping after any hook history (DESIGN §4 C06).

Tie: lock-step differential. Generated histories are applied to the real
beartype.claw API (state reset with claw_state.reinit()) observing after EVERY
operation: outcome class, presence of beartype's path hook in sys.path_hooks and
get_package_conf_or_none(q) for a fixed set of query names; the same history goes
through the Lean model (`Core/Claw.lean`), which `Props/C06.lean` proves equal to
the declarative specification for every history. Any difference in those
observables is therefore a violation of the property itself, and the (shrunk)
history is the replay.
"""
from __future__ import annotations

import random
import sys

from ..common import (LEAN, Check, Explore, Failure, lean_driver, parse_sexp, sexp)
from ..extract import claw as xclaw

MODULE = 'BearVerif.Props.C06'
PROP_FILE = LEAN / 'BearVerif/Props/C06.lean'

NAMES = ['a', 'a.b', 'a.b.c', 'a.c', 'ab', 'b', 'b.a', 'c', 'a.b.c.d', 'd.e']
BAD_NAMES = ['a..b', '', '.a']
QUERIES = ['a', 'a.b', 'a.b.c', 'a.b.c.d', 'a.b.x', 'a.c', 'a.c.y', 'a.x', 'ab', 'ab.c', 'b', 'b.a', 'b.a.z', 'c', 'c.q',
           'd', 'd.e', 'd.e.f', 'zz', 'beartype.door', 'pydantic', 'pydantic.v1', 'urllib3.util']


def pool():
    """(label, real BeartypeConf, model triple (base, warn, skip))."""
    from beartype import BeartypeConf
    mk = BeartypeConf
    return [
        ('K0', mk(), (0, '-', [])),
        ('K1', mk(is_debug=True), (1, '-', [])),
        ('K3', mk(is_debug=True, warning_cls_on_decorator_exception=UserWarning), (1, 1, [])),
        ('K4', mk(claw_skip_package_names=('a.b',)), (0, '-', [['a', 'b']])),
        ('K5', mk(claw_skip_package_names=('c', 'a.b.c')), (0, '-', [['c'], ['a', 'b', 'c']])),
        ('K6', mk(is_debug=True, claw_skip_package_names=('a',)), (1, '-', [['a']])),
        ('K7', mk(warning_cls_on_decorator_exception=UserWarning), (0, 1, [])),
    ]


def triple_of(conf):
    """Real configuration -> the model's view of it."""
    if conf is None:
        return 'none'
    from beartype.roar import BeartypeClawDecorWarning
    if not conf._is_warning_cls_on_decorator_exception_set:
        w = '-'
    else:
        w = {BeartypeClawDecorWarning: 0, UserWarning: 1}[conf.warning_cls_on_decorator_exception]
    return [str(1 if conf.is_debug else 0), str(w), [n.split('.') for n in conf.claw_skip_package_names]]


def path(n: str):
    return n.split('.')


def gen_history(rng: random.Random, maxlen: int, confs) -> list:
    """Mostly-valid histories with forced prefix collisions, conflicts mid-list,
    nested blocks interleaved with global registrations; a separate malformed stream."""
    n = rng.randint(1, maxlen)
    ops, depth = [], 0
    few = rng.sample(range(len(confs)), k=rng.randint(1, 3))  # few confs => many re-registrations/conflicts
    for _ in range(n):
        k = rng.choice(few) if rng.random() < 0.85 else rng.randrange(len(confs))
        r = rng.random()
        if r < 0.12:
            ops.append(['all', k])
        elif r < 0.62:
            if rng.random() < 0.06:
                names = [rng.choice(BAD_NAMES)] if rng.random() < 0.7 else []
            else:
                names = [rng.choice(NAMES) for _ in range(1 if rng.random() < 0.6 else rng.randint(2, 3))]
            ops.append(['pkgs', names, k])
        elif r < 0.82 and depth < 3:
            ops.append(['enter', k])
            depth += 1
        elif depth > 0:
            ops.append(['exit'])
            depth -= 1
        else:
            ops.append(['pkgs', [rng.choice(NAMES)], k])
    return ops


def run_real(history, confs) -> list:
    from beartype.claw import beartype_all, beartype_package, beartype_packages, beartyping
    from beartype.claw._clawstate import claw_state
    from beartype.claw._package.clawpkgtrie import get_package_conf_or_none
    from beartype.roar import BeartypeClawHookException
    claw_state.reinit()
    stack, res = [], []
    try:
        for op in history:
            try:
                if op[0] == 'all':
                    beartype_all(conf=confs[op[1]][1])
                elif op[0] == 'pkgs':
                    if len(op[1]) == 1:
                        beartype_package(op[1][0], conf=confs[op[2]][1])
                    else:
                        beartype_packages(tuple(op[1]), conf=confs[op[2]][1])
                elif op[0] == 'enter':
                    cm = beartyping(conf=confs[op[1]][1])
                    cm.__enter__()
                    stack.append(cm)
                elif op[0] == 'exit':
                    stack.pop().__exit__(None, None, None)
                out = 'ok'
            except BeartypeClawHookException:
                out = 'raised'
            except Exception as e:  # anything else is itself a finding
                out = 'exc:' + type(e).__name__
            hook = claw_state.beartype_path_hook is not None and claw_state.beartype_path_hook in sys.path_hooks
            res.append([out, 'hook' if hook else 'nohook', [triple_of(get_package_conf_or_none(q)) for q in QUERIES]])
    finally:
        while stack:
            try:
                stack.pop().__exit__(None, None, None)
            except Exception:
                pass
        claw_state.reinit()
    return res


def model_line(history, confs, builtin) -> str:
    ops = []
    for op in history:
        if op[0] == 'all':
            ops.append(['all', conf_sx(confs[op[1]][2])])
        elif op[0] == 'pkgs':
            ops.append(['pkgs', [path(n) for n in op[1]], conf_sx(confs[op[2]][2])])
        elif op[0] == 'enter':
            ops.append(['enter', conf_sx(confs[op[1]][2])])
        else:
            ops.append(['exit'])
    return sexp(['c06', builtin, ops, [path(q) for q in QUERIES]])


def conf_sx(t):
    return [t[0], t[1], t[2]]


# native driver when lean/lakefile.toml declares it (the interpreted driver costs seconds per call: shrinking a flood
# of failing histories took more than half an hour against a seeded change)
C06_EXE = 'c06driver' if '"c06driver"' in (LEAN / 'lakefile.toml').read_text() else None


def run_model(histories, confs, builtin) -> list:
    out = []
    for line in lean_driver([model_line(h, confs, builtin) for h in histories], 'C06', exe=C06_EXE):
        v = parse_sexp(line)
        assert v[0] == 'ok', line
        out.append(v[1])
    return out


def first_diff(real, model):
    """(op index, field, query, real, model) of the first observable difference."""
    for i, (r, m) in enumerate(zip(real, model)):
        if r[0] != m[0]:
            return (i, 'outcome', None, r[0], m[0])
        if r[1] != m[1]:
            return (i, 'pathhook', None, r[1], m[1])
        for q, a, b in zip(QUERIES, r[2], m[2]):
            if a != b:
                return (i, 'conf', q, a, b)
    return None


def shrink(history, confs, builtin):
    """Greedy op removal keeping block structure valid and the run still differing."""
    def valid(h):
        d = 0
        for op in h:
            if op[0] == 'enter':
                d += 1
            elif op[0] == 'exit':
                d -= 1
                if d < 0:
                    return False
        return True
    cur = history
    while True:
        cands = [cur[:i] + cur[i + 1:] for i in range(len(cur))]
        cands = [c for c in cands if c and valid(c)]
        # also shorten multi-name calls
        for i, op in enumerate(cur):
            if op[0] == 'pkgs' and len(op[1]) > 1:
                for j in range(len(op[1])):
                    cands.append(cur[:i] + [['pkgs', op[1][:j] + op[1][j + 1:], op[2]]] + cur[i + 1:])
        if not cands:
            return cur
        models = run_model(cands, confs, builtin)
        for c, m in zip(cands, models):
            if first_diff(run_real(c, confs), m) is not None:
                cur = c
                break
        else:
            return cur


def describe(history, confs):
    out = []
    for op in history:
        if op[0] == 'all':
            out.append(f'beartype_all(conf={confs[op[1]][0]})')
        elif op[0] == 'pkgs':
            out.append(f'beartype_packages({op[1]!r}, conf={confs[op[2]][0]})')
        elif op[0] == 'enter':
            out.append(f'with beartyping(conf={confs[op[1]][0]}):')
        else:
            out.append('<leave block>')
    return out


def explore(ck: Check, n: int, maxlen: int, seed: int, exhaustive_len: int = 0) -> Explore:
    builtin = xclaw.extract()
    confs = pool()
    rng = random.Random(seed)
    ex = Explore(rule='histories of beartype_all / beartype_package(s) / beartyping enter+exit over 10 dotted names '
                      '(prefix and near-prefix collisions), 7 configurations (debug / explicit warning class / skip lists), '
                      '6% malformed name lists; non-trivial = history with >=1 successful registration AND '
                      '(a conflict raised OR a block left OR a skip list applied); distinct = distinct op sequences')
    hists = [gen_history(rng, maxlen, confs) for _ in range(n)]
    if exhaustive_len:
        import itertools
        small_ops = [['all', 0], ['all', 1], ['pkgs', ['a'], 0], ['pkgs', ['a'], 1], ['pkgs', ['a.b'], 1],
                     ['pkgs', ['a.b', 'a'], 0], ['pkgs', ['b'], 3], ['enter', 0], ['enter', 1], ['enter', 4], ['exit']]
        for L in range(1, exhaustive_len + 1):
            for combo in itertools.product(small_ops, repeat=L):
                d, ok = 0, True
                for op in combo:
                    d += (op[0] == 'enter') - (op[0] == 'exit')
                    if d < 0:
                        ok = False
                        break
                if ok:
                    hists.append([list(o) for o in combo])
        ex.extra['exhaustive_small_histories'] = f'all well-formed histories of length <= {exhaustive_len} over {len(small_ops)} operations'
    models = run_model(hists, confs, builtin)
    seen, nontrivial = set(), set()
    kinds = {}
    for h, m in zip(hists, models):
        real = run_real(h, confs)
        ex.evaluations += 1
        ex.traces_validated += 1
        key = repr(h)
        if key not in seen:
            seen.add(key)
            oks = [r[0] for r in real]
            anyreg = any(o == 'ok' and op[0] in ('pkgs', 'all', 'enter') for o, op in zip(oks, h))
            interesting = ('raised' in oks) or any(op[0] == 'exit' for op in h) or \
                any(confs[op[-1]][2][2] for op in h if op[0] != 'exit')
            if anyreg and interesting:
                nontrivial.add(key)
        for r in real:
            kinds[r[0]] = kinds.get(r[0], 0) + 1
        # oracle independent of the model: an EMPTY beartyping() block must restore every observable
        for i in range(len(h) - 1):
            if h[i][0] == 'enter' and h[i + 1][0] == 'exit':
                before = real[i - 1][1:] if i else ['nohook', ['none'] * len(QUERIES)]
                after = real[i + 1][1:]
                if before != after:
                    qs = [q for q, a, b in zip(QUERIES, before[1], after[1]) if a != b]
                    skip = confs[h[i][1]][2][2]
                    kind = 'skip-list-persists' if (before[0] == after[0] and skip and all(
                        any(q.split('.')[:len(p)] == p for p in skip) for q in qs)) else 'other'
                    hh = h[:i + 2]
                    mini = run_real([h[i], h[i + 1]], confs)     # does the block alone, on a fresh registry, show it?
                    if mini[1][1:] != ['nohook', ['none'] * len(QUERIES)]:
                        hh, before, after = [h[i], h[i + 1]], ['nohook', ['none'] * len(QUERIES)], mini[1][1:]
                        qs = [q for q, a, b in zip(QUERIES, before[1], after[1]) if a != b]
                    ex.failures.append(Failure(
                        key=f'C06:empty-block-not-restored:{kind}',
                        what=f'history {describe(hh, confs)}: leaving the empty block does not restore the state that '
                             f'preceded it (hook {before[0]}->{after[0]}, answers changed for {qs})',
                        replay={'history': hh, 'history_readable': describe(hh, confs), 'oracle': 'empty-block',
                                'before': before, 'after': after}))
        d = first_diff(real, m)
        if d is not None:
            hs = shrink(h, confs, builtin)
            ms = run_model([hs], confs, builtin)[0]
            rs = run_real(hs, confs)
            ds = first_diff(rs, ms)
            key = 'C06:' + ' '.join(op[0] + (str(len(op[1])) if op[0] == 'pkgs' else '') for op in hs) + ':' + ds[1]
            ex.failures.append(Failure(
                key=key,
                what=f'history {describe(hs, confs)}: after op #{ds[0]} {ds[1]}' + (f' for module {ds[2]!r}' if ds[2] else '') +
                     f' is {ds[3]} on the real registry, the specification says {ds[4]}',
                replay={'history': hs, 'history_readable': describe(hs, confs), 'first_difference':
                        {'after_op': ds[0], 'observable': ds[1], 'query': ds[2], 'real': ds[3], 'spec': ds[4]},
                        'unshrunk_history': h}))
            if len({f.key for f in ex.failures}) >= 8 or len(ex.failures) >= 16:
                break          # a flood (a change breaking every history): the first witnesses are enough
    ex.distinct_nontrivial = len(nontrivial)
    ex.extra['outcome_distribution'] = kinds
    ex.extra['distinct_histories'] = len(seen)
    ex.samples = [{'history': describe(h, confs)} for h in hists[:3]]
    return ex


def replay(data: dict) -> int:
    builtin = xclaw.extract()
    confs = pool()
    h = data['history']
    real = run_real(h, confs)
    model = run_model([h], confs, builtin)[0]
    d = first_diff(real, model)
    print('history:', describe(h, confs))
    if data.get('oracle') == 'empty-block':
        i = len(h) - 2
        before = real[i - 1][1:] if i else ['nohook', ['none'] * len(QUERIES)]
        print('before block:', before, '\nafter block: ', real[i + 1][1:])
        return 1 if before != real[i + 1][1:] else 0
    if d is None:
        print('replay: real registry and specification agree on this history (not reproduced)')
        return 0
    print(f'replay: after op #{d[0]} observable {d[1]} query={d[2]}: real={d[3]} specification={d[4]}')
    return 1


def main(ck: Check) -> int:
    quick = ck.tier == 'quick'
    proof = ck.prove(MODULE, PROP_FILE)
    ex = explore(ck, n=1500 if quick else 20000, maxlen=12, seed=ck.seed, exhaustive_len=3 if quick else 4)
    ck.decide(proof, ex, deep_search=lambda: explore(ck, n=20000, maxlen=14, seed=ck.seed + 1, exhaustive_len=4))
    ck.evidence(proof, ex,
                level_note='refinement proof for every finite history (Lean) + lock-step differential of the model against the real registry',
                assumptions=['BeartypeConf equality is modelled as structural equality of (other options, warning class, skip list)',
                             'beartype_this_package (frame introspection) is not driven; it funnels into the same hook_packages',
                             'single-threaded histories (thread interleavings are C15)'])
    return ck.finish()
